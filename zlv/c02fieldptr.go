package main

import (
	"go/token"
	"go/types"
	"strings"

	"golang.org/x/tools/go/ssa"
)

// C02, obligation class P8 — "field-deref". A pointer-typed field of a struct
// that a library filled in (x509.Certificate, RevocationList, ocsp.Response and
// what hangs off them: *big.Int, *QCStatements, *pkix.Extension members …) may
// be nil; loading it and then dereferencing it (field access, load, call of a
// method with pointer receiver) panics. Discharged by a dominating nil test of
// the same access path, by the lint's CheckApplies establishing `path != nil`,
// or by a reviewed ledger line (parser invariant: "always set").

func libStructPtrField(fa *ssa.FieldAddr) (*types.Var, bool) {
	pt, ok := fa.X.Type().Underlying().(*types.Pointer)
	if !ok {
		return nil, false
	}
	named, ok := pt.Elem().(*types.Named)
	if !ok || named.Obj().Pkg() == nil || isModPkg(named.Obj().Pkg()) {
		return nil, false
	}
	st, ok := named.Underlying().(*types.Struct)
	if !ok {
		return nil, false
	}
	f := st.Field(fa.Field)
	if _, isPtr := f.Type().Underlying().(*types.Pointer); !isPtr {
		return nil, false
	}
	return f, true
}

// ptrUses: instructions that dereference the loaded pointer v.
func ptrUses(v ssa.Value) []ssa.Instruction {
	var out []ssa.Instruction
	seen := map[ssa.Value]bool{}
	var visit func(x ssa.Value)
	visit = func(x ssa.Value) {
		if seen[x] || x.Referrers() == nil {
			return
		}
		seen[x] = true
		for _, ref := range *x.Referrers() {
			switch r := ref.(type) {
			case *ssa.FieldAddr:
				if r.X == x {
					out = append(out, r)
				}
			case *ssa.UnOp:
				if r.Op == token.MUL && r.X == x {
					out = append(out, r)
				}
			case *ssa.Call:
				if !r.Call.IsInvoke() && len(r.Call.Args) > 0 && r.Call.Args[0] == x {
					if g := r.Call.StaticCallee(); g != nil && g.Signature.Recv() != nil {
						if _, isPtr := g.Signature.Recv().Type().(*types.Pointer); isPtr {
							out = append(out, r)
						}
					}
				}
			case *ssa.Phi:
				visit(r)
			}
		}
	}
	visit(v)
	return out
}

// guardedByPathNil: block b is dominated by the edge of a nil test of the value
// with access path `path` on which that value IS nil (wantNil) / is NOT nil.
func guardedByPathNil(b *ssa.BasicBlock, path string, wantNil bool) bool {
	for d := b; d != nil; d = d.Idom() {
		id := d.Idom()
		if id == nil {
			return false
		}
		iff, ok := id.Instrs[len(id.Instrs)-1].(*ssa.If)
		if !ok {
			continue
		}
		bo, ok := iff.Cond.(*ssa.BinOp)
		if !ok || (bo.Op != token.NEQ && bo.Op != token.EQL) {
			continue
		}
		var v ssa.Value
		if isNilConst(bo.Y) {
			v = bo.X
		} else if isNilConst(bo.X) {
			v = bo.Y
		} else {
			continue
		}
		if apath(v) != path {
			continue
		}
		// edge on which v == nil
		nilEdge := 0
		if bo.Op == token.NEQ {
			nilEdge = 1
		}
		want := nilEdge
		if !wantNil {
			want = 1 - nilEdge
		}
		s := id.Succs[want]
		if len(s.Preds) == 1 && s.Dominates(b) {
			return true
		}
	}
	return false
}

// fieldSetWhenExt: pointer fields the certificate parser sets exactly when it
// meets the extension with the given OID (and fails if that extension does not
// decode). The value is the util variable holding the OID.
var fieldSetWhenExt = map[string]string{
	"github.com/zmap/zcrypto/x509.Certificate.CABFOrganizationIdentifier": "&util.CabfExtensionOrganizationIdentifier", // x509.go parseCertificate: else if e.Id.Equal(oidExtCABFOrganizationID) { …; out.CABFOrganizationIdentifier = &CABFOrganizationIdentifier{…} }
}

// extTestDominates: block b is dominated by the true edge of
// <x>.Id.Equal(oid) or util.IsExtInCert(<obj>, oid) in the same function.
func extTestDominates(b *ssa.BasicBlock, oid string) bool {
	for d := b; d != nil; d = d.Idom() {
		id := d.Idom()
		if id == nil {
			return false
		}
		iff, ok := id.Instrs[len(id.Instrs)-1].(*ssa.If)
		if !ok {
			continue
		}
		cond, edge := iff.Cond, 0
		for {
			if u, ok := cond.(*ssa.UnOp); ok && u.Op == token.NOT {
				cond, edge = u.X, 1-edge
				continue
			}
			break
		}
		call, ok := cond.(*ssa.Call)
		if !ok || len(call.Call.Args) != 2 {
			continue
		}
		name := staticCalleeName(&call.Call)
		isTest := false
		switch {
		case name == "util.IsExtInCert":
			isTest = strings.TrimPrefix(apath(call.Call.Args[1]), "&") == strings.TrimPrefix(oid, "&")
		case strings.HasSuffix(name, "asn1.ObjectIdentifier).Equal"):
			a0, a1 := apath(call.Call.Args[0]), strings.TrimPrefix(apath(call.Call.Args[1]), "&")
			isTest = strings.HasSuffix(a0, ".Id") && a1 == strings.TrimPrefix(oid, "&")
		}
		if !isTest {
			continue
		}
		s := id.Succs[edge]
		if len(s.Preds) == 1 && s.Dominates(b) {
			return true
		}
	}
	return false
}

// appliesOnlyUnderExt: every return of CheckApplies that can be true lies under
// the extension test (so Execute runs only on certificates carrying it).
func appliesOnlyUnderExt(applies *ssa.Function, oid string) bool {
	if applies == nil || len(applies.Blocks) == 0 {
		return false
	}
	n := 0
	for _, ret := range returnsOf(applies) {
		for _, rv := range retVals(ret) {
			if k, ok := rv.(*ssa.Const); ok && k.Value != nil && k.Value.ExactString() == "false" {
				continue
			}
			n++
			if extTestDominates(ret.Block(), oid) {
				continue
			}
			// return a && b && IsExtInCert(c, oid): the returned value is a phi of the
			// short-circuit chain; accept when the value itself is the test or a
			// conjunction containing it
			if !conjunctionHasExt(rv, oid, map[ssa.Value]bool{}) {
				return false
			}
		}
	}
	return n > 0
}

func conjunctionHasExt(v ssa.Value, oid string, seen map[ssa.Value]bool) bool {
	if seen[v] {
		return false
	}
	seen[v] = true
	switch x := v.(type) {
	case *ssa.Call:
		if staticCalleeName(&x.Call) == "util.IsExtInCert" && len(x.Call.Args) == 2 {
			return strings.TrimPrefix(apath(x.Call.Args[1]), "&") == strings.TrimPrefix(oid, "&")
		}
	case *ssa.Phi:
		// a && b: φ(false, …, last operand); true only through the edge carrying the last
		// operand, which is reached only when the earlier ones held. The ext test may be any
		// conjunct: then the non-constant edge is dominated by its true edge, or is the test.
		ok := false
		for i, e := range x.Edges {
			if k, isK := e.(*ssa.Const); isK && k.Value != nil && k.Value.ExactString() == "false" {
				continue
			}
			if conjunctionHasExt(e, oid, seen) || extTestDominates(x.Block().Preds[i], oid) {
				ok = true
			} else {
				return false
			}
		}
		return ok
	}
	return false
}

func fieldDerefSite(f *ssa.Function, ld *ssa.UnOp, posStr string) *panicSite {
	if ld.Op != token.MUL {
		return nil
	}
	fa, ok := ld.X.(*ssa.FieldAddr)
	if !ok {
		return nil
	}
	fld, ok := libStructPtrField(fa)
	if !ok {
		return nil
	}
	uses := ptrUses(ld)
	if len(uses) == 0 {
		return nil
	}
	path := apath(ld)
	s := &panicSite{class: "field-deref", fn: fname(f), expr: path, pos: ld.Pos(), posStr: posStr,
		detail: "pointer field " + path + " (" + strings.TrimPrefix(fld.Type().String(), "*") + ", nil when the parser did not set it) is dereferenced in " + fname(f)}
	all := true
	for _, u := range uses {
		if !guardedByPath(u.Block(), path) && !guardedBy(u.Block(), ld, token.NEQ) {
			all = false
		}
	}
	// ParsedDomainName: ParsedDomain and ParseError are the two results of one
	// publicsuffix.ParseFromListWithOptions call (zcrypto GetParsedDNSNames /
	// GetParsedSubjectCommonName): exactly one of them is nil.
	if !all && fld.Name() == "ParsedDomain" && strings.HasSuffix(fa.X.Type().String(), "x509.ParsedDomainName") && strings.HasSuffix(path, ".ParsedDomain") {
		errPath := strings.TrimSuffix(path, ".ParsedDomain") + ".ParseError"
		paired := true
		for _, u := range uses {
			if !guardedByPathNil(u.Block(), errPath, true) {
				paired = false
			}
		}
		if paired {
			s.how = "paired-field: every dereference is dominated by the ParseError == nil edge of the same entry (ParsedDomain and ParseError are the two results of one publicsuffix parse: exactly one is nil)"
			return s
		}
	}
	if named, ok := fa.X.Type().Underlying().(*types.Pointer).Elem().(*types.Named); ok && !all {
		if oid, ok := fieldSetWhenExt[named.Obj().Pkg().Path()+"."+named.Obj().Name()+"."+fld.Name()]; ok {
			under := true
			for _, u := range uses {
				if !extTestDominates(u.Block(), oid) {
					under = false
				}
			}
			if under {
				s.how = "ext-paired: every dereference is dominated by a test for the extension " + strings.TrimPrefix(oid, "&") + ", which the parser turns into this field"
				return s
			}
			s.extOID = oid
		}
	}
	if all {
		s.how = "every dereference is dominated by a nil test of " + path
	} else if named, ok := fa.X.Type().Underlying().(*types.Pointer).Elem().(*types.Named); ok {
		if why, ok := fieldAlwaysSet[named.Obj().Pkg().Path()+"."+named.Obj().Name()+"."+fld.Name()]; ok {
			s.how = "field-invariant: " + why
		}
	}
	return s
}

// fieldAlwaysSet: pointer fields that the parsers set on every object they
// return (reviewed against the pinned zcrypto / Go sources; one reason each).
// A field that is set only when some extension is present is NOT listed: its
// dereferences need a guard, a CheckApplies pairing or a ledger line.
var fieldAlwaysSet = map[string]string{
	"crypto/rsa.PublicKey.N":                                       "zcrypto x509.parsePublicKey(RSA) unmarshals the key into pkcs1PublicKey{N *big.Int; E int}; encoding/asn1 allocates a non-optional *big.Int member, and the function returns an error if Unmarshal fails",
	"github.com/zmap/zcrypto/dsa.Parameters.P":                     "zcrypto x509.parsePublicKey(DSA) evaluates params.P.Sign() (which would itself panic on nil) and rejects non-positive values before building the key",
	"github.com/zmap/zcrypto/dsa.Parameters.Q":                     "zcrypto x509.parsePublicKey(DSA) evaluates params.Q.Sign() and rejects non-positive values before building the key",
	"github.com/zmap/zcrypto/dsa.Parameters.G":                     "zcrypto x509.parsePublicKey(DSA) evaluates params.G.Sign() and rejects non-positive values before building the key",
	"github.com/zmap/zcrypto/dsa.PublicKey.Y":                      "zcrypto x509.parsePublicKey(DSA) evaluates p.Sign() and rejects non-positive values before storing it as Y",
	"github.com/zmap/zcrypto/x509.AugmentedECDSA.Pub":              "zcrypto x509.parsePublicKey(ECDSA) stores key := &ecdsa.PublicKey{…}, a fresh non-nil pointer",
	"github.com/zmap/zcrypto/x509.Certificate.SerialNumber":        "tbsCertificate.SerialNumber is a non-optional *big.Int member: encoding/asn1 allocates it or certificate parsing fails",
	"github.com/zmap/zcrypto/x509.RevokedCertificate.SerialNumber": "crl_parser.go: rc.SerialNumber = new(big.Int) before ReadASN1Integer; parsing fails otherwise",
}
