package main

import (
	"fmt"
	"go/constant"
	"go/token"
	"go/types"
	"reflect"
	"sort"
	"strings"
	"unicode/utf8"

	"golang.org/x/tools/go/ssa"
)

func init() { register("C14", runC14) }

// the published labels (external contract of the JSON output)
var c14Labels = map[string]string{
	"Reserved": "reserved", "NA": "NA", "NE": "NE", "Pass": "pass",
	"Notice": "info", "Warn": "warn", "Error": "error", "Fatal": "fatal",
}

// constsOf lists the package-level constants of a named type: name → value.
func constsOf(c *Ctx, rel string, named *types.Named) map[string]constant.Value {
	out := map[string]constant.Value{}
	scope := c.Pkg(rel).Types.Scope()
	for _, n := range scope.Names() {
		if k, ok := scope.Lookup(n).(*types.Const); ok && types.Identical(k.Type(), named) {
			out[n] = k.Val()
		}
	}
	return out
}

func runC14(c *Ctx, tier string) {
	r := NewReport("C14", "other", tier, c)
	r.Explanation = "Structural conditions for a faithful, reversible JSON form, decided from the code: (1) labels: the decision table of LintStatus.String evaluated on every declared status constant and on out-of-range values yields the published label per constant (reserved, NA, NE, pass, info, warn, error, fatal), non-empty and pairwise distinct, and \"\" otherwise; (2) label-table: the initialiser of StatusLabelToLintStatus has exactly one entry X.String() → X per declared constant; (3) codec: MarshalJSON encodes String(); UnmarshalJSON stores the looked-up status when the label is found and returns a non-nil error otherwise (decision table); the method sets make encoding/json use them; (4) tags: every exported field of ResultSet, LintResult, LintMetadata and Profile that must round-trip has a JSON key that is not \"-\" and is unique within its struct (embedded fields included); LintResult.LintMetadata and the two dates are \"-\"; function-typed fields of the three lint structs are \"-\" (otherwise Encode fails and the listing loses the line); (5) listing: the decision table of Registry.WriteJSON (loops unrolled twice) encodes each element of certificate, CRL and OCSP Lints() exactly once and nothing else; (6) LintSource decodes through its own UnmarshalJSON, whose accepted set is every declared source. Does not decide the behaviour of encoding/json itself (U+FFFD substitution, escaping, number formatting)."
	r.Rule("labels; label-table; codec; tags; listing; source-codec; codec-census; metadata-utf8; round-trip-total: no member of ResultSet / LintResult has a decoder that rejects values its encoder writes")
	r.Trusted = []string{"encoding/json honours MarshalJSON/UnmarshalJSON methods and struct tags as documented", "go/ssa"}

	c14Labelling(c, r)
	c14LabelTable(c, r)
	c14Codec(c, r)
	c14Tags(c, r)
	c14Listing(c, r)
	sourceSwitches(c, r, "source-codec", true)
	metadataUTF8(c, r, BuildCensus(c))
	r.Finish()
}

func c14Labelling(c *Ctx, r *Report) {
	stT := c.Named("lint", "LintStatus")
	consts := constsOf(c, "lint", stT)
	r.Floor("status constants", 8, len(consts))
	fn := c.Method("lint", "LintStatus", "String")
	outs, abort := Enumerate(fn, SymOpts{})
	if abort != "" {
		r.Unk("labels", "String", fn.Pos(), abort)
		return
	}
	recv := fn.Params[0].Name()
	eval := func(v int64) (string, string) {
		oracle := func(t *T) (interface{}, bool) {
			if t.String() == recv {
				return v, true
			}
			return nil, false
		}
		sel, err := Select(outs, oracle)
		if err != nil || len(sel) != 1 || sel[0].Kind != "return" {
			return "", fmt.Sprintf("table not evaluable (%v)", err)
		}
		res := sel[0].Results[0]
		if !res.IsConst() || res.K == nil || res.K.Kind() != constant.String {
			return "", "String does not return a constant label: " + res.String()
		}
		return constant.StringVal(res.K), ""
	}
	seen := map[string]string{}
	var names []string
	for n := range consts {
		names = append(names, n)
	}
	sort.Strings(names)
	used := map[int64]bool{}
	for _, n := range names {
		v, _ := constant.Int64Val(constant.ToInt(consts[n]))
		used[v] = true
		lab, why := eval(v)
		if why != "" {
			r.Unk("labels", n, fn.Pos(), why)
			continue
		}
		want, known := c14Labels[n]
		switch {
		case lab == "":
			r.Bad("labels", n, fn.Pos(), "status constant "+n+" has no label: it marshals as \"\" and cannot be decoded")
		case known && lab != want:
			r.Bad("labels", n, fn.Pos(), fmt.Sprintf("label of %s is %q, the published label is %q (stored results would no longer decode)", n, lab, want))
		case seen[lab] != "":
			r.Bad("labels", n, fn.Pos(), fmt.Sprintf("statuses %s and %s share the label %q: decoding cannot tell them apart", seen[lab], n, lab))
		default:
			r.OK("labels", n, fn.Pos(), true, lab)
		}
		seen[lab] = n
	}
	for _, v := range []int64{-1, 8, 9, 100} {
		if used[v] {
			continue
		}
		lab, why := eval(v)
		if why != "" {
			r.Unk("labels", fmt.Sprintf("out-of-range=%d", v), fn.Pos(), why)
			continue
		}
		r.Check(lab == "" || seen[lab] == "", "labels", fmt.Sprintf("out-of-range=%d", v), fn.Pos(), "no label of a defined status", fmt.Sprintf("undefined status %d is labelled %q like %s", v, lab, seen[lab]))
	}
	for i, o := range outs {
		if i < 3 {
			r.Sample(map[string]interface{}{"table_of": "LintStatus.String", "path": o.Summary()})
		}
	}
}

// c14LabelTable: package init stores a map into StatusLabelToLintStatus whose
// updates are String(K) → K for every declared constant K.
func c14LabelTable(c *Ctx, r *Report) {
	stT := c.Named("lint", "LintStatus")
	consts := constsOf(c, "lint", stT)
	sp := c.SSAPkg("lint")
	g, _ := sp.Members["StatusLabelToLintStatus"].(*ssa.Global)
	if g == nil {
		fault("unresolved anchor: lint.StatusLabelToLintStatus")
	}
	initFn := sp.Func("init")
	got := map[string]bool{}
	bad := ""
	var mm ssa.Value
	allInstrs(initFn, func(in ssa.Instruction) {
		if st, ok := in.(*ssa.Store); ok && st.Addr == g {
			mm = st.Val
		}
	})
	if mm == nil {
		r.Unk("label-table", "StatusLabelToLintStatus", g.Pos(), "initialiser not found in package init")
		return
	}
	allInstrs(initFn, func(in ssa.Instruction) {
		mu, ok := in.(*ssa.MapUpdate)
		if !ok || mu.Map != mm {
			return
		}
		call, ok := mu.Key.(*ssa.Call)
		if !ok || staticCalleeName(&call.Call) != "(lint.LintStatus).String" {
			bad = "key is not X.String(): " + apath(mu.Key)
			return
		}
		k1, ok1 := call.Call.Args[0].(*ssa.Const)
		k2, ok2 := mu.Value.(*ssa.Const)
		if !ok1 || !ok2 || k1.Value == nil || k2.Value == nil {
			bad = "entry is not built from status constants"
			return
		}
		if !constant.Compare(k1.Value, token.EQL, k2.Value) {
			bad = fmt.Sprintf("entry maps the label of status %s to status %s", k1.Value, k2.Value)
			return
		}
		got[k2.Value.ExactString()] = true
	})
	// no later modification of the table anywhere
	for _, f := range modFunctions(c) {
		if f == initFn {
			continue
		}
		allInstrs(f, func(in ssa.Instruction) {
			switch x := in.(type) {
			case *ssa.MapUpdate:
				if apath(x.Map) == "lint.StatusLabelToLintStatus" {
					bad = "table modified in " + fname(f)
				}
			case *ssa.Store:
				if x.Addr == g {
					bad = "table replaced in " + fname(f)
				}
			}
		})
	}
	// ... nor through an alias: outside init the table may only be looked up,
	// ranged over or measured; storing it somewhere, returning it, or handing it to
	// code that does anything else with it lets a later delete/insert reach it
	nLoads := 0
	for _, f := range modFunctions(c) {
		if f == initFn {
			continue
		}
		allInstrs(f, func(in ssa.Instruction) {
			ld, ok := in.(*ssa.UnOp)
			if !ok || ld.Op != token.MUL || ld.X != ssa.Value(g) {
				return
			}
			nLoads++
			if w := frozenMapUse(ld, 0); w != "" {
				r.Bad("label-table", "StatusLabelToLintStatus|alias|"+fname(f), ld.Pos(), "the label table is "+w+" in "+fname(f)+": the decoder's table can then be changed through the alias (labels deleted or re-mapped after start-up)")
			}
		})
	}
	r.Floor("readers of the label table", 1, nLoads)
	if bad != "" {
		r.Bad("label-table", "StatusLabelToLintStatus", g.Pos(), bad)
	}
	for n, v := range consts {
		r.Check(got[v.ExactString()], "label-table", n, g.Pos(), "has an entry", "status "+n+" has no entry in StatusLabelToLintStatus: its label is rejected when decoding")
	}
}

// frozenMapUse: v (a map) is only looked up, ranged over, measured, or passed
// to module functions that do no more than that with it.
func frozenMapUse(v ssa.Value, depth int) string {
	if depth > 4 {
		return "passed on through too many calls to follow"
	}
	refs := v.Referrers()
	if refs == nil {
		return ""
	}
	for _, ref := range *refs {
		switch x := ref.(type) {
		case *ssa.DebugRef:
		case *ssa.Lookup:
			if x.X != v {
				return "used as a key"
			}
		case *ssa.Range:
		case *ssa.MapUpdate:
			if x.Map == v {
				return "written (map update)"
			}
			return "stored as an element of another map"
		case *ssa.Phi:
			if w := frozenMapUse(x, depth+1); w != "" {
				return w
			}
		case *ssa.Store:
			if a, ok := x.Addr.(*ssa.Alloc); ok && !a.Heap && x.Val == v {
				for _, r2 := range *a.Referrers() {
					if ld, ok := r2.(*ssa.UnOp); ok && ld.Op == token.MUL {
						if w := frozenMapUse(ld, depth+1); w != "" {
							return w
						}
					} else if st, ok := r2.(*ssa.Store); ok && st.Addr == ssa.Value(a) {
					} else if _, ok := r2.(*ssa.DebugRef); ok {
					} else {
						return "kept in a variable whose address escapes"
					}
				}
				continue
			}
			return "stored into " + apath(x.Addr)
		case *ssa.Return:
			return "returned to the caller"
		case ssa.CallInstruction:
			cc := x.Common()
			if b, ok := cc.Value.(*ssa.Builtin); ok {
				if b.Name() == "len" {
					continue
				}
				return "passed to " + b.Name() + "()"
			}
			callee := cc.StaticCallee()
			if callee == nil || !isModFunc(callee) || len(callee.Blocks) == 0 {
				return "passed to " + staticCalleeName(cc)
			}
			for i, a := range cc.Args {
				if a == v && i < len(callee.Params) {
					if w := frozenMapUse(callee.Params[i], depth+1); w != "" {
						return w + " (in " + fname(callee) + ")"
					}
				}
			}
		default:
			return fmt.Sprintf("used by %s", ref.String())
		}
	}
	return ""
}

func c14Codec(c *Ctx, r *Report) {
	// MarshalJSON
	mj := c.Method("lint", "LintStatus", "MarshalJSON")
	ok := len(realReturns(mj)) > 0
	for _, ret := range realReturns(mj) {
		rv := retVals(ret)
		good := false
		if len(rv) == 2 {
			if e0, ok0 := rv[0].(*ssa.Extract); ok0 && e0.Index == 0 {
				if call, okc := e0.Tuple.(*ssa.Call); okc && staticCalleeName(&call.Call) == "encoding/json.Marshal" &&
					apath(call.Call.Args[0]) == "(lint.LintStatus).String("+mj.Params[0].Name()+")" {
					good = true
				}
			}
		}
		if !good {
			ok = false
		}
	}
	r.Check(ok, "codec", "LintStatus.MarshalJSON", mj.Pos(), "marshals String()", "some path of MarshalJSON does not return json.Marshal(e.String()): a status could be written in a form UnmarshalJSON rejects")
	// UnmarshalJSON table
	uj := c.Method("lint", "LintStatus", "UnmarshalJSON")
	outs, abort := Enumerate(uj, SymOpts{Inline: func(*ssa.Function) bool { return false }})
	bad := abort
	found, notFound := false, false
	recv := uj.Params[0].Name()
	for _, o := range outs {
		if o.Kind != "return" || len(o.Results) != 1 {
			bad = "path does not return: " + o.Kind + " " + o.Why
			continue
		}
		if len(o.Conds) != 1 || !strings.HasPrefix(o.Conds[0].T.String(), "extract:1(lookup:commaok(lint.StatusLabelToLintStatus, ") {
			bad = "decoding branches on " + o.CondString() + " instead of the label lookup alone"
			continue
		}
		look := strings.TrimPrefix(o.Conds[0].T.String(), "extract:1")
		if o.Conds[0].Val {
			found = true
			stored := false
			for _, ev := range o.Trace {
				if ev.Kind == "store" && ev.Name == recv && ev.Args[0].String() == "extract:0"+look {
					stored = true
				} else if ev.Kind == "store" {
					bad = "unexpected store " + ev.String()
				}
			}
			if !stored || !o.Results[0].IsNil() {
				bad = "a known label must store the looked-up status and return nil"
			}
		} else {
			notFound = true
			if o.Results[0].IsNil() {
				bad = "an unknown label is accepted (nil error)"
			}
			for _, ev := range o.Trace {
				if ev.Kind == "store" {
					bad = "an unknown label still stores a status: " + ev.String()
				}
			}
		}
	}
	if bad == "" && !(found && notFound) {
		bad = "decoder lacks the found/not-found cases"
	}
	r.Check(bad == "", "codec", "LintStatus.UnmarshalJSON", uj.Pos(), "known label → status, unknown label → error", bad)
	// method sets
	stT := c.Named("lint", "LintStatus")
	srcT := c.Named("lint", "LintSource")
	hasM := func(T types.Type, name string) bool {
		return c.Prog.MethodSets.MethodSet(T).Lookup(nil, name) != nil
	}
	r.Check(hasM(stT, "MarshalJSON"), "codec", "LintStatus value has MarshalJSON", stT.Obj().Pos(), "", "LintStatus values (as held in LintResult.Status) no longer have MarshalJSON in their method set: statuses would be written as numbers")
	r.Check(hasM(types.NewPointer(stT), "UnmarshalJSON"), "codec", "*LintStatus has UnmarshalJSON", stT.Obj().Pos(), "", "*LintStatus has no UnmarshalJSON")
	r.Check(hasM(types.NewPointer(srcT), "UnmarshalJSON"), "codec", "*LintSource has UnmarshalJSON", srcT.Obj().Pos(), "", "*LintSource has no UnmarshalJSON: unknown sources would be accepted")
}

func c14Tags(c *Ctx, r *Report) {
	type spec struct {
		rel, name string
		must      []string // fields that must round-trip
		dash      []string // fields that must be "-"
	}
	specs := []spec{
		{"", "ResultSet", []string{"Version", "Timestamp", "Results", "NoticesPresent", "WarningsPresent", "ErrorsPresent", "FatalsPresent"}, nil},
		{"lint", "LintResult", []string{"Status", "Details"}, []string{"LintMetadata"}},
		{"lint", "LintMetadata", []string{"Name", "Description", "Citation", "Source"}, []string{"EffectiveDate", "IneffectiveDate"}},
		{"lint", "Profile", []string{"Name", "Description", "Citation", "Source", "LintNames"}, nil},
		{"lint", "CertificateLint", []string{"LintMetadata"}, []string{"Lint"}},
		{"lint", "RevocationListLint", []string{"LintMetadata"}, []string{"Lint"}},
		{"lint", "OcspResponseLint", []string{"LintMetadata"}, []string{"Lint"}},
	}
	// codec census: the struct tags decide the JSON form only as long as no type
	// involved has a hand-written codec. The reviewed ones are LintStatus
	// (Marshal/Unmarshal, decided by the codec rule) and LintSource (Unmarshal).
	allowedCodec := map[string]bool{
		"lint.LintStatus.MarshalJSON": true, "lint.LintStatus.UnmarshalJSON": true, "lint.LintSource.UnmarshalJSON": true,
	}
	nTypes := 0
	for _, p := range c.Mod {
		sc := p.Types.Scope()
		for _, n := range sc.Names() {
			tn, ok := sc.Lookup(n).(*types.TypeName)
			if !ok || tn.IsAlias() {
				continue
			}
			nTypes++
			for _, T := range []types.Type{tn.Type(), types.NewPointer(tn.Type())} {
				ms := types.NewMethodSet(T)
				for _, m := range []string{"MarshalJSON", "UnmarshalJSON", "MarshalText", "UnmarshalText"} {
					sel := ms.Lookup(nil, m)
					if sel == nil {
						continue
					}
					// attribute to the declaring type (promoted methods count for the outer type too)
					id := relPkg(p.PkgPath) + "." + n + "." + m
					if allowedCodec[id] {
						continue
					}
					if _, isPtr := T.(*types.Pointer); isPtr && types.NewMethodSet(tn.Type()).Lookup(nil, m) != nil {
						continue // already reported for the value type
					}
					r.Unk("codec-census", id, sel.Obj().Pos(), "type "+n+" encodes/decodes through a hand-written (or promoted) "+m+", so its JSON form is no longer given by the struct tags this rule checks; the method's output is not modelled")
				}
			}
		}
	}
	r.Floor("named types examined for hand-written JSON codecs", 300, nTypes)
	for _, sp := range specs {
		named := c.Named(sp.rel, sp.name)
		st, ok := named.Underlying().(*types.Struct)
		if !ok {
			r.Unk("tags", sp.name, named.Obj().Pos(), "not a struct")
			continue
		}
		keys := map[string]string{}
		fields := map[string]int{}
		for i := 0; i < st.NumFields(); i++ {
			f := st.Field(i)
			fields[f.Name()] = i
			if !f.Exported() {
				continue
			}
			tag := reflect.StructTag(st.Tag(i)).Get("json")
			key := strings.Split(tag, ",")[0]
			if tag == "-" {
				continue
			}
			if f.Embedded() && key == "" {
				continue // promoted fields are checked in their own struct
			}
			if key == "" {
				key = f.Name()
			}
			if prev, dup := keys[key]; dup {
				r.Bad("tags", sp.name+"."+f.Name(), f.Pos(), fmt.Sprintf("fields %s and %s share the JSON key %q: encoding/json drops both", prev, f.Name(), key))
			}
			keys[key] = f.Name()
			// result sets are re-read by consumers for ANY registry (downstream lints
			// with their own sources included): a member whose decoder rejects values
			// its encoder emits makes such a set unreadable. The only hand-written
			// decoder shown total on its encoder's image is LintStatus's (codec rule +
			// C01: seven statuses); LintSource's rejects every undeclared source.
			if sp.name == "ResultSet" || sp.name == "LintResult" {
				if bad := partialDecoderIn(f.Type(), map[types.Type]bool{}); bad != "" {
					r.Bad("round-trip-total", sp.name+"."+f.Name(), f.Pos(), fmt.Sprintf("member %q of %s is (or contains) a %s, whose UnmarshalJSON returns an error for values its encoder writes (any value that is not a declared constant): a result set produced with a registry holding such a lint can be written but not read back", key, sp.name, bad))
				} else {
					r.OK("round-trip-total", sp.name+"."+f.Name(), f.Pos(), false, "")
				}
			}
			// func / chan typed fields cannot be encoded
			switch f.Type().Underlying().(type) {
			case *types.Signature, *types.Chan:
				r.Bad("tags", sp.name+"."+f.Name(), f.Pos(), "field of function/channel type is not excluded with json:\"-\": encoding the struct fails and the line is lost")
			}
		}
		for _, m := range sp.must {
			i, ok := fields[m]
			if !ok {
				r.Bad("tags", sp.name+"."+m, named.Obj().Pos(), "field no longer exists")
				continue
			}
			tag := reflect.StructTag(st.Tag(i)).Get("json")
			r.Check(tag != "-" && st.Field(i).Exported(), "tags", sp.name+"."+m, st.Field(i).Pos(), "json:\""+tag+"\"", "field "+m+" is excluded from the JSON form (json:\"-\" or unexported): it does not survive a round trip")
		}
		for _, m := range sp.dash {
			i, ok := fields[m]
			if !ok {
				continue
			}
			tag := reflect.StructTag(st.Tag(i)).Get("json")
			r.Check(tag == "-", "tags", sp.name+"."+m, st.Field(i).Pos(), "excluded", "field "+m+" must be excluded from the JSON form (json:\"-\")")
		}
	}
}

// partialDecoderIn: t is, or contains (pointer, slice, array, map element, struct
// field that is encoded), a module type with a hand-written UnmarshalJSON /
// UnmarshalText other than LintStatus.
func partialDecoderIn(t types.Type, seen map[types.Type]bool) string {
	if seen[t] {
		return ""
	}
	seen[t] = true
	if n, ok := t.(*types.Named); ok && n.Obj().Pkg() != nil && isModPkg(n.Obj().Pkg()) {
		for _, m := range []string{"UnmarshalJSON", "UnmarshalText"} {
			if types.NewMethodSet(types.NewPointer(n)).Lookup(nil, m) != nil && n.Obj().Name() != "LintStatus" {
				return relPkg(n.Obj().Pkg().Path()) + "." + n.Obj().Name()
			}
		}
	}
	switch u := t.Underlying().(type) {
	case *types.Pointer:
		return partialDecoderIn(u.Elem(), seen)
	case *types.Slice:
		return partialDecoderIn(u.Elem(), seen)
	case *types.Array:
		return partialDecoderIn(u.Elem(), seen)
	case *types.Map:
		if b := partialDecoderIn(u.Key(), seen); b != "" {
			return b
		}
		return partialDecoderIn(u.Elem(), seen)
	case *types.Struct:
		for i := 0; i < u.NumFields(); i++ {
			if !u.Field(i).Exported() || reflect.StructTag(u.Tag(i)).Get("json") == "-" {
				continue
			}
			if b := partialDecoderIn(u.Field(i).Type(), seen); b != "" {
				return b
			}
		}
	}
	return ""
}

func c14Listing(c *Ctx, r *Report) {
	fn := c.Method("lint", "registryImpl", "WriteJSON")
	outs, abort := Enumerate(fn, SymOpts{Inline: func(*ssa.Function) bool { return false }, LoopBound: 1})
	if abort != "" {
		r.Unk("listing", "WriteJSON", fn.Pos(), abort)
		return
	}
	want := map[string]bool{"&r.certificateLints": false, "&r.ocspResponseLints": false, "&r.revocationListLints": false}
	bad := ""
	full := 0
	for _, o := range outs {
		if o.Kind == "abort" || o.Kind == "panic" {
			bad = "path not understood: " + o.Why
			continue
		}
		lists := map[string]string{} // result term → receiver
		count := map[string]int{}
		for _, cd := range o.Conds {
			if !(cd.T.Op == "bin" && cd.T.Name == "<" && strings.HasPrefix(cd.T.Args[1].String(), "builtin:len(")) {
				bad = "listing branches on " + cd.T.String()
			}
		}
		for _, ev := range o.Trace {
			switch {
			case ev.Kind == "call" && strings.HasSuffix(ev.Name, "LinterLookupImpl).Lints"):
				lists[ev.Result.String()] = ev.Args[0].String()
			case ev.Kind == "call" && ev.Name == "(*encoding/json.Encoder).Encode":
				arg := ev.Args[1].String()
				i := strings.LastIndex(arg, "[")
				if i < 0 || lists[arg[:i]] == "" {
					bad = "Encode is applied to " + arg + ", not to an element of a Lints() list"
					continue
				}
				count[arg]++
				if count[arg] > 1 {
					bad = "element " + arg + " is encoded twice"
				}
				if arg[i:] != fmt.Sprintf("[%d]", countPrefix(count, arg[:i])-1) {
					bad = "elements are not encoded one per iteration in order: " + arg
				}
			case ev.Kind == "call" && (ev.Name == "encoding/json.NewEncoder" || ev.Name == "(*encoding/json.Encoder).SetEscapeHTML"):
			default:
				bad = "unexpected effect in WriteJSON: " + ev.String()
			}
		}
		if o.Kind == "return" {
			full++
			seen := map[string]bool{}
			for _, rc := range lists {
				seen[rc] = true
			}
			for k := range want {
				if !seen[k] {
					bad = "WriteJSON does not list " + strings.TrimPrefix(k, "&r.")
				} else {
					want[k] = true
				}
			}
			// every iteration performed encodes: number of true loop tests == number of Encode calls
			iters := 0
			for _, cd := range o.Conds {
				if cd.Val {
					iters++
				}
			}
			enc := 0
			for _, n := range count {
				enc += n
			}
			if enc != iters {
				bad = fmt.Sprintf("%d loop iterations but %d Encode calls: some lints are not listed", iters, enc)
			}
		}
	}
	if full == 0 {
		bad = "no complete path through WriteJSON found"
	}
	r.Check(bad == "", "listing", "WriteJSON", fn.Pos(), fmt.Sprintf("%d paths: each element of the three lists encoded exactly once", len(outs)), bad)
}

func countPrefix(count map[string]int, prefix string) int {
	n := 0
	for k := range count {
		if strings.HasPrefix(k, prefix+"[") {
			n++
		}
	}
	return n
}

// metadataUTF8: every constant string of a registration's metadata (Name,
// Description, Citation) is valid UTF-8. encoding/json replaces each invalid byte
// by U+FFFD, so a listing line with such a string does not decode to the
// registered lint's metadata (a "\xa7" escape is the single byte 0xA7, not §).
func metadataUTF8(c *Ctx, r *Report, cs *Census) {
	n := 0
	for _, reg := range cs.Regs {
		if reg.Err != "" {
			continue
		}
		for what, v := range map[string]string{"Name": reg.Name, "Description": reg.Desc, "Citation": reg.Citation} {
			n++
			r.Check(utf8.ValidString(v), "metadata-utf8", reg.ID()+"|"+what, reg.Call.Pos(), "", fmt.Sprintf("%s of %s is not valid UTF-8 (%q): the JSON listing writes U+FFFD for the offending bytes, so the line no longer decodes to the lint's metadata", what, reg.ID(), v))
		}
	}
	r.Floor("metadata strings checked for UTF-8 validity", 1000, n)
}
