package main

// census.go — engine E1: every registration call in the module, its
// constant-folded metadata, constructor, concrete lint type and methods.

import (
	"fmt"
	"go/ast"
	"go/constant"
	"go/token"
	"go/types"
	"sort"
	"strings"
	"time"

	"golang.org/x/tools/go/packages"
	"golang.org/x/tools/go/ssa"
	"golang.org/x/tools/go/types/typeutil"
)

type DateVal struct {
	Set  bool // field present in the literal
	OK   bool // folded to a constant UTC instant
	Unix int64
	Expr string
	Why  string
}

type Reg struct {
	Kind                             string // cert | legacy | crl | ocsp
	Pkg                              *packages.Package
	File                             *ast.File
	Call                             *ast.CallExpr
	Encl                             *ast.FuncDecl
	Direct                           bool // the call is a top-level statement of its enclosing function
	Always                           bool // the call dominates every return of the enclosing function
	Err                              string
	MetaLit                          *ast.CompositeLit
	Name                             string
	NameOK                           bool
	Desc                             string
	DescOK                           bool
	Citation                         string
	Source                           *types.Const
	SourceEx                         string
	Eff                              DateVal
	Ineff                            DateVal
	CtorExpr                         ast.Expr
	Ctor                             *ssa.Function
	Concrete                         types.Type // concrete dynamic type returned by the constructor
	Fresh                            bool
	FreshWhy                         string
	Named                            *types.Named
	CheckApplies, Execute, Configure *ssa.Function
}

func (r *Reg) ID() string {
	if r.NameOK {
		return r.Name
	}
	return "<unnamed>"
}

type Census struct {
	Regs        []*Reg
	ProfileRegs []*ProfileReg
	RegFuncs    map[*types.Func]string
}

type ProfileReg struct {
	Pkg     *packages.Package
	Call    *ast.CallExpr
	Name    string
	Names   []string
	NamePos []token.Pos
	Err     string
}

func lintObj(c *Ctx, name string) types.Object {
	o := c.Pkg("lint").Types.Scope().Lookup(name)
	if o == nil {
		fault("unresolved anchor: lint.%s", name)
	}
	return o
}

func BuildCensus(c *Ctx) *Census {
	cs := &Census{RegFuncs: map[*types.Func]string{}}
	for name, kind := range map[string]string{
		"RegisterLint": "legacy", "RegisterCertificateLint": "cert",
		"RegisterRevocationListLint": "crl", "RegisterOcspResponseLint": "ocsp",
	} {
		cs.RegFuncs[lintObj(c, name).(*types.Func)] = kind
	}
	regProfile := lintObj(c, "RegisterProfile").(*types.Func)

	for _, p := range c.Mod {
		for _, f := range p.Syntax {
			file := f
			ast.Inspect(file, func(n ast.Node) bool {
				call, ok := n.(*ast.CallExpr)
				if !ok {
					return true
				}
				callee, _ := typeutil.Callee(p.TypesInfo, call).(*types.Func)
				if callee == nil {
					return true
				}
				if callee == regProfile {
					cs.ProfileRegs = append(cs.ProfileRegs, parseProfile(c, p, call))
					return true
				}
				kind, ok := cs.RegFuncs[callee]
				if !ok {
					return true
				}
				// the lint package's own Register* wrappers call each other
				if p.PkgPath == modPath+"/lint" {
					return true
				}
				r := &Reg{Kind: kind, Pkg: p, File: file, Call: call}
				r.Encl = enclosingFunc(file, call.Pos())
				if r.Encl != nil && r.Encl.Body != nil {
					for _, st := range r.Encl.Body.List {
						if es, ok := st.(*ast.ExprStmt); ok && es.X == call {
							r.Direct = true
						}
					}
				}
				r.Always = callOnEveryPath(c, p, r.Encl, call)
				parseReg(c, r)
				cs.Regs = append(cs.Regs, r)
				return true
			})
		}
	}
	sort.Slice(cs.Regs, func(i, j int) bool {
		a, b := cs.Regs[i], cs.Regs[j]
		if a.Name != b.Name {
			return a.Name < b.Name
		}
		return a.Call.Pos() < b.Call.Pos()
	})
	return cs
}

// declFunc returns the SSA function built for a FuncDecl (init functions are
// renamed init#N by the builder, so they are found by syntax).
func declFunc(c *Ctx, p *packages.Package, fd *ast.FuncDecl) *ssa.Function {
	if fd == nil {
		return nil
	}
	if obj, _ := p.TypesInfo.Defs[fd.Name].(*types.Func); obj != nil {
		if fn := c.Prog.FuncValue(obj); fn != nil {
			return fn
		}
	}
	sp := c.Prog.Package(p.Types)
	if sp == nil {
		return nil
	}
	for _, m := range sp.Members {
		if fn, ok := m.(*ssa.Function); ok && fn.Syntax() == fd {
			return fn
		}
	}
	return nil
}

// callOnEveryPath: the call is executed on every path from the entry of its
// enclosing function to any of its returns.
func callOnEveryPath(c *Ctx, p *packages.Package, fd *ast.FuncDecl, call *ast.CallExpr) bool {
	fn := declFunc(c, p, fd)
	if fn == nil {
		return false
	}
	var instr ssa.Instruction
	allInstrs(fn, func(in ssa.Instruction) {
		if ci, ok := in.(ssa.CallInstruction); ok && in.Pos() == call.Lparen {
			if _, isDefer := in.(*ssa.Defer); !isDefer {
				if _, isGo := in.(*ssa.Go); !isGo {
					instr = ci
				}
			}
		}
	})
	if instr == nil {
		return false
	}
	for _, ret := range realReturns(fn) {
		if !instrDominates(instr, ret) {
			return false
		}
	}
	return true
}

func constString(info *types.Info, e ast.Expr) (string, bool) {
	tv, ok := info.Types[e]
	if !ok || tv.Value == nil || tv.Value.Kind() != constant.String {
		return "", false
	}
	return constant.StringVal(tv.Value), true
}

func constInt(info *types.Info, e ast.Expr) (int64, bool) {
	tv, ok := info.Types[e]
	if !ok || tv.Value == nil {
		return 0, false
	}
	v := constant.ToInt(tv.Value)
	if v.Kind() != constant.Int {
		return 0, false
	}
	return constant.Int64Val(v)
}

// literalText strips the formatting verbs from a format string and returns
// the remaining non-blank literal text.
func literalText(format string) string {
	var b strings.Builder
	for i := 0; i < len(format); i++ {
		if format[i] != '%' {
			b.WriteByte(format[i])
			continue
		}
		i++
		for i < len(format) && strings.IndexByte("+-# 0123456789.*[]", format[i]) >= 0 {
			i++
		}
		if i < len(format) && format[i] == '%' {
			b.WriteByte('%')
		}
	}
	return strings.TrimSpace(b.String())
}

func unparen(e ast.Expr) ast.Expr {
	for {
		p, ok := e.(*ast.ParenExpr)
		if !ok {
			return e
		}
		e = p.X
	}
}

func parseReg(c *Ctx, r *Reg) {
	info := r.Pkg.TypesInfo
	if len(r.Call.Args) != 1 {
		r.Err = "registration call does not have exactly one argument"
		return
	}
	arg := unparen(r.Call.Args[0])
	if u, ok := arg.(*ast.UnaryExpr); ok && u.Op == token.AND {
		arg = unparen(u.X)
	}
	lit, ok := arg.(*ast.CompositeLit)
	if !ok {
		r.Err = "registration argument is not a composite literal: " + types.ExprString(arg)
		return
	}
	var meta *ast.CompositeLit
	fields := map[string]ast.Expr{}
	if r.Kind == "legacy" {
		meta = lit
	}
	for _, el := range lit.Elts {
		kv, ok := el.(*ast.KeyValueExpr)
		if !ok {
			r.Err = "positional fields in registration literal"
			return
		}
		k, _ := kv.Key.(*ast.Ident)
		if k == nil {
			r.Err = "non-identifier key in registration literal"
			return
		}
		switch k.Name {
		case "LintMetadata":
			m, ok := unparen(kv.Value).(*ast.CompositeLit)
			if !ok {
				r.Err = "LintMetadata is not a composite literal"
				return
			}
			meta = m
		case "Lint":
			r.CtorExpr = unparen(kv.Value)
		default:
			if r.Kind == "legacy" {
				fields[k.Name] = kv.Value
			} else {
				r.Err = "unexpected field " + k.Name + " in registration literal"
				return
			}
		}
	}
	if meta == nil {
		r.Err = "no LintMetadata literal"
		return
	}
	r.MetaLit = meta
	if r.Kind != "legacy" {
		for _, el := range meta.Elts {
			kv, ok := el.(*ast.KeyValueExpr)
			if !ok {
				r.Err = "positional fields in LintMetadata literal"
				return
			}
			k, _ := kv.Key.(*ast.Ident)
			if k == nil {
				r.Err = "non-identifier key in LintMetadata literal"
				return
			}
			fields[k.Name] = kv.Value
		}
	}
	if e, ok := fields["Name"]; ok {
		r.Name, r.NameOK = constString(info, e)
	}
	if e, ok := fields["Description"]; ok {
		r.Desc, r.DescOK = constString(info, e)
		if !r.DescOK {
			// fmt.Sprintf(<constant format with literal text>, ...) is non-empty
			if call, ok := unparen(e).(*ast.CallExpr); ok && len(call.Args) >= 1 {
				if fn, _ := typeutil.Callee(info, call).(*types.Func); fn != nil && fn.FullName() == "fmt.Sprintf" {
					if f, ok := constString(info, call.Args[0]); ok && literalText(f) != "" {
						r.Desc, r.DescOK = f, true
					}
				}
			}
		}
	}
	if e, ok := fields["Citation"]; ok {
		r.Citation, _ = constString(info, e)
	}
	if e, ok := fields["Source"]; ok {
		r.SourceEx = types.ExprString(e)
		var id *ast.Ident
		switch x := unparen(e).(type) {
		case *ast.Ident:
			id = x
		case *ast.SelectorExpr:
			id = x.Sel
		}
		if id != nil {
			if k, ok := info.Uses[id].(*types.Const); ok {
				r.Source = k
			}
		}
	}
	if e, ok := fields["EffectiveDate"]; ok {
		r.Eff = foldDate(c, r.Pkg, e, 0)
	}
	if e, ok := fields["IneffectiveDate"]; ok {
		r.Ineff = foldDate(c, r.Pkg, e, 0)
	}
	if r.CtorExpr == nil {
		r.Err = "no Lint constructor field"
		return
	}
	resolveCtor(c, r)
}

// foldDate folds an expression to a UTC instant: time.Date(consts..., time.UTC),
// or a package-level variable (of any module package) initialised by such an
// expression, followed through aliases. time.Time{} folds to "not set".
func foldDate(c *Ctx, p *packages.Package, e ast.Expr, depth int) DateVal {
	dv := DateVal{Set: true, Expr: types.ExprString(e)}
	if depth > 5 {
		dv.Why = "alias chain too deep"
		return dv
	}
	e = unparen(e)
	info := p.TypesInfo
	switch x := e.(type) {
	case *ast.CallExpr:
		fn, _ := typeutil.Callee(info, x).(*types.Func)
		if fn == nil || fn.Pkg() == nil || fn.Pkg().Path() != "time" || fn.Name() != "Date" || len(x.Args) != 8 {
			dv.Why = "not a time.Date call"
			return dv
		}
		var v [7]int64
		for i := 0; i < 7; i++ {
			n, ok := constInt(info, x.Args[i])
			if !ok {
				dv.Why = fmt.Sprintf("argument %d of time.Date is not constant", i)
				return dv
			}
			v[i] = n
		}
		loc := unparen(x.Args[7])
		sel, ok := loc.(*ast.SelectorExpr)
		if !ok {
			dv.Why = "location is not time.UTC"
			return dv
		}
		lv, _ := info.Uses[sel.Sel].(*types.Var)
		if lv == nil || lv.Pkg() == nil || lv.Pkg().Path() != "time" || lv.Name() != "UTC" {
			dv.Why = "location is not time.UTC"
			return dv
		}
		t := time.Date(int(v[0]), time.Month(v[1]), int(v[2]), int(v[3]), int(v[4]), int(v[5]), int(v[6]), time.UTC)
		dv.OK, dv.Unix = true, t.Unix()
		if v[6] != 0 {
			dv.OK, dv.Why = false, "non-zero nanoseconds"
		}
		return dv
	case *ast.CompositeLit:
		if len(x.Elts) == 0 {
			if tv, ok := info.Types[x]; ok && tv.Type.String() == "time.Time" {
				return DateVal{Set: false, OK: true, Expr: dv.Expr}
			}
		}
		dv.Why = "composite literal"
		return dv
	case *ast.Ident, *ast.SelectorExpr:
		var id *ast.Ident
		if i, ok := x.(*ast.Ident); ok {
			id = i
		} else {
			id = x.(*ast.SelectorExpr).Sel
		}
		v, _ := info.Uses[id].(*types.Var)
		if v == nil || v.Pkg() == nil || v.Parent() != v.Pkg().Scope() {
			dv.Why = "not a package-level variable"
			return dv
		}
		dp := c.All[v.Pkg().Path()]
		if dp == nil || !isModPath(dp.PkgPath) {
			dv.Why = "variable of a non-module package"
			return dv
		}
		// the variable must never be assigned outside its declaration
		if n := countAssignments(c, v); n > 0 {
			dv.Why = fmt.Sprintf("date variable %s is assigned %d time(s) outside its declaration", v.Name(), n)
			return dv
		}
		init := varInit(dp, v)
		if init == nil {
			dv.Why = "no initialiser for " + v.Name()
			return dv
		}
		r := foldDate(c, dp, init, depth+1)
		r.Expr = dv.Expr
		r.Set = true
		return r
	}
	dv.Why = "unrecognised date expression"
	return dv
}

func varInit(p *packages.Package, v *types.Var) ast.Expr {
	for _, f := range p.Syntax {
		for _, d := range f.Decls {
			gd, ok := d.(*ast.GenDecl)
			if !ok || gd.Tok != token.VAR {
				continue
			}
			for _, s := range gd.Specs {
				vs := s.(*ast.ValueSpec)
				for i, n := range vs.Names {
					if p.TypesInfo.Defs[n] == v {
						if len(vs.Values) == len(vs.Names) {
							return vs.Values[i]
						}
						return nil
					}
				}
			}
		}
	}
	return nil
}

var assignCache map[*types.Var]int

// countAssignments counts assignments / address-takings of a package-level
// variable anywhere in the module outside its declaration.
func countAssignments(c *Ctx, v *types.Var) int {
	if assignCache == nil {
		assignCache = map[*types.Var]int{}
		for _, p := range c.Mod {
			for _, f := range p.Syntax {
				ast.Inspect(f, func(n ast.Node) bool {
					mark := func(e ast.Expr) {
						e = unparen(e)
						var id *ast.Ident
						switch x := e.(type) {
						case *ast.Ident:
							id = x
						case *ast.SelectorExpr:
							id = x.Sel
						}
						if id == nil {
							return
						}
						if tv, ok := p.TypesInfo.Uses[id].(*types.Var); ok && tv.Pkg() != nil && tv.Parent() == tv.Pkg().Scope() {
							assignCache[tv]++
						}
					}
					switch x := n.(type) {
					case *ast.AssignStmt:
						for _, l := range x.Lhs {
							mark(l)
						}
					case *ast.IncDecStmt:
						mark(x.X)
					case *ast.UnaryExpr:
						if x.Op == token.AND {
							mark(x.X)
						}
					}
					return true
				})
			}
		}
	}
	return assignCache[v]
}

// ssaFuncFor resolves a function-valued AST expression (identifier of a
// declared function, selector, or function literal) to its SSA function.
func ssaFuncFor(c *Ctx, p *packages.Package, file *ast.File, e ast.Expr) *ssa.Function {
	e = unparen(e)
	switch x := e.(type) {
	case *ast.Ident:
		if f, ok := p.TypesInfo.Uses[x].(*types.Func); ok {
			return c.Prog.FuncValue(f)
		}
	case *ast.SelectorExpr:
		if f, ok := p.TypesInfo.Uses[x.Sel].(*types.Func); ok {
			return c.Prog.FuncValue(f)
		}
	case *ast.FuncLit:
		encl := enclosingFunc(file, x.Pos())
		if encl == nil {
			return nil
		}
		obj, _ := p.TypesInfo.Defs[encl.Name].(*types.Func)
		var parent *ssa.Function
		if obj != nil {
			parent = c.Prog.FuncValue(obj)
		}
		if parent == nil && encl.Name.Name == "init" {
			// declared init functions are named init#N in SSA
			sp := c.Prog.Package(p.Types)
			for _, m := range sp.Members {
				if fn, ok := m.(*ssa.Function); ok && fn.Syntax() == encl {
					parent = fn
				}
			}
		}
		if parent == nil {
			return nil
		}
		var find func(f *ssa.Function) *ssa.Function
		find = func(f *ssa.Function) *ssa.Function {
			for _, a := range f.AnonFuncs {
				if a.Syntax() == x {
					return a
				}
				if r := find(a); r != nil {
					return r
				}
			}
			return nil
		}
		return find(parent)
	}
	return nil
}

func resolveCtor(c *Ctx, r *Reg) {
	r.Ctor = ssaFuncFor(c, r.Pkg, r.File, r.CtorExpr)
	if r.Ctor == nil {
		r.Err = "constructor expression does not resolve to a function: " + types.ExprString(r.CtorExpr)
		return
	}
	ts, fresh, why := ctorResult(r.Ctor, 0)
	if len(ts) != 1 {
		var names []string
		for _, t := range ts {
			names = append(names, t.String())
		}
		r.Err = fmt.Sprintf("constructor returns %d concrete types %v (%s)", len(ts), names, why)
		return
	}
	r.Concrete = ts[0]
	r.Fresh, r.FreshWhy = fresh, why
	t := r.Concrete
	if pt, ok := t.Underlying().(*types.Pointer); ok {
		t = pt.Elem()
	}
	r.Named, _ = types.Unalias(t).(*types.Named)
	ms := c.Prog.MethodSets.MethodSet(r.Concrete)
	get := func(name string) *ssa.Function {
		sel := ms.Lookup(nil, name)
		if sel == nil {
			// unexported lookup needs the package
			if r.Named != nil {
				sel = ms.Lookup(r.Named.Obj().Pkg(), name)
			}
		}
		if sel == nil {
			return nil
		}
		if f, ok := sel.Obj().(*types.Func); ok {
			if fn := c.Prog.FuncValue(f); fn != nil {
				return fn
			}
		}
		return c.Prog.MethodValue(sel)
	}
	r.CheckApplies = get("CheckApplies")
	r.Execute = get("Execute")
	r.Configure = get("Configure")
	if r.CheckApplies == nil || r.Execute == nil {
		r.Err = "concrete type lacks CheckApplies/Execute"
	}
}

// ctorResult computes the set of concrete dynamic types a constructor can
// return, and whether every returned value is a fresh allocation made during
// the call (never a global, a captured variable or a cached pointer).
func ctorResult(f *ssa.Function, depth int) (ts []types.Type, fresh bool, why string) {
	if f == nil || len(f.Blocks) == 0 {
		return nil, false, "constructor has no body"
	}
	if depth > 4 {
		return nil, false, "constructor chain too deep"
	}
	fresh = true
	seen := map[string]bool{}
	add := func(t types.Type) {
		if !seen[t.String()] {
			seen[t.String()] = true
			ts = append(ts, t)
		}
	}
	var visit func(v ssa.Value, d int)
	visited := map[ssa.Value]bool{}
	visit = func(v ssa.Value, d int) {
		if visited[v] {
			return
		}
		visited[v] = true
		switch x := v.(type) {
		case *ssa.MakeInterface:
			add(x.X.Type())
			if ok, w := freshValue(x.X, depth); !ok {
				fresh = false
				why = w
			}
		case *ssa.ChangeInterface:
			visit(x.X, d)
		case *ssa.Phi:
			for _, e := range x.Edges {
				visit(e, d)
			}
		case *ssa.Call:
			if callee := x.Call.StaticCallee(); callee != nil && isModFunc(callee) {
				t2, f2, w2 := ctorResult(callee, depth+1)
				for _, t := range t2 {
					add(t)
				}
				if !f2 {
					fresh = false
					why = w2
				}
				return
			}
			fresh = false
			why = "constructor returns the result of a call that is not a module function: " + x.String()
		case *ssa.Const:
			if x.IsNil() {
				fresh = false
				why = "constructor can return nil"
				return
			}
			fresh = false
			why = "constructor returns a constant"
		default:
			fresh = false
			why = fmt.Sprintf("constructor returns %T %s (not a fresh allocation)", v, v.String())
		}
	}
	nret := 0
	for _, b := range f.Blocks {
		for _, in := range b.Instrs {
			if ret, ok := in.(*ssa.Return); ok {
				if len(ret.Results) != 1 {
					return nil, false, "constructor does not return exactly one value"
				}
				nret++
				visit(ret.Results[0], depth)
			}
		}
	}
	if nret == 0 {
		return nil, false, "constructor never returns"
	}
	if fresh && why == "" {
		why = "every return wraps an allocation made in the call"
	}
	return ts, fresh, why
}

// freshValue: v (the operand of MakeInterface) is newly allocated in this call.
func freshValue(v ssa.Value, depth int) (bool, string) {
	switch x := v.(type) {
	case *ssa.Alloc:
		return true, ""
	case *ssa.Call:
		if callee := x.Call.StaticCallee(); callee != nil && isModFunc(callee) && depth < 4 {
			// callee must return fresh allocs
			ok := true
			why := ""
			for _, b := range callee.Blocks {
				for _, in := range b.Instrs {
					if ret, isRet := in.(*ssa.Return); isRet {
						for _, res := range ret.Results {
							if o, w := freshValue(res, depth+1); !o {
								ok, why = false, w
							}
						}
					}
				}
			}
			return ok, why
		}
		if b, ok := x.Call.Value.(*ssa.Builtin); ok && b.Name() == "new" {
			return true, ""
		}
		return false, "instance comes from a call that is not a module constructor: " + x.String()
	case *ssa.Phi:
		for _, e := range x.Edges {
			if ok, w := freshValue(e, depth); !ok {
				return false, w
			}
		}
		return true, ""
	case *ssa.UnOp:
		if x.Op == token.MUL {
			// a struct value loaded from somewhere and boxed: boxing copies, so
			// the instance is private even when the source is shared — but only
			// for non-pointer types
			if _, isPtr := x.Type().Underlying().(*types.Pointer); !isPtr {
				return true, ""
			}
			return false, "instance pointer is loaded from " + x.X.String() + " (shared storage)"
		}
	case *ssa.Global:
		return false, "instance is the address of package-level variable " + x.Name()
	case *ssa.FreeVar:
		return false, "instance is a captured variable " + x.Name()
	case *ssa.Const:
		if _, isPtr := x.Type().Underlying().(*types.Pointer); !isPtr {
			return true, ""
		}
		return false, "instance is a constant pointer"
	case *ssa.FieldAddr:
		return freshValue(x.X, depth)
	}
	if _, isPtr := v.Type().Underlying().(*types.Pointer); !isPtr {
		if _, isStruct := v.Type().Underlying().(*types.Struct); isStruct {
			return true, ""
		}
	}
	return false, fmt.Sprintf("instance is %T %s", v, v.String())
}

func parseProfile(c *Ctx, p *packages.Package, call *ast.CallExpr) *ProfileReg {
	pr := &ProfileReg{Pkg: p, Call: call}
	if len(call.Args) != 1 {
		pr.Err = "RegisterProfile without exactly one argument"
		return pr
	}
	lit, ok := unparen(call.Args[0]).(*ast.CompositeLit)
	if !ok {
		pr.Err = "RegisterProfile argument is not a composite literal"
		return pr
	}
	for _, el := range lit.Elts {
		kv, ok := el.(*ast.KeyValueExpr)
		if !ok {
			pr.Err = "positional profile literal"
			return pr
		}
		k, _ := kv.Key.(*ast.Ident)
		if k == nil {
			continue
		}
		switch k.Name {
		case "Name":
			pr.Name, _ = constString(p.TypesInfo, kv.Value)
		case "LintNames":
			l, ok := unparen(kv.Value).(*ast.CompositeLit)
			if !ok {
				pr.Err = "LintNames is not a literal list"
				return pr
			}
			for _, e := range l.Elts {
				s, ok := constString(p.TypesInfo, e)
				if !ok {
					pr.Err = "non-constant lint name in profile: " + types.ExprString(e)
					return pr
				}
				pr.Names = append(pr.Names, s)
				pr.NamePos = append(pr.NamePos, e.Pos())
			}
		}
	}
	return pr
}

// fileBuildOK reports whether the file containing the registration is part of
// the default build — trivially true for any file go/packages loaded with the
// default configuration.
func regLocation(c *Ctx, r *Reg) string {
	fn := "<file scope>"
	if r.Encl != nil {
		fn = r.Encl.Name.Name
	}
	return fmt.Sprintf("%s %s()", c.Pos(r.Call.Pos()), fn)
}

func shortType(t types.Type) string {
	if t == nil {
		return "<nil>"
	}
	return strings.ReplaceAll(t.String(), modPath+"/", "")
}
