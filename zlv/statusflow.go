package main

// statusflow.go — engine E2: which LintStatus constants can reach the Status
// of the *lint.LintResult a function returns (interprocedural over static
// module callees, phi-joined, status cells followed through pointers).

import (
	"fmt"
	"go/constant"
	"go/token"
	"go/types"
	"sort"
	"strings"

	"golang.org/x/tools/go/ssa"
)

var statusNames = []string{"Reserved", "NA", "NE", "Pass", "Notice", "Warn", "Error", "Fatal"}

type Origin struct {
	Fn  string
	Pos token.Pos
}

type Unknown struct {
	Why string
	Pos token.Pos
	Fn  string
}

// SS is a set of statuses with provenance.
type SS struct {
	Bits    uint16
	Nil     bool // the result pointer may be nil
	NilAt   Origin
	Org     map[int][]Origin
	Unknown []Unknown
}

func (s *SS) addBit(b int, o Origin) {
	if b < 0 || b > 15 {
		return
	}
	s.Bits |= 1 << uint(b)
	if s.Org == nil {
		s.Org = map[int][]Origin{}
	}
	for _, x := range s.Org[b] {
		if x == o {
			return
		}
	}
	if len(s.Org[b]) < 8 {
		s.Org[b] = append(s.Org[b], o)
	}
}

func (s *SS) unknown(why string, pos token.Pos, fn string) {
	for _, u := range s.Unknown {
		if u.Why == why && u.Pos == pos {
			return
		}
	}
	s.Unknown = append(s.Unknown, Unknown{why, pos, fn})
}

func (s *SS) merge(o *SS) {
	if o == nil {
		return
	}
	for b, os := range o.Org {
		for _, x := range os {
			s.addBit(b, x)
		}
	}
	s.Bits |= o.Bits
	if o.Nil && !s.Nil {
		s.Nil = true
		s.NilAt = o.NilAt
	}
	for _, u := range o.Unknown {
		s.unknown(u.Why, u.Pos, u.Fn)
	}
}

func (s *SS) Has(b int) bool { return s.Bits&(1<<uint(b)) != 0 }

func (s *SS) Names() []string {
	var out []string
	for i := 0; i < 16; i++ {
		if s.Has(i) {
			if i < len(statusNames) {
				out = append(out, statusNames[i])
			} else {
				out = append(out, fmt.Sprintf("out-of-range(%d)", i))
			}
		}
	}
	return out
}

func (s *SS) String() string {
	x := "{" + strings.Join(s.Names(), ",") + "}"
	if s.Nil {
		x += "+nil"
	}
	if len(s.Unknown) > 0 {
		x += "+unknown"
	}
	return x
}

type StatusFlow struct {
	c          *Ctx
	statusT    types.Type // lint.LintStatus
	resultT    types.Type // lint.LintResult
	statusIdx  int        // field index of Status in LintResult
	memo       map[string]*SS
	inprog     map[string]bool
	callers    map[*ssa.Function][]*ssa.Call // static call sites in module code
	addrTaken  map[*ssa.Function]bool
	globStores map[*ssa.Global][]ssa.Value
	built      bool
	paramMemo  map[string]*SS
	at         token.Pos // position hint for constants (which carry none)
}

func NewStatusFlow(c *Ctx) *StatusFlow {
	sf := &StatusFlow{c: c, memo: map[string]*SS{}, inprog: map[string]bool{}, paramMemo: map[string]*SS{}}
	sf.statusT = c.Named("lint", "LintStatus")
	rn := c.Named("lint", "LintResult")
	sf.resultT = rn
	st := rn.Underlying().(*types.Struct)
	sf.statusIdx = -1
	for i := 0; i < st.NumFields(); i++ {
		if st.Field(i).Name() == "Status" {
			sf.statusIdx = i
		}
	}
	if sf.statusIdx < 0 {
		fault("unresolved anchor: lint.LintResult.Status")
	}
	return sf
}

// modFunctions enumerates every function (incl. anonymous and methods) of the
// module packages.
func modFunctions(c *Ctx) []*ssa.Function {
	var out []*ssa.Function
	seen := map[*ssa.Function]bool{}
	var add func(f *ssa.Function)
	add = func(f *ssa.Function) {
		if f == nil || seen[f] {
			return
		}
		seen[f] = true
		out = append(out, f)
		for _, a := range f.AnonFuncs {
			add(a)
		}
	}
	for _, p := range c.Mod {
		sp := c.Prog.Package(p.Types)
		if sp == nil {
			continue
		}
		for _, m := range sp.Members {
			switch x := m.(type) {
			case *ssa.Function:
				add(x)
			case *ssa.Type:
				for _, T := range []types.Type{x.Type(), types.NewPointer(x.Type())} {
					ms := c.Prog.MethodSets.MethodSet(T)
					for i := 0; i < ms.Len(); i++ {
						if f, ok := ms.At(i).Obj().(*types.Func); ok && f.Pkg() == p.Types {
							add(c.Prog.FuncValue(f))
						}
					}
				}
			}
		}
	}
	// generic functions: what runs are their instantiations (the program is built
	// with ssa.InstantiateGenerics); add every module instance reachable by a static
	// call or taken as a value, and drop the un-instantiated origins
	for i := 0; i < len(out); i++ {
		for _, b := range out[i].Blocks {
			for _, in := range b.Instrs {
				for _, op := range in.Operands(nil) {
					if g, ok := (*op).(*ssa.Function); ok && g != nil && len(g.TypeArgs()) > 0 && isModFunc(g) {
						add(g)
					}
				}
			}
		}
	}
	kept := out[:0]
	for _, f := range out {
		if tp := f.TypeParams(); tp != nil && tp.Len() > 0 && len(f.TypeArgs()) == 0 {
			continue
		}
		if p := f.Parent(); p != nil {
			if tp := outermost(f).TypeParams(); tp != nil && tp.Len() > 0 && len(outermost(f).TypeArgs()) == 0 {
				continue
			}
		}
		kept = append(kept, f)
	}
	out = kept
	sort.Slice(out, func(i, j int) bool { return out[i].String() < out[j].String() })
	return out
}

func (sf *StatusFlow) build() {
	if sf.built {
		return
	}
	sf.built = true
	sf.callers = map[*ssa.Function][]*ssa.Call{}
	sf.addrTaken = map[*ssa.Function]bool{}
	sf.globStores = map[*ssa.Global][]ssa.Value{}
	for _, f := range modFunctions(sf.c) {
		for _, b := range f.Blocks {
			for _, in := range b.Instrs {
				if call, ok := in.(*ssa.Call); ok {
					if callee := call.Call.StaticCallee(); callee != nil {
						sf.callers[callee] = append(sf.callers[callee], call)
					}
				}
				if st, ok := in.(*ssa.Store); ok {
					if g, ok := st.Addr.(*ssa.Global); ok {
						sf.globStores[g] = append(sf.globStores[g], st.Val)
					}
				}
				// address-taken functions: any operand use other than as callee
				for _, op := range in.Operands(nil) {
					if op == nil || *op == nil {
						continue
					}
					if fn, ok := (*op).(*ssa.Function); ok {
						if call, isCall := in.(ssa.CallInstruction); isCall && call.Common().Value == fn {
							// could still be an argument too
							for _, a := range call.Common().Args {
								if a == fn {
									sf.addrTaken[fn] = true
								}
							}
							continue
						}
						sf.addrTaken[fn] = true
					}
				}
			}
		}
	}
}

func (sf *StatusFlow) isStatusT(t types.Type) bool { return types.Identical(t, sf.statusT) }

func (sf *StatusFlow) isResultPtr(t types.Type) bool {
	p, ok := t.Underlying().(*types.Pointer)
	return ok && types.Identical(p.Elem(), sf.resultT)
}

// ResultOf returns the status set of result #idx of fn (which must be of type
// *lint.LintResult or lint.LintStatus).
func (sf *StatusFlow) ResultOf(fn *ssa.Function, idx int) *SS {
	sf.build()
	key := fmt.Sprintf("%s#%d", fn.String(), idx)
	if s, ok := sf.memo[key]; ok {
		return s
	}
	if sf.inprog[key] {
		return &SS{} // recursion: least fixpoint (callers re-merge)
	}
	sf.inprog[key] = true
	defer delete(sf.inprog, key)
	out := &SS{}
	if len(fn.Blocks) == 0 {
		out.unknown("function without body: "+fname(fn), fn.Pos(), fname(fn))
		sf.memo[key] = out
		return out
	}
	// named results written by deferred closures (the recover idiom) are seen
	// through the load of the result cell, which collects every store.
	for _, b := range fn.Blocks {
		for _, in := range b.Instrs {
			ret, ok := in.(*ssa.Return)
			if !ok || idx >= len(ret.Results) {
				continue
			}
			v := ret.Results[idx]
			sf.at = ret.Pos()
			var s *SS
			if sf.isStatusT(v.Type()) {
				s = sf.statusOf(v, fn, map[ssa.Value]bool{})
			} else {
				s = sf.resultVal(v, fn, map[ssa.Value]bool{})
				if s.Nil && nonNilAt(v, b) {
					s2 := &SS{}
					s2.merge(s)
					s2.Nil = false
					s = s2
				}
				if s.Nil && s.NilAt.Fn == "" {
					s.NilAt = Origin{fname(fn), ret.Pos()}
				}
			}
			out.merge(s)
		}
	}
	sf.memo[key] = out
	return out
}

// nonNilAt: block b is dominated by the non-nil edge of a test of v against nil.
func nonNilAt(v ssa.Value, b *ssa.BasicBlock) bool {
	for d := b; d != nil; d = d.Idom() {
		id := d.Idom()
		if id == nil {
			break
		}
		iff, ok := id.Instrs[len(id.Instrs)-1].(*ssa.If)
		if !ok {
			continue
		}
		bo, ok := iff.Cond.(*ssa.BinOp)
		if !ok {
			continue
		}
		var other ssa.Value
		if bo.X == v {
			other = bo.Y
		} else if bo.Y == v {
			other = bo.X
		} else {
			continue
		}
		k, ok := other.(*ssa.Const)
		if !ok || !k.IsNil() {
			continue
		}
		var nonNilSucc *ssa.BasicBlock
		switch bo.Op {
		case token.NEQ:
			nonNilSucc = id.Succs[0]
		case token.EQL:
			nonNilSucc = id.Succs[1]
		default:
			continue
		}
		// d must be (dominated by) nonNilSucc and nonNilSucc must have id as its only pred
		if len(nonNilSucc.Preds) == 1 && nonNilSucc.Dominates(b) {
			return true
		}
	}
	return false
}

// resultVal: status set of a value of type *lint.LintResult.
func (sf *StatusFlow) resultVal(v ssa.Value, fn *ssa.Function, seen map[ssa.Value]bool) *SS {
	out := &SS{}
	if seen[v] {
		return out
	}
	seen[v] = true
	switch x := v.(type) {
	case *ssa.Alloc:
		// &lint.LintResult{...}: collect the stores to its Status field
		stored := false
		inAllocBlock := false
		escapes := false
		for _, ref := range *x.Referrers() {
			switch r := ref.(type) {
			case *ssa.FieldAddr:
				if r.Field != sf.statusIdx {
					continue
				}
				for _, rr := range *r.Referrers() {
					switch st := rr.(type) {
					case *ssa.Store:
						if st.Addr == r {
							stored = true
							if st.Block() == x.Block() {
								inAllocBlock = true
							}
							sf.at = st.Pos()
							out.merge(sf.statusOf(st.Val, fn, map[ssa.Value]bool{}))
						}
					case *ssa.UnOp:
						// a read
					case *ssa.Call:
						// &res.Status passed to a callee
						for i, a := range st.Call.Args {
							if a == r {
								out.merge(sf.paramStores(st, i))
								stored = true
							}
						}
					default:
						escapes = true
					}
				}
			case *ssa.Store:
				if r.Val == x {
					// the pointer itself is stored somewhere (e.g. result cell) — fine
				} else if r.Addr == x {
					// *res = LintResult{...} whole-struct store
					out.unknown("whole-struct store into a LintResult", r.Pos(), fname(fn))
				}
			case *ssa.Call:
				// result passed to a callee which may set its Status
				for i, a := range r.Call.Args {
					if a == x {
						callee := r.Call.StaticCallee()
						if callee == nil || !isModFunc(callee) {
							// library callee (fmt etc.) cannot touch Status meaningfully
							continue
						}
						out.merge(sf.paramFieldStores(callee, i))
					}
				}
			}
		}
		_ = escapes
		if !stored || !inAllocBlock {
			// a path may leave the zero value in place
			if !stored {
				out.addBit(0, Origin{fname(fn), x.Pos()})
			} else if !sf.everyPathStores(x) {
				out.addBit(0, Origin{fname(fn), x.Pos()})
			}
		}
	case *ssa.Phi:
		for i, e := range x.Edges {
			s := sf.resultVal(e, fn, seen)
			if s.Nil && phiEdgeNonNil(x, i) {
				s2 := &SS{}
				s2.merge(s)
				s2.Nil = false
				s = s2
			}
			out.merge(s)
		}
	case *ssa.Const:
		if x.IsNil() {
			out.Nil = true
		} else {
			out.unknown("constant result", x.Pos(), fname(fn))
		}
	case *ssa.Call:
		out.merge(sf.callResult(x, 0, fn))
	case *ssa.Extract:
		if call, ok := x.Tuple.(*ssa.Call); ok {
			out.merge(sf.callResult(call, x.Index, fn))
		} else {
			out.unknown("extract from non-call", x.Pos(), fname(fn))
		}
	case *ssa.UnOp:
		if x.Op != token.MUL {
			out.unknown("unexpected unary op", x.Pos(), fname(fn))
			break
		}
		// load of a *LintResult from a cell
		switch cell := x.X.(type) {
		case *ssa.Alloc:
			n := 0
			for _, ref := range *cell.Referrers() {
				if st, ok := ref.(*ssa.Store); ok && st.Addr == cell {
					n++
					out.merge(sf.resultVal(st.Val, fn, seen))
				}
			}
			// stores made by closures capturing the cell
			for _, ref := range *cell.Referrers() {
				if mc, ok := ref.(*ssa.MakeClosure); ok {
					cl := mc.Fn.(*ssa.Function)
					for i, b := range mc.Bindings {
						if b == cell {
							out.merge(sf.freeVarStores(cl, i))
							n++
						}
					}
				}
			}
			if n == 0 {
				out.Nil = true
			}
		case *ssa.FreeVar:
			out.unknown("result read from a captured variable", x.Pos(), fname(fn))
		case *ssa.Global:
			out.unknown("result read from package-level variable "+cell.Name(), x.Pos(), fname(fn))
		default:
			out.unknown(fmt.Sprintf("result loaded from %T", x.X), x.Pos(), fname(fn))
		}
	case *ssa.Parameter:
		out.unknown("result is a parameter of "+fname(fn), x.Pos(), fname(fn))
	default:
		out.unknown(fmt.Sprintf("result value of kind %T: %s", v, v.String()), v.Pos(), fname(fn))
	}
	if _, isAlloc := v.(*ssa.Alloc); !isAlloc {
		// the Status of a result obtained from elsewhere may be overwritten here
		out.merge(sf.overwrites(v, fn, map[ssa.Value]bool{}))
	}
	return out
}

// overwrites: statuses stored in fn into v.Status, where v is any value of
// type *LintResult (directly, through a phi it flows into, or by a module
// callee it is passed to). Flow-insensitive, so the set only grows.
func (sf *StatusFlow) overwrites(v ssa.Value, fn *ssa.Function, seen map[ssa.Value]bool) *SS {
	out := &SS{}
	if seen[v] {
		return out
	}
	seen[v] = true
	refs := v.Referrers()
	if refs == nil {
		return out
	}
	for _, ref := range *refs {
		switch r := ref.(type) {
		case *ssa.FieldAddr:
			if r.X != v || r.Field != sf.statusIdx {
				continue
			}
			for _, rr := range *r.Referrers() {
				switch st := rr.(type) {
				case *ssa.Store:
					if st.Addr == r {
						sf.at = st.Pos()
						out.merge(sf.statusOf(st.Val, fn, map[ssa.Value]bool{}))
					}
				case *ssa.Call:
					for i, a := range st.Call.Args {
						if a == r {
							out.merge(sf.paramStores(st, i))
						}
					}
				}
			}
		case *ssa.Phi:
			out.merge(sf.overwrites(r, fn, seen))
		case *ssa.Call:
			for i, a := range r.Call.Args {
				if a == v {
					if callee := r.Call.StaticCallee(); callee != nil && isModFunc(callee) {
						out.merge(sf.paramFieldStores(callee, i))
					}
				}
			}
		case *ssa.Store:
			if r.Addr == v {
				out.unknown("whole-struct store into a LintResult", r.Pos(), fname(fn))
			}
		}
	}
	return out
}

// everyPathStores: forward must-analysis — on every path from the allocation
// to a return, the Status field of alloc x has been stored.
func (sf *StatusFlow) everyPathStores(x *ssa.Alloc) bool {
	stores := map[*ssa.BasicBlock]bool{}
	for _, ref := range *x.Referrers() {
		if fa, ok := ref.(*ssa.FieldAddr); ok && fa.Field == sf.statusIdx {
			for _, rr := range *fa.Referrers() {
				if st, ok := rr.(*ssa.Store); ok && st.Addr == fa {
					stores[st.Block()] = true
				}
			}
		}
	}
	fn := x.Parent()
	out := map[*ssa.BasicBlock]bool{}
	for _, b := range fn.Blocks {
		out[b] = true // optimistic start, greatest fixpoint
	}
	changed := true
	for changed {
		changed = false
		for _, b := range fn.Blocks {
			in := len(b.Preds) > 0
			for _, p := range b.Preds {
				if !out[p] {
					in = false
				}
			}
			if b == x.Block() {
				in = false // nothing stored before the allocation itself
			}
			o := in || stores[b]
			if o != out[b] {
				out[b] = o
				changed = true
			}
		}
	}
	for _, b := range fn.Blocks {
		if _, ok := b.Instrs[len(b.Instrs)-1].(*ssa.Return); !ok {
			continue
		}
		if b == fn.Recover {
			continue
		}
		if !x.Block().Dominates(b) {
			continue
		}
		if !out[b] {
			return false
		}
	}
	return true
}

// phiEdgeNonNil: edge i of phi comes from a predecessor that established
// edge-value != nil.
func phiEdgeNonNil(phi *ssa.Phi, i int) bool {
	pred := phi.Block().Preds[i]
	v := phi.Edges[i]
	if nonNilAt(v, pred) {
		return true
	}
	// pred itself ends with the test and phi.Block() is its non-nil successor
	if iff, ok := pred.Instrs[len(pred.Instrs)-1].(*ssa.If); ok {
		if bo, ok := iff.Cond.(*ssa.BinOp); ok {
			var other ssa.Value
			if bo.X == v {
				other = bo.Y
			} else if bo.Y == v {
				other = bo.X
			}
			if k, ok := other.(*ssa.Const); ok && k.IsNil() {
				if bo.Op == token.NEQ && pred.Succs[0] == phi.Block() && pred.Succs[1] != phi.Block() {
					return true
				}
				if bo.Op == token.EQL && pred.Succs[1] == phi.Block() && pred.Succs[0] != phi.Block() {
					return true
				}
			}
		}
	}
	return false
}

func (sf *StatusFlow) callResult(call *ssa.Call, idx int, fn *ssa.Function) *SS {
	out := &SS{}
	callee := call.Call.StaticCallee()
	if callee == nil {
		// closure value bound locally?
		if mc, ok := call.Call.Value.(*ssa.MakeClosure); ok {
			callee = mc.Fn.(*ssa.Function)
		}
	}
	if callee == nil {
		if call.Call.IsInvoke() {
			why := "result of dynamic call " + call.Call.Method.FullName()
			if call.Call.Method.Name() == "Execute" && isLintBodyIface(sfCtx, call.Call.Value.Type()) {
				why = "result of dynamic call of a rule body: LintInterface).Execute"
			}
			out.unknown(why, call.Pos(), fname(fn))
		} else {
			out.unknown("result of call through a function value", call.Pos(), fname(fn))
		}
		return out
	}
	if !isModFunc(callee) {
		out.unknown("result of non-module function "+fname(callee), call.Pos(), fname(fn))
		return out
	}
	out.merge(sf.ResultOf(callee, idx))
	return out
}

// statusOf: set of constants a value of type lint.LintStatus can hold.
func (sf *StatusFlow) statusOf(v ssa.Value, fn *ssa.Function, seen map[ssa.Value]bool) *SS {
	out := &SS{}
	if seen[v] {
		return out
	}
	seen[v] = true
	switch x := v.(type) {
	case *ssa.Const:
		if x.Value == nil {
			out.addBit(0, Origin{fname(fn), sf.at})
			break
		}
		n, ok := constant.Int64Val(constant.ToInt(x.Value))
		if !ok || n < 0 || n > 15 {
			out.unknown(fmt.Sprintf("status constant %s out of range", x.Value), sf.at, fname(fn))
			break
		}
		out.addBit(int(n), Origin{fname(fn), sf.at})
	case *ssa.Phi:
		for _, e := range x.Edges {
			out.merge(sf.statusOf(e, fn, seen))
		}
	case *ssa.Call:
		callee := x.Call.StaticCallee()
		if callee != nil && isModFunc(callee) {
			out.merge(sf.ResultOf(callee, 0))
		} else {
			out.unknown("status from a call that is not a static module call", x.Pos(), fname(fn))
		}
	case *ssa.Extract:
		if call, ok := x.Tuple.(*ssa.Call); ok {
			callee := call.Call.StaticCallee()
			if callee != nil && isModFunc(callee) {
				out.merge(sf.ResultOf(callee, x.Index))
				break
			}
		}
		if lk, ok := x.Tuple.(*ssa.Lookup); ok && x.Index == 0 {
			out.merge(sf.statusOf(lk, fn, seen))
			break
		}
		out.unknown("status extracted from a non-module call", x.Pos(), fname(fn))
	case *ssa.Lookup:
		// map[...]LintStatus lookup: the zero value plus every value stored in the map
		out.merge(sf.mapValues(x.X, fn, map[ssa.Value]bool{}))
		out.addBit(0, Origin{fname(fn), x.Pos()})
	case *ssa.UnOp:
		if x.Op != token.MUL {
			out.unknown("arithmetic on a status", x.Pos(), fname(fn))
			break
		}
		out.merge(sf.loadStatus(x, fn, seen))
	case *ssa.Parameter:
		out.merge(sf.paramArgs(x, fn))
	case *ssa.Convert, *ssa.ChangeType:
		var op ssa.Value
		if cv, ok := x.(*ssa.Convert); ok {
			op = cv.X
		} else {
			op = x.(*ssa.ChangeType).X
		}
		if k, ok := op.(*ssa.Const); ok {
			out.merge(sf.statusOf(k, fn, seen))
		} else if sf.isStatusT(op.Type()) {
			out.merge(sf.statusOf(op, fn, seen))
		} else {
			out.unknown("status produced by conversion of a non-constant "+op.Type().String(), v.Pos(), fname(fn))
		}
	case *ssa.BinOp:
		out.unknown("arithmetic on a status", x.Pos(), fname(fn))
	case *ssa.FreeVar:
		out.merge(sf.freeVarValue(x, fn))
	default:
		out.unknown(fmt.Sprintf("status value of kind %T: %s", v, v.String()), v.Pos(), fname(fn))
	}
	return out
}

func (sf *StatusFlow) mapValues(m ssa.Value, fn *ssa.Function, seen map[ssa.Value]bool) *SS {
	out := &SS{}
	if seen[m] {
		return out
	}
	seen[m] = true
	switch x := m.(type) {
	case *ssa.MakeMap:
		for _, ref := range *x.Referrers() {
			if mu, ok := ref.(*ssa.MapUpdate); ok && mu.Map == x {
				out.merge(sf.statusOf(mu.Value, fn, map[ssa.Value]bool{}))
			}
		}
	case *ssa.UnOp:
		if g, ok := x.X.(*ssa.Global); ok && x.Op == token.MUL {
			for _, v := range sf.globStores[g] {
				out.merge(sf.mapValues(v, fn, seen))
			}
			if len(sf.globStores[g]) == 0 {
				out.unknown("map global "+g.Name()+" without visible initialiser", x.Pos(), fname(fn))
			}
			return out
		}
		out.unknown("status map loaded from a non-global", x.Pos(), fname(fn))
	default:
		out.unknown(fmt.Sprintf("status map of kind %T", m), m.Pos(), fname(fn))
	}
	return out
}

// loadStatus: *addr where addr is a status cell.
func (sf *StatusFlow) loadStatus(ld *ssa.UnOp, fn *ssa.Function, seen map[ssa.Value]bool) *SS {
	out := &SS{}
	switch cell := ld.X.(type) {
	case *ssa.Alloc:
		out.merge(sf.cellStores(cell, fn))
	case *ssa.FieldAddr:
		// res.Status read back from a result
		if sf.isResultPtr(cell.X.Type()) && cell.Field == sf.statusIdx {
			s := sf.resultVal(cell.X, fn, map[ssa.Value]bool{})
			s2 := &SS{}
			s2.merge(s)
			s2.Nil = false
			out.merge(s2)
			break
		}
		// a status-typed field of some other struct: collect all stores to that
		// field anywhere in the module (field-based, flow-insensitive)
		out.merge(sf.fieldStores(cell, fn))
	case *ssa.Global:
		vals := sf.globStores[cell]
		if len(vals) == 0 {
			out.addBit(0, Origin{fname(fn), ld.Pos()})
		}
		for _, v := range vals {
			out.merge(sf.statusOf(v, fn, map[ssa.Value]bool{}))
		}
	case *ssa.Parameter:
		// *p where p is a *LintStatus parameter: the values the callers' cells hold
		out.unknown("status read through pointer parameter", ld.Pos(), fname(fn))
	case *ssa.FreeVar:
		// captured status cell: all stores in parent and siblings
		out.merge(sf.freeVarCell(cell, fn))
	case *ssa.IndexAddr:
		out.unknown("status read from an array/slice element", ld.Pos(), fname(fn))
	default:
		out.unknown(fmt.Sprintf("status loaded from %T", ld.X), ld.Pos(), fname(fn))
	}
	return out
}

// cellStores: every value stored into a local status cell, directly, through
// callees receiving its address, or by closures capturing it; plus the zero
// value when no store happens in the cell's own block.
func (sf *StatusFlow) cellStores(cell *ssa.Alloc, fn *ssa.Function) *SS {
	out := &SS{}
	first := false
	for _, ref := range *cell.Referrers() {
		switch r := ref.(type) {
		case *ssa.Store:
			if r.Addr == cell {
				if r.Block() == cell.Block() {
					first = true
				}
				sf.at = r.Pos()
				out.merge(sf.statusOf(r.Val, fn, map[ssa.Value]bool{}))
			}
		case *ssa.Call:
			for i, a := range r.Call.Args {
				if a == cell {
					out.merge(sf.paramStores(r, i))
				}
			}
		case *ssa.MakeClosure:
			cl := r.Fn.(*ssa.Function)
			for i, b := range r.Bindings {
				if b == cell {
					out.merge(sf.freeVarStatusStores(cl, i))
				}
			}
		}
	}
	if !first {
		out.addBit(0, Origin{fname(fn), cell.Pos()})
	}
	return out
}

// paramStores: statuses a callee stores through its pointer parameter #i.
func (sf *StatusFlow) paramStores(call *ssa.Call, i int) *SS {
	out := &SS{}
	callee := call.Call.StaticCallee()
	if callee == nil || !isModFunc(callee) || len(callee.Blocks) == 0 {
		out.unknown("status cell passed to a call that is not a static module call", call.Pos(), fname(call.Parent()))
		return out
	}
	if call.Call.IsInvoke() {
		out.unknown("status cell passed to a dynamic call", call.Pos(), fname(call.Parent()))
		return out
	}
	key := fmt.Sprintf("ps:%s#%d", callee.String(), i)
	if s, ok := sf.paramMemo[key]; ok {
		return s
	}
	sf.paramMemo[key] = out
	if i >= len(callee.Params) {
		out.unknown("argument index beyond parameters", call.Pos(), fname(callee))
		return out
	}
	p := callee.Params[i]
	for _, ref := range *p.Referrers() {
		switch r := ref.(type) {
		case *ssa.Store:
			if r.Addr == p {
				out.merge(sf.statusOf(r.Val, callee, map[ssa.Value]bool{}))
			}
		case *ssa.Call:
			for j, a := range r.Call.Args {
				if a == p {
					out.merge(sf.paramStores(r, j))
				}
			}
		case *ssa.UnOp:
			// read
		default:
			out.unknown(fmt.Sprintf("status pointer parameter used by %T", ref), ref.Pos(), fname(callee))
		}
	}
	return out
}

// paramFieldStores: statuses a callee stores into param#i.Status (param is *LintResult).
func (sf *StatusFlow) paramFieldStores(callee *ssa.Function, i int) *SS {
	out := &SS{}
	key := fmt.Sprintf("pfs:%s#%d", callee.String(), i)
	if s, ok := sf.paramMemo[key]; ok {
		return s
	}
	sf.paramMemo[key] = out
	if i >= len(callee.Params) || len(callee.Blocks) == 0 {
		return out
	}
	p := callee.Params[i]
	for _, ref := range *p.Referrers() {
		switch r := ref.(type) {
		case *ssa.FieldAddr:
			if r.Field != sf.statusIdx {
				continue
			}
			for _, rr := range *r.Referrers() {
				if st, ok := rr.(*ssa.Store); ok && st.Addr == r {
					out.merge(sf.statusOf(st.Val, callee, map[ssa.Value]bool{}))
				}
			}
		case *ssa.Call:
			for j, a := range r.Call.Args {
				if a == p {
					if c2 := r.Call.StaticCallee(); c2 != nil && isModFunc(c2) {
						out.merge(sf.paramFieldStores(c2, j))
					}
				}
			}
		}
	}
	return out
}

// freeVarStores: results stored by closure cl into its free variable #i (a *LintResult cell).
func (sf *StatusFlow) freeVarStores(cl *ssa.Function, i int) *SS {
	out := &SS{}
	if i >= len(cl.FreeVars) {
		return out
	}
	fv := cl.FreeVars[i]
	for _, ref := range *fv.Referrers() {
		if st, ok := ref.(*ssa.Store); ok && st.Addr == fv {
			out.merge(sf.resultVal(st.Val, cl, map[ssa.Value]bool{}))
		}
	}
	return out
}

func (sf *StatusFlow) freeVarStatusStores(cl *ssa.Function, i int) *SS {
	out := &SS{}
	if i >= len(cl.FreeVars) {
		return out
	}
	fv := cl.FreeVars[i]
	for _, ref := range *fv.Referrers() {
		switch r := ref.(type) {
		case *ssa.Store:
			if r.Addr == fv {
				out.merge(sf.statusOf(r.Val, cl, map[ssa.Value]bool{}))
			}
		case *ssa.MakeClosure:
			c2 := r.Fn.(*ssa.Function)
			for j, b := range r.Bindings {
				if b == fv {
					out.merge(sf.freeVarStatusStores(c2, j))
				}
			}
		}
	}
	return out
}

// freeVarCell: the closure reads a captured status cell; find the cell in the
// parent and collect its stores.
func (sf *StatusFlow) freeVarCell(fv *ssa.FreeVar, fn *ssa.Function) *SS {
	out := &SS{}
	parent := fn.Parent()
	if parent == nil {
		out.unknown("captured status cell without parent", fv.Pos(), fname(fn))
		return out
	}
	idx := -1
	for i, f := range fn.FreeVars {
		if f == fv {
			idx = i
		}
	}
	for _, b := range parent.Blocks {
		for _, in := range b.Instrs {
			if mc, ok := in.(*ssa.MakeClosure); ok && mc.Fn == fn && idx >= 0 && idx < len(mc.Bindings) {
				switch cell := mc.Bindings[idx].(type) {
				case *ssa.Alloc:
					out.merge(sf.cellStores(cell, parent))
				default:
					out.unknown("captured status cell is not a local of the parent", fv.Pos(), fname(fn))
				}
			}
		}
	}
	return out
}

func (sf *StatusFlow) freeVarValue(fv *ssa.FreeVar, fn *ssa.Function) *SS {
	out := &SS{}
	out.unknown("status is a captured value", fv.Pos(), fname(fn))
	return out
}

// fieldStores: all stores, anywhere in the module, to the same struct field.
func (sf *StatusFlow) fieldStores(fa *ssa.FieldAddr, fn *ssa.Function) *SS {
	out := &SS{}
	st, ok := fa.X.Type().Underlying().(*types.Pointer).Elem().Underlying().(*types.Struct)
	if !ok {
		out.unknown("status field of a non-struct", fa.Pos(), fname(fn))
		return out
	}
	field := st.Field(fa.Field)
	n := 0
	for _, f := range modFunctions(sf.c) {
		for _, b := range f.Blocks {
			for _, in := range b.Instrs {
				s, ok := in.(*ssa.Store)
				if !ok {
					continue
				}
				fa2, ok := s.Addr.(*ssa.FieldAddr)
				if !ok {
					continue
				}
				st2, ok := fa2.X.Type().Underlying().(*types.Pointer).Elem().Underlying().(*types.Struct)
				if !ok || fa2.Field >= st2.NumFields() || st2.Field(fa2.Field) != field {
					continue
				}
				n++
				out.merge(sf.statusOf(s.Val, f, map[ssa.Value]bool{}))
			}
		}
	}
	// zero value of the field is possible too
	out.addBit(0, Origin{fname(fn), fa.Pos()})
	_ = n
	return out
}

// paramArgs: a status-typed parameter takes the union of the arguments at all
// static call sites; if the function's address is taken the set is unknown.
func (sf *StatusFlow) paramArgs(p *ssa.Parameter, fn *ssa.Function) *SS {
	out := &SS{}
	key := "pa:" + fn.String() + ":" + p.Name()
	if s, ok := sf.paramMemo[key]; ok {
		return s
	}
	sf.paramMemo[key] = out
	if sf.addrTaken[fn] {
		out.unknown("status parameter of a function whose address is taken: "+fname(fn), p.Pos(), fname(fn))
		return out
	}
	idx := -1
	for i, q := range fn.Params {
		if q == p {
			idx = i
		}
	}
	sites := sf.callers[fn]
	if len(sites) == 0 {
		// exported helper without callers in the module: any status could be passed
		out.unknown("status parameter of "+fname(fn)+" has no visible call site", p.Pos(), fname(fn))
		return out
	}
	for _, call := range sites {
		if idx < len(call.Call.Args) {
			out.merge(sf.statusOf(call.Call.Args[idx], call.Parent(), map[ssa.Value]bool{}))
		}
	}
	return out
}
