package main

func init() { register("C07", runC07) }

func runC07(c *Ctx, tier string) {
	r := NewReport("C07", "other", tier, c)
	r.Explanation = "A lint's verdict can depend on which other lints run only if lints can communicate or if filtering changes what is run. Necessary structural conditions, all decided: (1) no communication channel: the interprocedural MOD summaries show that no CheckApplies/Execute/Configure of any of the 377 lints (any pair may be co-selected) writes a package-level variable of the module or memory reachable from the linted object, and every constructor returns a fresh instance; (2) independent iterations: in the three execute* loops each lint is run as Execute(elem, o, registry.GetConfiguration()) with nothing but the index carried between iterations and exactly one result stored per lint under its own name — hence nothing for unselected lints; (3) filter identity: the one-iteration decision table of Registry.Filter shows that a selected lint is re-registered as the very object returned by the lookup, with its own kind's register method, and that the new registry receives SetConfiguration(r.configuration) on every path. Equality of results as values follows from (1)-(3) only under the library-determinism assumption of C05; it is not decided here."
	r.Rule("no-global-write; object-read-only; fresh-instance; result-loop; filter-identity; filter-config")
	r.Trusted = []string{"go/ssa, VTA call graph", "determinism of the trusted libraries (C05)"}
	r.Assumptions = []string{"writes through reflect/unsafe are not modelled"}

	cs := BuildCensus(c)
	r.Floor("registrations", 370, len(cs.Regs))
	e := NewEffects(c)
	c05Effects(c, r, cs, e)
	freshInstances(c, r, cs)
	c01Loops(c, r)
	filterChecks(c, r, true)
	c08Empty(c, r) // when Filter may hand back the registry it was given instead of a copy
	// options are stored per instance: every Configure() hands out memory inside the
	// fresh instance (or set by its constructor to memory allocated for it), never a
	// structure shared between instances, runs or registries (C11's rule)
	c11Configurables(c, r, BuildCensus(c))
	r.Finish()
}
