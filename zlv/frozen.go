package main

// frozen.go — package-level lookup tables that are constant after start-up.
//
// A maintainer may turn a switch into a table (map / array / slice literal in a
// package-level variable). The decision-table engine then meets a Lookup or an
// indexed load on a global instead of a chain of comparisons. When the table is
// *frozen* — built in the package initialiser from constant keys and constant /
// function values, never written, never aliased anywhere in the module — the
// engine treats the access as the chain of comparisons it replaces: one branch
// per entry under the condition key == K (plus the "absent" branch), exactly
// what a switch compiles to. Anything else keeps the opaque term.

import (
	"go/constant"
	"go/token"
	"go/types"

	"golang.org/x/tools/go/ssa"
)

var gCtx *Ctx

type frozenEntry struct {
	Key constant.Value // map key, or array/slice index as an Int
	Val ssa.Value      // *ssa.Const, *ssa.Function or binding-free *ssa.MakeClosure
}

type FrozenTable struct {
	G       *ssa.Global
	IsMap   bool
	Entries []frozenEntry
	Len     int // arrays / slices
	ElemTyp types.Type
}

var (
	frozenCache   = map[*ssa.Global]*FrozenTable{}
	frozenDone    = map[*ssa.Global]bool{}
	globalUsesIdx map[*ssa.Global][]ssa.Instruction
)

const frozenMaxEntries = 48

func buildGlobalUses() {
	if globalUsesIdx != nil || gCtx == nil {
		return
	}
	globalUsesIdx = map[*ssa.Global][]ssa.Instruction{}
	for _, f := range modFunctions(gCtx) {
		allInstrs(f, func(in ssa.Instruction) {
			for _, op := range in.Operands(nil) {
				if g, ok := (*op).(*ssa.Global); ok {
					globalUsesIdx[g] = append(globalUsesIdx[g], in)
				}
			}
		})
	}
}

// frozenTableOf returns the frozen table held by g, or nil.
func frozenTableOf(g *ssa.Global) *FrozenTable {
	if frozenDone[g] {
		return frozenCache[g]
	}
	frozenDone[g] = true
	if gCtx == nil || g.Pkg == nil || !isModPkg(g.Pkg.Pkg) {
		return nil
	}
	buildGlobalUses()
	elem := g.Type().(*types.Pointer).Elem()
	ft := &FrozenTable{G: g}
	var stored ssa.Value
	nStores := 0
	for _, in := range globalUsesIdx[g] {
		switch x := in.(type) {
		case *ssa.Store:
			if x.Addr == ssa.Value(g) {
				nStores++
				stored = x.Val
				if x.Parent().Name() != "init" || x.Parent().Pkg != g.Pkg {
					return nil
				}
				continue
			}
			return nil // the address of the table is stored somewhere
		case *ssa.UnOp:
			if x.Op != token.MUL {
				return nil
			}
			if !frozenValueUse(x, 0) {
				return nil
			}
		case *ssa.IndexAddr: // array global indexed in place
			if x.X != ssa.Value(g) {
				return nil
			}
			if x.Parent().Name() == "init" && x.Parent().Pkg == g.Pkg {
				continue // element initialisation, examined below
			}
			if !addrOnlyLoaded(x) {
				return nil
			}
		case *ssa.Slice:
			if x.X != ssa.Value(g) || !frozenValueUse(x, 0) {
				return nil
			}
		case *ssa.DebugRef:
		default:
			return nil
		}
	}
	switch t := elem.Underlying().(type) {
	case *types.Map:
		ft.IsMap = true
		ft.ElemTyp = t.Elem()
		mm, ok := stored.(*ssa.MakeMap)
		if !ok || nStores != 1 {
			return nil
		}
		for _, ref := range *mm.Referrers() {
			switch x := ref.(type) {
			case *ssa.MapUpdate:
				if x.Map != ssa.Value(mm) {
					return nil
				}
				k := constOf(x.Key)
				if k == nil || !frozenVal(x.Value) {
					return nil
				}
				ft.Entries = append(ft.Entries, frozenEntry{k, x.Value})
			case *ssa.Store:
				if x.Val != ssa.Value(mm) || x.Addr != ssa.Value(g) {
					return nil
				}
			case *ssa.DebugRef:
			default:
				return nil
			}
		}
	case *types.Array:
		ft.ElemTyp = t.Elem()
		ft.Len = int(t.Len())
		if nStores > 1 {
			return nil
		}
		if nStores == 1 {
			// whole-array store of a value loaded from a local literal
			ld, ok := stored.(*ssa.UnOp)
			if !ok || ld.Op != token.MUL {
				return nil
			}
			al, ok := ld.X.(*ssa.Alloc)
			if !ok || !collectElems(al, ft) {
				return nil
			}
		} else {
			for _, in := range globalUsesIdx[g] {
				ia, ok := in.(*ssa.IndexAddr)
				if !ok || ia.Parent().Name() != "init" {
					continue
				}
				if !elemStore(ia, ft) {
					return nil
				}
			}
		}
	case *types.Slice:
		ft.ElemTyp = t.Elem()
		sl, ok := stored.(*ssa.Slice)
		if !ok || nStores != 1 || sl.Low != nil || sl.High != nil {
			return nil
		}
		al, ok := sl.X.(*ssa.Alloc)
		if !ok {
			return nil
		}
		at, ok := al.Type().(*types.Pointer).Elem().Underlying().(*types.Array)
		if !ok {
			return nil
		}
		ft.Len = int(at.Len())
		if !collectElems(al, ft) {
			return nil
		}
	default:
		return nil
	}
	if len(ft.Entries) > frozenMaxEntries || (ft.IsMap && len(ft.Entries) == 0) {
		return nil
	}
	frozenCache[g] = ft
	return ft
}

func constOf(v ssa.Value) constant.Value {
	switch x := v.(type) {
	case *ssa.Const:
		return x.Value
	case *ssa.Convert:
		return constOf(x.X)
	case *ssa.ChangeType:
		return constOf(x.X)
	}
	return nil
}

func frozenVal(v ssa.Value) bool {
	switch x := v.(type) {
	case *ssa.Const:
		return true
	case *ssa.Function:
		return true
	case *ssa.MakeClosure:
		return len(x.Bindings) == 0
	case *ssa.Convert:
		return frozenVal(x.X)
	case *ssa.ChangeType:
		return frozenVal(x.X)
	}
	return false
}

// collectElems: the local array al is only written element-wise with frozen
// values at constant indices (a composite literal) and then read as a whole.
func collectElems(al *ssa.Alloc, ft *FrozenTable) bool {
	for _, ref := range *al.Referrers() {
		switch x := ref.(type) {
		case *ssa.IndexAddr:
			if !elemStore(x, ft) {
				return false
			}
		case *ssa.Slice, *ssa.UnOp, *ssa.DebugRef:
		default:
			return false
		}
	}
	return true
}

func elemStore(ia *ssa.IndexAddr, ft *FrozenTable) bool {
	idx := constOf(ia.Index)
	if idx == nil {
		return false
	}
	for _, ref := range *ia.Referrers() {
		switch x := ref.(type) {
		case *ssa.Store:
			if x.Addr != ssa.Value(ia) || !frozenVal(x.Val) {
				return false
			}
			ft.Entries = append(ft.Entries, frozenEntry{idx, x.Val})
		case *ssa.DebugRef:
		default:
			return false
		}
	}
	return true
}

func addrOnlyLoaded(a ssa.Value) bool {
	for _, ref := range *a.Referrers() {
		switch x := ref.(type) {
		case *ssa.UnOp:
			if x.Op != token.MUL {
				return false
			}
		case *ssa.DebugRef:
		default:
			return false
		}
	}
	return true
}

// frozenValueUse: the loaded table value is only looked up / indexed / ranged
// over / measured — never written, stored, returned or passed on.
func frozenValueUse(v ssa.Value, depth int) bool {
	if depth > 3 {
		return false
	}
	refs := v.Referrers()
	if refs == nil {
		return true
	}
	for _, ref := range *refs {
		switch x := ref.(type) {
		case *ssa.DebugRef, *ssa.Range:
		case *ssa.Lookup:
			if x.X != v {
				return false
			}
		case *ssa.Index:
			if x.X != v {
				return false
			}
		case *ssa.IndexAddr:
			if x.X != v || !addrOnlyLoaded(x) {
				return false
			}
		case *ssa.Call:
			b, ok := x.Call.Value.(*ssa.Builtin)
			if !ok || (b.Name() != "len" && b.Name() != "cap") {
				return false
			}
		case *ssa.Phi:
			if !frozenValueUse(x, depth+1) {
				return false
			}
		default:
			return false
		}
	}
	return true
}

// frozenGlobalOfTerm: t is load(&G) (or &G itself for arrays indexed in place)
// of a frozen table.
func frozenGlobalOfTerm(t *T) *FrozenTable {
	if t == nil {
		return nil
	}
	if t.Op == "load" && len(t.Args) == 1 {
		t = t.Args[0]
	}
	if t.Op != "global" || t.G == nil {
		return nil
	}
	return frozenTableOf(t.G)
}

// frozenValTerm converts a table value to a term.
func frozenValTerm(v ssa.Value, typ types.Type) *T {
	switch x := v.(type) {
	case *ssa.Const:
		return &T{Op: "const", K: x.Value, Typ: typ}
	case *ssa.Function:
		return &T{Op: "fn", Name: fname(x), Fn: x, Typ: x.Type()}
	case *ssa.MakeClosure:
		f := x.Fn.(*ssa.Function)
		return &T{Op: "closure", Name: fname(f), Fn: f, Typ: x.Type()}
	case *ssa.Convert:
		return frozenValTerm(x.X, typ)
	case *ssa.ChangeType:
		return frozenValTerm(x.X, typ)
	}
	return &T{Op: "unknown", Name: v.Name()}
}

func constKeyEqual(a, b constant.Value) bool {
	if a == nil || b == nil {
		return a == nil && b == nil
	}
	if a.Kind() != b.Kind() {
		return false
	}
	return constant.Compare(a, token.EQL, b)
}
