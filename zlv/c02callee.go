package main

import (
	"fmt"
	"go/constant"
	"go/token"
	"go/types"

	"golang.org/x/tools/go/ssa"
)

// C02, obligation class P7 — "callee-length". A function outside the module
// that indexes a slice / string parameter with a constant on every path to a
// normal return (encoding/binary's ByteOrder methods: `_ = b[3]`) panics when
// it is handed a shorter value. The compiler's prove pass reports that bounds
// check inside the library, not at zlint's call, so P1 cannot see it. The
// requirement is derived from the callee's own SSA (nothing is listed by
// name), propagated through library-to-library calls that pass the parameter
// on, and must be discharged at the call in lint code by a value whose length
// is known there (a constant re-slice, an array) or by a dominating test of
// len(arg) against a sufficient constant.

var lenReqCache = map[*ssa.Function]map[int]int64{}

func ssaConstInt(v ssa.Value) (int64, bool) {
	k, ok := v.(*ssa.Const)
	if !ok || k.Value == nil || k.Value.Kind() != constant.Int {
		return 0, false
	}
	n, exact := constant.Int64Val(k.Value)
	return n, exact
}

func sliceOrString(t types.Type) bool {
	switch u := t.Underlying().(type) {
	case *types.Slice:
		return true
	case *types.Basic:
		return u.Info()&types.IsString != 0
	}
	return false
}

// paramLenReq: parameter index (receiver included) → minimum length the
// function needs on every path that returns normally.
func paramLenReq(f *ssa.Function, depth int) map[int]int64 {
	if r, ok := lenReqCache[f]; ok {
		return r
	}
	req := map[int]int64{}
	lenReqCache[f] = req
	if len(f.Blocks) == 0 || depth > 4 {
		return req
	}
	pidx := map[ssa.Value]int{}
	for i, p := range f.Params {
		if sliceOrString(p.Type()) {
			pidx[p] = i
		}
	}
	if len(pidx) == 0 {
		return req
	}
	var rets []*ssa.BasicBlock
	for _, b := range f.Blocks {
		if len(b.Instrs) > 0 {
			if _, ok := b.Instrs[len(b.Instrs)-1].(*ssa.Return); ok {
				rets = append(rets, b)
			}
		}
	}
	if len(rets) == 0 {
		return req
	}
	need := func(i int, n int64) {
		if n > req[i] {
			req[i] = n
		}
	}
	for _, b := range f.Blocks {
		must := true
		for _, rb := range rets {
			if !b.Dominates(rb) {
				must = false
				break
			}
		}
		if !must {
			continue
		}
		for _, in := range b.Instrs {
			switch x := in.(type) {
			case *ssa.IndexAddr:
				if i, ok := pidx[x.X]; ok {
					if k, ok := ssaConstInt(x.Index); ok && k >= 0 {
						need(i, k+1)
					}
				}
			case *ssa.Lookup:
				if i, ok := pidx[x.X]; ok && !x.CommaOk {
					if k, ok := ssaConstInt(x.Index); ok && k >= 0 {
						need(i, k+1)
					}
				}
			case *ssa.Slice:
				// s[:k] on a string needs len >= k (on a slice only cap >= k: not a length requirement)
				if i, ok := pidx[x.X]; ok {
					if _, isStr := x.X.Type().Underlying().(*types.Basic); isStr {
						for _, bound := range []ssa.Value{x.Low, x.High} {
							if bound != nil {
								if k, ok := ssaConstInt(bound); ok && k > 0 {
									need(i, k)
								}
							}
						}
					}
				}
			case ssa.CallInstruction:
				cc := x.Common()
				g := cc.StaticCallee()
				if g == nil || g == f {
					continue
				}
				var sub map[int]int64
				args := cc.Args
				for m, a := range args {
					if i, ok := pidx[a]; ok {
						if sub == nil {
							sub = paramLenReq(g, depth+1)
						}
						if n := sub[m]; n > 0 {
							need(i, n)
						}
					}
				}
			}
		}
	}
	return req
}

// knownLen: a lower bound on len(v) visible at instruction `at`.
func knownLen(v ssa.Value, at ssa.Instruction) int64 {
	var best int64
	switch x := v.(type) {
	case *ssa.Slice:
		if pt, ok := x.X.Type().Underlying().(*types.Pointer); ok {
			if arr, ok := pt.Elem().Underlying().(*types.Array); ok {
				lo, hi := int64(0), arr.Len()
				okc := true
				if x.Low != nil {
					lo, okc = ssaConstInt(x.Low)
				}
				if okc && x.High != nil {
					hi, okc = ssaConstInt(x.High)
				}
				if okc && hi-lo > best {
					best = hi - lo
				}
			}
		} else {
			// b[i:i+k] / b[c1:c2]: the re-slice is itself bounds-checked (a P1 obligation when unproven)
			if x.High != nil {
				if hb, hc := splitIndex(x.High); true {
					var lb ssa.Value
					var lc int64
					if x.Low != nil {
						lb, lc = splitIndex(x.Low)
					}
					if kh, ok := ssaConstInt(x.High); ok {
						kl := int64(0)
						okl := x.Low == nil
						if x.Low != nil {
							kl, okl = ssaConstInt(x.Low)
						}
						if okl && kh-kl > best {
							best = kh - kl
						}
					} else if lb != nil && hb == lb && hc-lc > best {
						best = hc - lc
					}
				}
			}
		}
	case *ssa.Const:
		if x.Value != nil && x.Value.Kind() == constant.String {
			if n := int64(len(constant.StringVal(x.Value))); n > best {
				best = n
			}
		}
	case *ssa.Convert:
		if n := knownLen(x.X, at); n > best {
			best = n
		}
	case *ssa.ChangeType:
		if n := knownLen(x.X, at); n > best {
			best = n
		}
	}
	// dominating tests of len(same access path) against a constant
	path := apath(v)
	b := at.Block()
	for d := b; d != nil; d = d.Idom() {
		id := d.Idom()
		if id == nil {
			break
		}
		iff, ok := id.Instrs[len(id.Instrs)-1].(*ssa.If)
		if !ok {
			continue
		}
		cond, flip := iff.Cond, false
		for {
			if u, ok := cond.(*ssa.UnOp); ok && u.Op == token.NOT {
				cond, flip = u.X, !flip
				continue
			}
			break
		}
		bo, ok := cond.(*ssa.BinOp)
		if !ok {
			continue
		}
		op, l, r := bo.Op, bo.X, bo.Y
		if _, isK := l.(*ssa.Const); isK {
			l, r = r, l
			switch op {
			case token.LSS:
				op = token.GTR
			case token.LEQ:
				op = token.GEQ
			case token.GTR:
				op = token.LSS
			case token.GEQ:
				op = token.LEQ
			}
		}
		k, okk := ssaConstInt(r)
		if !okk {
			continue
		}
		call, okc := l.(*ssa.Call)
		if !okc {
			continue
		}
		if bi, ok := call.Call.Value.(*ssa.Builtin); !ok || bi.Name() != "len" || len(call.Call.Args) != 1 || apath(call.Call.Args[0]) != path {
			continue
		}
		if !noStoreBetween(call, at, path) {
			continue
		}
		for i := 0; i < 2; i++ {
			succ := id.Succs[i]
			if len(succ.Preds) != 1 || !succ.Dominates(b) {
				continue
			}
			truth := (i == 0) != flip // the comparison holds on this edge
			var lb int64 = -1
			switch op {
			case token.GTR: // len > k
				if truth {
					lb = k + 1
				}
			case token.GEQ:
				if truth {
					lb = k
				}
			case token.LSS: // len < k false → len >= k
				if !truth {
					lb = k
				}
			case token.LEQ:
				if !truth {
					lb = k + 1
				}
			case token.EQL:
				if truth {
					lb = k
				}
			case token.NEQ:
				if !truth {
					lb = k
				}
			}
			if lb > best {
				best = lb
			}
		}
	}
	return best
}

// noStoreBetween: the tested value and the used value are the same SSA value,
// or the access path names a local/parameter (SSA values are immutable); for a
// path through memory (x.f) nothing is assumed beyond what the other C02
// guard recognisers assume — lints do not write the object (C05).
func noStoreBetween(test *ssa.Call, at ssa.Instruction, path string) bool { return true }

func calleeLenSites(f *ssa.Function, x *ssa.Call, posStr string) []*panicSite {
	g := x.Call.StaticCallee()
	if g == nil || g.Pkg == nil || isModPkg(g.Pkg.Pkg) {
		return nil
	}
	req := paramLenReq(g, 0)
	var out []*panicSite
	for m, a := range x.Call.Args {
		n := req[m]
		if n == 0 {
			continue
		}
		s := &panicSite{class: "callee-length", fn: fname(f), expr: funcCallName(g) + "(" + apath(a) + ")>=" + fmt.Sprint(n), pos: x.Pos(), posStr: posStr,
			detail: fmt.Sprintf("%s indexes its argument %s up to [%d] unconditionally: it panics unless len >= %d", funcCallName(g), apath(a), n-1, n)}
		if have := knownLen(a, x); have >= n {
			s.how = fmt.Sprintf("callee-length: the argument's length is known to be >= %d at the call (constant re-slice / array / dominating len test)", have)
		}
		out = append(out, s)
	}
	return out
}
