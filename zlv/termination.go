package main

// termination.go — the "no hang" clause of C01, decided as a census: every
// natural loop and every call-graph cycle in the product packages that lint
// code can reach (zlint, lint, util, lints/*) must be bounded by a recognised
// form, re-checked from the SSA on every run:
//
//	range     the loop is driven by a range iterator over a map or string
//	counted   a header phi i = φ(init, i ± c) (c a positive constant on every
//	          in-loop edge), and a test  i < / <= / != / > / >= bound  that
//	          dominates every back edge, whose bound is loop-invariant (defined
//	          outside the loop, a constant, or len() of such a value / of memory
//	          the loop does not store to)
//	consume   a header phi of slice/string type whose every in-loop edge is a
//	          strict suffix/prefix x[k:] / x[:len-k] (k ≥ 1 constant) of the phi,
//	          tested by len(x) > 0 / != 0 / >= k on every iteration
//
// or be listed, by function + ordinal of the loop among the unrecognised loops
// of that function, in ledger/termination.txt with a one-line ranking argument
// written by reading the loop. A loop that is neither is a violation ("loop
// without a recognised bound"): so a new `for cond { … }` whose progress the
// analysis cannot see is reported with its position.

import (
	"bufio"
	"fmt"
	"go/constant"
	"go/token"
	"go/types"
	"os"
	"path/filepath"
	"sort"
	"strings"

	"golang.org/x/tools/go/ssa"
)

type loopVerdict struct {
	fn    *ssa.Function
	loop  *natLoop
	class string // range | counted | consume | "" (unrecognised)
	why   string
	pos   token.Pos
}

func inLoopDef(l *natLoop, v ssa.Value) bool {
	in, ok := v.(ssa.Instruction)
	if !ok {
		return false // params, consts, globals, functions
	}
	return in.Block() != nil && l.blocks[in.Block()]
}

// loopInvariantBound: v does not change while the loop runs.
func loopInvariantBound(l *natLoop, v ssa.Value, depth int) bool {
	if depth > 4 {
		return false
	}
	if !inLoopDef(l, v) {
		return true
	}
	switch x := v.(type) {
	case *ssa.Call:
		if b, ok := x.Call.Value.(*ssa.Builtin); ok && (b.Name() == "len" || b.Name() == "cap") && len(x.Call.Args) == 1 {
			return loopInvariantBound(l, x.Call.Args[0], depth+1)
		}
		if callee := x.Call.StaticCallee(); callee != nil && pureSizeFuncs[callee.String()] {
			for _, a := range x.Call.Args {
				if !loopInvariantBound(l, a, depth+1) {
					return false
				}
			}
			return true
		}
	case *ssa.UnOp:
		if x.Op == token.MUL {
			// a load inside the loop: invariant if the loop has no store to the same access path
			p := apath(x.X)
			clean := true
			for b := range l.blocks {
				for _, in := range b.Instrs {
					if st, ok := in.(*ssa.Store); ok && apath(st.Addr) == p {
						clean = false
					}
				}
			}
			return clean && loopInvariantBound(l, x.X, depth+1)
		}
	case *ssa.FieldAddr:
		return loopInvariantBound(l, x.X, depth+1)
	case *ssa.Field:
		return loopInvariantBound(l, x.X, depth+1)
	case *ssa.BinOp:
		return loopInvariantBound(l, x.X, depth+1) && loopInvariantBound(l, x.Y, depth+1)
	case *ssa.Convert:
		return loopInvariantBound(l, x.X, depth+1)
	case *ssa.ChangeType:
		return loopInvariantBound(l, x.X, depth+1)
	}
	return false
}

// pureSizeFuncs: library functions whose result depends only on their (loop-invariant) arguments.
var pureSizeFuncs = map[string]bool{
	"(reflect.Value).NumField": true, "(reflect.Value).Len": true, "(*math/big.Int).BitLen": true,
}

func constIntOf(v ssa.Value) (int64, bool) {
	k, ok := v.(*ssa.Const)
	if !ok || k.Value == nil || k.Value.Kind() != constant.Int {
		return 0, false
	}
	return constant.Int64Val(k.Value)
}

// offsetRange: v = phi + k with k ∈ [lo, hi] on every in-loop definition chain
// (constants only; inner phis are joined). ok=false when v is not of that form.
func offsetRange(l *natLoop, phi *ssa.Phi, v ssa.Value, seen map[ssa.Value]bool) (lo, hi int64, ok bool) {
	if v == phi {
		return 0, 0, true
	}
	if seen[v] {
		return 0, 0, false
	}
	seen[v] = true
	defer delete(seen, v)
	switch x := v.(type) {
	case *ssa.BinOp:
		if x.Op == token.ADD || x.Op == token.SUB {
			c, isC := constIntOf(x.Y)
			base := x.X
			if !isC && x.Op == token.ADD {
				c, isC = constIntOf(x.X)
				base = x.Y
			}
			if isC {
				if x.Op == token.SUB {
					c = -c
				}
				if lo, hi, ok := offsetRange(l, phi, base, seen); ok {
					return lo + c, hi + c, true
				}
			}
		}
	case *ssa.Phi:
		if !inLoopDef(l, x) {
			return 0, 0, false
		}
		first := true
		for _, e := range x.Edges {
			l2, h2, ok2 := offsetRange(l, phi, e, seen)
			if !ok2 {
				return 0, 0, false
			}
			if first || l2 < lo {
				lo = l2
			}
			if first || h2 > hi {
				hi = h2
			}
			first = false
		}
		return lo, hi, !first
	}
	return 0, 0, false
}

// stepOf: direction (+1 / -1) in which v moves relative to phi by at least one, or 0.
func stepOf(l *natLoop, phi *ssa.Phi, v ssa.Value, _ map[ssa.Value]bool) int {
	lo, hi, ok := offsetRange(l, phi, v, map[ssa.Value]bool{})
	switch {
	case !ok:
		return 0
	case lo >= 1:
		return 1
	case hi <= -1:
		return -1
	}
	return 0
}

func backEdgeSources(l *natLoop) []*ssa.BasicBlock {
	var out []*ssa.BasicBlock
	for _, p := range l.header.Preds {
		if l.blocks[p] {
			out = append(out, p)
		}
	}
	return out
}

// exitTests lists the If blocks of the loop that have a successor outside the
// loop and dominate every back-edge source (so they are evaluated on every
// iteration).
func exitTests(l *natLoop) []*ssa.If {
	var out []*ssa.If
	srcs := backEdgeSources(l)
	for b := range l.blocks {
		iff, ok := b.Instrs[len(b.Instrs)-1].(*ssa.If)
		if !ok {
			continue
		}
		leaves := false
		for _, s := range b.Succs {
			if !l.blocks[s] {
				leaves = true
			}
		}
		if !leaves {
			continue
		}
		dom := true
		for _, s := range srcs {
			if !b.Dominates(s) {
				dom = false
			}
		}
		if dom {
			out = append(out, iff)
		}
	}
	sort.Slice(out, func(i, j int) bool { return out[i].Block().Index < out[j].Block().Index })
	return out
}

func classifyLoop(l *natLoop) (string, string) {
	// range over map / string / channel-free iterator
	for _, in := range l.header.Instrs {
		if nx, ok := in.(*ssa.Next); ok {
			if rg, ok := nx.Iter.(*ssa.Range); ok {
				if _, isChan := rg.X.Type().Underlying().(*types.Chan); !isChan {
					return "range", "range over " + rg.X.Type().String()
				}
			}
		}
	}
	for b := range l.blocks {
		for _, in := range b.Instrs {
			if nx, ok := in.(*ssa.Next); ok && b != l.header {
				_ = nx
			}
		}
	}
	tests := exitTests(l)
	var phis []*ssa.Phi
	for _, in := range l.header.Instrs {
		if phi, ok := in.(*ssa.Phi); ok {
			phis = append(phis, phi)
		}
	}
	// counted
	for _, phi := range phis {
		if b, ok := phi.Type().Underlying().(*types.Basic); !ok || b.Info()&types.IsInteger == 0 {
			continue
		}
		dir := 2
		okPhi := true
		for i, e := range phi.Edges {
			if !l.blocks[l.header.Preds[i]] {
				continue
			}
			d := stepOf(l, phi, e, map[ssa.Value]bool{})
			if d == 0 || d == 3 || d == 2 {
				okPhi = false
				break
			}
			if dir == 2 {
				dir = d
			} else if dir != d {
				okPhi = false
			}
		}
		if !okPhi || dir == 2 {
			continue
		}
		for _, t := range tests {
			cmp, ok := t.Cond.(*ssa.BinOp)
			if !ok {
				continue
			}
			var bound ssa.Value
			op := cmp.Op
			derived := func(v ssa.Value) bool {
				if v == phi {
					return true
				}
				// the incremented value itself (range-over-slice lowering tests i+1 < len)
				d := stepOf(l, phi, v, map[ssa.Value]bool{})
				return d == dir
			}
			switch {
			case derived(cmp.X):
				bound = cmp.Y
			case derived(cmp.Y):
				bound = cmp.X
				switch op { // mirror
				case token.LSS:
					op = token.GTR
				case token.LEQ:
					op = token.GEQ
				case token.GTR:
					op = token.LSS
				case token.GEQ:
					op = token.LEQ
				}
			default:
				continue
			}
			// which successor stays in the loop?
			stayTrue := l.blocks[t.Block().Succs[0]]
			stayFalse := l.blocks[t.Block().Succs[1]]
			if stayTrue == stayFalse {
				continue
			}
			if !stayTrue { // loop continues when the condition is false: negate
				switch op {
				case token.LSS:
					op = token.GEQ
				case token.LEQ:
					op = token.GTR
				case token.GTR:
					op = token.LEQ
				case token.GEQ:
					op = token.LSS
				case token.NEQ:
					op = token.EQL
				case token.EQL:
					op = token.NEQ
				}
			}
			good := (dir == 1 && (op == token.LSS || op == token.LEQ)) || (dir == -1 && (op == token.GTR || op == token.GEQ))
			if !good {
				continue
			}
			if loopInvariantBound(l, bound, 0) {
				return "counted", fmt.Sprintf("%s steps by a constant towards a loop-invariant bound (%s)", phi.Name(), cmp.String())
			}
		}
	}
	for _, phi := range phis {
		if b, ok := phi.Type().Underlying().(*types.Basic); ok && b.Kind() == types.String && prefixStrip(l, phi, tests) {
			return "consume", phi.Name() + " loses the non-empty literal prefix the loop test has just found"
		}
	}
	for _, phi := range phis {
		if b, ok := phi.Type().Underlying().(*types.Basic); ok && b.Kind() == types.String && cutStrip(l, phi) {
			return "consume", phi.Name() + " is replaced by what strings.CutPrefix/CutSuffix leaves after removing a non-empty literal, and only when it was found"
		}
	}
	// consume
	for _, phi := range phis {
		switch u := phi.Type().Underlying().(type) {
		case *types.Slice:
		case *types.Basic:
			if u.Kind() != types.String {
				continue
			}
		default:
			continue
		}
		shrinks := true
		n := 0
		for i, e := range phi.Edges {
			if !l.blocks[l.header.Preds[i]] {
				continue
			}
			n++
			if !strictSub(l, phi, e, map[ssa.Value]bool{}) {
				shrinks = false
			}
		}
		if !shrinks || n == 0 {
			continue
		}
		for _, t := range tests {
			if lenTestOf(t.Cond, phi) {
				return "consume", fmt.Sprintf("%s is replaced by a strictly shorter sub-slice of itself on every iteration and the loop ends when it is empty", phi.Name())
			}
		}
	}
	return "", ""
}

// strictSub: v is phi[k:] or phi[:len(phi)-k] with constant k ≥ 1 (through inner phis).
func strictSub(l *natLoop, phi *ssa.Phi, v ssa.Value, seen map[ssa.Value]bool) bool {
	if seen[v] {
		return true
	}
	seen[v] = true
	switch x := v.(type) {
	case *ssa.Slice:
		if x.X != phi {
			return false
		}
		if x.Low != nil {
			if k, ok := constIntOf(x.Low); ok && k >= 1 {
				return true
			}
			// x[size:] with size from utf8.DecodeRune*(x): at least 1 for a non-empty x (documented)
			if ex, ok := x.Low.(*ssa.Extract); ok && ex.Index == 1 {
				if c, ok := ex.Tuple.(*ssa.Call); ok {
					if callee := c.Call.StaticCallee(); callee != nil && (callee.String() == "unicode/utf8.DecodeRune" || callee.String() == "unicode/utf8.DecodeRuneInString") && c.Call.Args[0] == phi {
						return true
					}
				}
			}
		}
		if x.High != nil {
			if bo, ok := x.High.(*ssa.BinOp); ok && bo.Op == token.SUB {
				if k, ok := constIntOf(bo.Y); ok && k >= 1 {
					if c, ok := bo.X.(*ssa.Call); ok {
						if b, ok := c.Call.Value.(*ssa.Builtin); ok && b.Name() == "len" && c.Call.Args[0] == phi {
							return true
						}
					}
				}
			}
		}
	case *ssa.Phi:
		if x == phi || !inLoopDef(l, x) {
			return false
		}
		for _, e := range x.Edges {
			if !strictSub(l, phi, e, seen) {
				return false
			}
		}
		return true
	case *ssa.Extract:
		// rest, err = asn1.Unmarshal(rest, &v): on success the remainder is strictly
		// shorter (an element has at least an identifier and a length octet), on
		// failure it is nil — either way shorter than a non-empty input (documented)
		if c, ok := x.Tuple.(*ssa.Call); ok && x.Index == 0 {
			if callee := c.Call.StaticCallee(); callee != nil && decoderFuncs[callee.String()] && len(c.Call.Args) >= 1 && c.Call.Args[0] == phi {
				return true
			}
		}
	}
	return false
}

var decoderFuncs = map[string]bool{
	"encoding/asn1.Unmarshal": true, "encoding/asn1.UnmarshalWithParams": true,
	"github.com/zmap/zcrypto/encoding/asn1.Unmarshal": true, "github.com/zmap/zcrypto/encoding/asn1.UnmarshalWithParams": true,
}

// prefixStrip: the loop is `for strings.HasPrefix(x, lit) { x = x[len(lit):] }`
// (or TrimPrefix with the same non-empty literal): each iteration removes the
// non-empty prefix it has just tested for.
func prefixStrip(l *natLoop, phi *ssa.Phi, tests []*ssa.If) bool {
	for _, t := range tests {
		c, ok := t.Cond.(*ssa.Call)
		if !ok {
			continue
		}
		callee := c.Call.StaticCallee()
		if callee == nil || (callee.String() != "strings.HasPrefix" && callee.String() != "bytes.HasPrefix") || c.Call.Args[0] != phi {
			continue
		}
		lit, ok := c.Call.Args[1].(*ssa.Const)
		if !ok || lit.Value == nil || lit.Value.Kind() != constant.String || constant.StringVal(lit.Value) == "" {
			continue
		}
		n := int64(len(constant.StringVal(lit.Value)))
		if !l.blocks[t.Block().Succs[0]] {
			continue // must stay in the loop on true
		}
		all := true
		cnt := 0
		for i, e := range phi.Edges {
			if !l.blocks[l.header.Preds[i]] {
				continue
			}
			cnt++
			good := false
			switch x := e.(type) {
			case *ssa.Slice:
				if k, ok := constIntOf(x.Low); x.X == phi && x.Low != nil && ok && k >= 1 && k <= n && x.High == nil {
					good = true
				}
			case *ssa.Call:
				if cc := x.Call.StaticCallee(); cc != nil && (cc.String() == "strings.TrimPrefix" || cc.String() == "bytes.TrimPrefix") && x.Call.Args[0] == phi {
					if l2, ok := x.Call.Args[1].(*ssa.Const); ok && l2.Value != nil && l2.Value.Kind() == constant.String && constant.StringVal(l2.Value) == constant.StringVal(lit.Value) {
						good = true
					}
				}
			}
			if !good {
				all = false
			}
		}
		if all && cnt > 0 {
			return true
		}
	}
	return false
}

// cutStrip: every in-loop edge of phi is the remainder of
// strings.CutPrefix / CutSuffix(phi, <non-empty literal>) and the edge is taken
// only under that call's found == true (otherwise the loop is left): each
// iteration shortens the string by len(literal) >= 1.
func cutStrip(l *natLoop, phi *ssa.Phi) bool {
	cnt := 0
	for i, e := range phi.Edges {
		pred := l.header.Preds[i]
		if !l.blocks[pred] {
			continue
		}
		cnt++
		ex, ok := e.(*ssa.Extract)
		if !ok || ex.Index != 0 {
			return false
		}
		call, ok := ex.Tuple.(*ssa.Call)
		if !ok || len(call.Call.Args) != 2 || call.Call.Args[0] != ssa.Value(phi) {
			return false
		}
		callee := call.Call.StaticCallee()
		if callee == nil || (callee.String() != "strings.CutPrefix" && callee.String() != "strings.CutSuffix" && callee.String() != "bytes.CutPrefix" && callee.String() != "bytes.CutSuffix") {
			return false
		}
		lit, ok := call.Call.Args[1].(*ssa.Const)
		if !ok || lit.Value == nil || lit.Value.Kind() != constant.String || constant.StringVal(lit.Value) == "" {
			return false
		}
		// the back edge is dominated by the found == true edge
		guarded := false
		for _, ref := range *call.Referrers() {
			fx, ok := ref.(*ssa.Extract)
			if !ok || fx.Index != 1 {
				continue
			}
			for _, r2 := range *fx.Referrers() {
				iff, ok := r2.(*ssa.If)
				if !ok {
					continue
				}
				t := iff.Block().Succs[0]
				if len(t.Preds) == 1 && (t == pred || t.Dominates(pred)) {
					guarded = true
				}
			}
			// `if !found { return }`: the negation is the branch condition
			for _, r2 := range *fx.Referrers() {
				if u, ok := r2.(*ssa.UnOp); ok && u.Op == token.NOT {
					for _, r3 := range *u.Referrers() {
						if iff, ok := r3.(*ssa.If); ok {
							f := iff.Block().Succs[1]
							if len(f.Preds) == 1 && (f == pred || f.Dominates(pred)) {
								guarded = true
							}
						}
					}
				}
			}
		}
		if !guarded {
			return false
		}
	}
	return cnt > 0
}

func lenTestOf(cond ssa.Value, phi *ssa.Phi) bool {
	cmp, ok := cond.(*ssa.BinOp)
	if !ok {
		return false
	}
	isLen := func(v ssa.Value) bool {
		c, ok := v.(*ssa.Call)
		if !ok {
			return false
		}
		b, ok := c.Call.Value.(*ssa.Builtin)
		return ok && b.Name() == "len" && c.Call.Args[0] == phi
	}
	return (isLen(cmp.X) || isLen(cmp.Y)) && (cmp.Op == token.GTR || cmp.Op == token.NEQ || cmp.Op == token.GEQ || cmp.Op == token.LSS || cmp.Op == token.EQL || cmp.Op == token.LEQ)
}

// terminationScope: product packages whose code a lint run can execute.
func terminationScope(f *ssa.Function) bool {
	if f.Pkg == nil || len(f.Blocks) == 0 {
		return false
	}
	p := f.Pkg.Pkg.Path()
	return p == modPath || p == modPath+"/lint" || p == modPath+"/util" || strings.HasPrefix(p, modPath+"/lints/")
}

type termLedgerLine struct {
	key, arg string
	used     bool
}

func loadTermLedger() map[string]*termLedgerLine {
	out := map[string]*termLedgerLine{}
	f, err := os.Open(filepath.Join(verifDir(), "ledger", "termination.txt"))
	if err != nil {
		return out
	}
	defer f.Close()
	sc := bufio.NewScanner(f)
	for sc.Scan() {
		line := strings.TrimSpace(sc.Text())
		if line == "" || strings.HasPrefix(line, "#") {
			continue
		}
		parts := strings.SplitN(line, " :: ", 2)
		if len(parts) != 2 {
			continue
		}
		out[parts[0]] = &termLedgerLine{key: parts[0], arg: parts[1]}
	}
	return out
}

// loopShape: a position-free description of an unrecognised loop — the
// resolved callees and comparison operators of its exit tests.
func loopShape(l *natLoop) string {
	set := map[string]bool{}
	for _, t := range exitTests(l) {
		for _, tok := range strings.FieldsFunc(condShape(t.Cond, 0), func(r rune) bool { return r == '(' || r == ')' || r == '&' }) {
			tok = strings.TrimPrefix(tok, "github.com/zmap/zcrypto/")
			if tok != "" {
				set[tok] = true
			}
		}
	}
	if len(set) == 0 {
		return "no-dominating-exit-test"
	}
	var parts []string
	for k := range set {
		parts = append(parts, k)
	}
	sort.Strings(parts)
	return strings.Join(parts, ",")
}

func condShape(v ssa.Value, d int) string {
	if d > 3 {
		return "…"
	}
	switch x := v.(type) {
	case *ssa.BinOp:
		return "(" + condShape(x.X, d+1) + x.Op.String() + condShape(x.Y, d+1) + ")"
	case *ssa.UnOp:
		return x.Op.String() + condShape(x.X, d+1)
	case *ssa.Call:
		if c := x.Call.StaticCallee(); c != nil {
			return fname(c)
		}
		if b, ok := x.Call.Value.(*ssa.Builtin); ok {
			return b.Name()
		}
		if x.Call.IsInvoke() {
			return "invoke:" + x.Call.Method.Name()
		}
		return "dyncall"
	case *ssa.Const:
		if x.Value == nil {
			return "nil"
		}
		return x.Value.String()
	case *ssa.Phi:
		return "φ"
	case *ssa.Extract:
		return condShape(x.Tuple, d+1) + "#" + fmt.Sprint(x.Index)
	}
	return strings.TrimPrefix(fmt.Sprintf("%T", v), "*ssa.")
}

func c01Termination(c *Ctx, r *Report) {
	ledger := loadTermLedger()
	nLoops, nRange, nCounted, nConsume, nLedger := 0, 0, 0, 0, 0
	var fns []*ssa.Function
	for _, f := range modFunctions(c) {
		if terminationScope(f) {
			fns = append(fns, f)
		}
	}
	sort.Slice(fns, func(i, j int) bool { return fname(fns[i]) < fname(fns[j]) })
	for _, f := range fns {
		ord := 0
		for _, l := range naturalLoops(f) {
			nLoops++
			class, why := classifyLoop(l)
			pos := loopPos(l)
			switch class {
			case "range":
				nRange++
			case "counted":
				nCounted++
			case "consume":
				nConsume++
			}
			if class != "" {
				r.OK("loop-bounded", fmt.Sprintf("%s|%s#%d", fname(f), class, l.header.Index), pos, false, why)
				continue
			}
			ord++
			key := fmt.Sprintf("%s|%s|#%d", fname(f), loopShape(l), ord)
			if ll := ledger[key]; ll != nil {
				ll.used = true
				nLedger++
				if why := termWitness(c, ll.arg, l); why != "" {
					r.Bad("loop-bounded", key, pos, "the reviewed ranking argument's witness no longer holds: "+why)
				} else {
					r.OK("loop-bounded", key, pos, true, "reviewed: "+ll.arg)
				}
				continue
			}
			// the loop was re-shaped (for cond → for { … break }): a reviewed line of the same
			// function whose witness — re-checked on this very loop — still holds carries over
			matched := false
			for k2, ll := range ledger {
				if ll.used || !strings.HasPrefix(k2, fname(f)+"|") || !strings.HasPrefix(ll.arg, "[witness=") {
					continue
				}
				if termWitness(c, ll.arg, l) == "" {
					ll.used, matched = true, true
					nLedger++
					r.OK("loop-bounded", key, pos, true, "reviewed (as "+k2+", witness re-checked on the re-shaped loop): "+ll.arg)
					break
				}
			}
			if matched {
				continue
			}
			r.Bad("loop-bounded", key, pos, fmt.Sprintf("loop in %s has no recognised bound (not a range loop, not a counter stepping towards a loop-invariant bound, not a strictly shrinking slice) and no reviewed ranking argument in ledger/termination.txt: a lint run may not terminate on some input", fname(f)))
		}
	}
	// recursion: cycles among module functions through static calls
	cyc := staticCycles(fns)
	for _, k := range cyc {
		key := "recursion|" + k
		if ll := ledger[key]; ll != nil {
			ll.used = true
			nLedger++
			if why := termWitness(c, ll.arg, nil); why != "" {
				r.Bad("loop-bounded", key, token.NoPos, "the reviewed bound's witness no longer holds: "+why)
			} else {
				r.OK("loop-bounded", key, token.NoPos, true, "reviewed: "+ll.arg)
			}
			continue
		}
		r.Bad("loop-bounded", key, token.NoPos, "recursive call cycle "+k+" without a reviewed bound in ledger/termination.txt")
	}
	for k, ll := range ledger {
		if !ll.used {
			fmt.Printf("note: ledger/termination.txt line no longer matches a loop: %s\n", k)
		}
	}
	r.Floor("loops examined for a bound", 250, nLoops)
	r.Extra["termination"] = map[string]int{"loops": nLoops, "range": nRange, "counted": nCounted, "consume": nConsume, "reviewed_ledger": nLedger, "recursive_cycles": len(cyc)}
}

func loopPos(l *natLoop) token.Pos {
	for _, in := range l.header.Instrs {
		if in.Pos().IsValid() {
			return in.Pos()
		}
	}
	var bs []*ssa.BasicBlock
	for b := range l.blocks {
		bs = append(bs, b)
	}
	sort.Slice(bs, func(i, j int) bool { return bs[i].Index < bs[j].Index })
	for _, b := range bs {
		for _, in := range b.Instrs {
			if in.Pos().IsValid() {
				return in.Pos()
			}
		}
	}
	return l.fn.Pos()
}

// staticCycles: strongly connected components (size > 1, or self-calls) of the
// static call relation among fns.
func staticCycles(fns []*ssa.Function) []string {
	idx := map[*ssa.Function]int{}
	for i, f := range fns {
		idx[f] = i
	}
	adj := make([][]int, len(fns))
	for i, f := range fns {
		seen := map[int]bool{}
		var visit func(g *ssa.Function)
		visit = func(g *ssa.Function) {
			allInstrs(g, func(in ssa.Instruction) {
				if cc, ok := in.(ssa.CallInstruction); ok {
					if callee := cc.Common().StaticCallee(); callee != nil {
						if j, ok := idx[callee]; ok && !seen[j] {
							seen[j] = true
							adj[i] = append(adj[i], j)
						}
					}
				}
				if mc, ok := in.(*ssa.MakeClosure); ok {
					if j, ok := idx[mc.Fn.(*ssa.Function)]; ok && !seen[j] {
						seen[j] = true
						adj[i] = append(adj[i], j)
					}
				}
			})
		}
		visit(f)
	}
	// Tarjan
	index := 0
	var stack []int
	on := make([]bool, len(fns))
	ix := make([]int, len(fns))
	low := make([]int, len(fns))
	for i := range ix {
		ix[i] = -1
	}
	var out []string
	var strong func(v int)
	strong = func(v int) {
		ix[v], low[v] = index, index
		index++
		stack = append(stack, v)
		on[v] = true
		for _, w := range adj[v] {
			if ix[w] < 0 {
				strong(w)
				if low[w] < low[v] {
					low[v] = low[w]
				}
			} else if on[w] && ix[w] < low[v] {
				low[v] = ix[w]
			}
		}
		if low[v] == ix[v] {
			var comp []string
			for {
				w := stack[len(stack)-1]
				stack = stack[:len(stack)-1]
				on[w] = false
				if !isNewFunc(fns[w]) {
					comp = append(comp, fname(fns[w])) // helpers newer than the rules are part of their callers' cycle
				}
				if w == v {
					break
				}
			}
			if len(comp) == 0 {
				comp = append(comp, fname(fns[v]))
			}
			self := false
			for _, w := range adj[v] {
				if w == v {
					self = true
				}
			}
			if len(comp) > 1 || self || isNewFunc(fns[v]) && len(comp) >= 1 && comp[0] != fname(fns[v]) {
				sort.Strings(comp)
				out = append(out, strings.Join(comp, "+"))
			}
		}
	}
	for i := range fns {
		if ix[i] < 0 {
			strong(i)
		}
	}
	sort.Strings(out)
	return out
}

// termWitness re-checks the machine-checkable part of a reviewed argument.
// Returns "" when it holds (or the line carries no witness).
func termWitness(c *Ctx, arg string, l *natLoop) string {
	if !strings.HasPrefix(arg, "[witness=") {
		return ""
	}
	name := arg[len("[witness="):strings.Index(arg, "]")]
	switch name {
	case "field-consumed-by-decoder":
		// some address X is, inside the loop, stored with Extract#0 of a decoder
		// call whose first argument is a load of the same X; the decoder's error is
		// tested in the loop and its failure leaves the loop; and a block that
		// dominates every back edge performs that store
		if l == nil {
			return "witness needs a loop"
		}
		srcs := backEdgeSources(l)
		for b := range l.blocks {
			for _, in := range b.Instrs {
				st, ok := in.(*ssa.Store)
				if !ok {
					continue
				}
				ex, ok := st.Val.(*ssa.Extract)
				if !ok || ex.Index != 0 {
					continue
				}
				call, ok := ex.Tuple.(*ssa.Call)
				if !ok {
					continue
				}
				callee := call.Call.StaticCallee()
				if callee == nil || !decoderFuncs[callee.String()] {
					continue
				}
				ld, ok := call.Call.Args[0].(*ssa.UnOp)
				if !ok || ld.Op != token.MUL || apath(ld.X) != apath(st.Addr) {
					continue
				}
				dom := true
				for _, s := range srcs {
					if !b.Dominates(s) {
						dom = false
					}
				}
				if !dom {
					continue
				}
				// the error result is tested and a non-nil error leaves the loop
				for _, ref := range *call.Referrers() {
					e2, ok := ref.(*ssa.Extract)
					if !ok || e2.Index != 1 {
						continue
					}
					for _, t := range exitTests(l) {
						if usesValue(t.Cond, e2, 0) {
							return ""
						}
					}
				}
			}
		}
		return "no store X = first result of asn1.Unmarshal(X, …) on every iteration with its error ending the loop"
	case "acyclic-config-types":
		return configTypesAcyclic(c)
	}
	return "unknown witness " + name
}

func usesValue(v, target ssa.Value, d int) bool {
	if v == target {
		return true
	}
	if d > 4 {
		return false
	}
	switch x := v.(type) {
	case *ssa.BinOp:
		return usesValue(x.X, target, d+1) || usesValue(x.Y, target, d+1)
	case *ssa.UnOp:
		return usesValue(x.X, target, d+1)
	case *ssa.Phi:
		for _, e := range x.Edges {
			if usesValue(e, target, d+1) {
				return true
			}
		}
	}
	return false
}

// configTypesAcyclic: the struct types the configuration code recurses over —
// every type implementing lint.GlobalConfiguration and the receiver type of
// every Configure method in the module — have an acyclic field-type graph
// (through struct, pointer, slice, array and map element types), and no
// GlobalConfiguration type has a field implementing GlobalConfiguration.
func configTypesAcyclic(c *Ctx) string {
	lintPkg := c.Pkg("lint")
	gcObj := lintPkg.Types.Scope().Lookup("GlobalConfiguration")
	if gcObj == nil {
		return "lint.GlobalConfiguration not found"
	}
	gc, ok := gcObj.Type().Underlying().(*types.Interface)
	if !ok {
		return "lint.GlobalConfiguration is not an interface"
	}
	implementsGC := func(t types.Type) bool {
		return types.Implements(t, gc) || types.Implements(types.NewPointer(t), gc)
	}
	var roots []*types.Named
	var globals []*types.Named
	for _, p := range c.Mod {
		sc := p.Types.Scope()
		for _, n := range sc.Names() {
			tn, ok := sc.Lookup(n).(*types.TypeName)
			if !ok || tn.IsAlias() {
				continue
			}
			named, ok := tn.Type().(*types.Named)
			if !ok {
				continue
			}
			if _, isStruct := named.Underlying().(*types.Struct); !isStruct {
				continue
			}
			if implementsGC(named) {
				globals = append(globals, named)
				roots = append(roots, named)
				continue
			}
			for i := 0; i < named.NumMethods(); i++ {
				if named.Method(i).Name() == "Configure" {
					roots = append(roots, named)
				}
			}
		}
	}
	if len(roots) < 4 {
		return fmt.Sprintf("only %d configuration types found", len(roots))
	}
	var walk func(t types.Type, path map[string]bool, depth int) string
	walk = func(t types.Type, path map[string]bool, depth int) string {
		if depth > 40 {
			return "type nesting deeper than 40"
		}
		switch x := t.(type) {
		case *types.Named:
			if x.Obj().Pkg() == nil || !isModPkg(x.Obj().Pkg()) {
				return "" // library types (time.Time, big.Int …) are not descended by value into cycles the module controls
			}
			k := x.String()
			if path[k] {
				return "type cycle through " + k
			}
			path[k] = true
			defer delete(path, k)
			return walk(x.Underlying(), path, depth+1)
		case *types.Pointer:
			return walk(x.Elem(), path, depth+1)
		case *types.Slice:
			return walk(x.Elem(), path, depth+1)
		case *types.Array:
			return walk(x.Elem(), path, depth+1)
		case *types.Map:
			return walk(x.Elem(), path, depth+1)
		case *types.Struct:
			for i := 0; i < x.NumFields(); i++ {
				if w := walk(x.Field(i).Type(), path, depth+1); w != "" {
					return w
				}
			}
		}
		return ""
	}
	for _, r := range roots {
		if w := walk(r, map[string]bool{}, 0); w != "" {
			return r.String() + ": " + w
		}
	}
	for _, g := range globals {
		st := g.Underlying().(*types.Struct)
		for i := 0; i < st.NumFields(); i++ {
			ft := st.Field(i).Type()
			if p, ok := ft.(*types.Pointer); ok {
				ft = p.Elem()
			}
			if implementsGC(ft) {
				return g.String() + " has a field that is itself a GlobalConfiguration (" + st.Field(i).Name() + ")"
			}
		}
	}
	return ""
}
