package main

import (
	"fmt"
	"go/constant"
	"go/types"
	"os"
	"path/filepath"
	"regexp"
	"strings"

	"golang.org/x/tools/go/ssa"
)

func init() { register("C01", runC01) }

var c01Kinds = []struct{ fn, lookup, exec, ex string }{
	{"executeCertificate", "CertificateLints", "(*lint.CertificateLint).Execute", "LintCertificateEx"},
	{"executeRevocationList", "RevocationListLints", "(*lint.RevocationListLint).Execute", "LintRevocationListEx"},
	{"executeOcspResponse", "OcspResponseLints", "(*lint.OcspResponseLint).Execute", "LintOcspResponseEx"},
}

func runC01(c *Ctx, tier string) {
	r := NewReport("C01", "other", tier, c)
	r.Explanation = "Structural necessary-and-sufficient conditions for the shape of the result set, decided for every input: (1) result-loop: for each of executeCertificate/executeRevocationList/executeOcspResponse the decision table (loop unrolled twice, then cut) shows Results is a fresh map, the loop ranges over registry.<Kind>Lints().Lints(), and every iteration performs exactly: Execute(elem, o, registry.GetConfiguration()), res.LintMetadata = elem.LintMetadata, Results[elem.Name] = res, updateErrorStatePresent(res) — no branch can skip any of them, nothing but the index is carried between iterations (induction), and no other function in the module writes Results or the four flags; the three register siblings reject duplicate names before any update, so the name→result map is lossless, and the registry's read API (Lints, Names, ...) returns exactly the tables register fills (no stale copy). (2) non-nil: the status-flow analysis shows no registered Execute (377) nor the framework's can return nil. (3) seven-statuses: every status that can reach a returned result is one of the seven named constants — never Reserved (zero value, literal without Status), out-of-range, converted or computed; a zero-initialised status cell is accepted only if every path leaving it unwritten contradicts the lint's own CheckApplies table. (4) flags-table: the decision table of updateErrorStatePresent over Status ∈ {-1..8} sets exactly NoticesPresent/WarningsPresent/ErrorsPresent/FatalsPresent for Notice/Warn/Error/Fatal and nothing otherwise; flags are never reset. (5) entry points: Lint*Ex return nil only for a nil object, substitute the global registry for a nil one, run the matching execute* on a new ResultSet and stamp Version = the major version of the module path. (6) the certificate path's recover net. (7) loop-bounded ('no hang'): every natural loop (346) and every static call cycle in packages zlint, lint, util and lints/* is bounded by a form re-checked on the SSA — a range iterator; a counter φ(init, i±c) with c ≥ 1 on every in-loop path and a test against a loop-invariant bound that dominates every back edge; a slice/string that every iteration replaces by a strict sub-slice of itself (constant cut, utf8.DecodeRune size, remainder of asn1.Unmarshal, the literal prefix the loop test just found) — or is one of five loops/cycles listed in ledger/termination.txt with a ranking argument and a machine re-checked witness (field consumed by the decoder with its error leaving the loop; configuration types acyclic). A loop of any other shape is a violation. Library callees are assumed to terminate. Does not decide panic-freedom of CRL/OCSP lints (C02)."
	r.Rule("result-loop: every iteration stores exactly one result under the lint's own name with its metadata and updates the flags")
	r.Rule("results-writers: only execute*/updateErrorStatePresent/Lint*Ex write ResultSet fields")
	r.Rule("non-nil: no Execute returns nil")
	r.Rule("seven-statuses: only NA, NE, Pass, Notice, Warn, Error, Fatal reach a result")
	r.Rule("flags-table: status → flag mapping exact")
	r.Rule("entry-points: nil guards, registry default, Version = module major version")
	r.Rule("recover-wrapper; register-duplicate-name")
	r.Rule("no-net-panic-ledger: in code reachable from CRL / OCSP lints (no recovery net) every panic obligation of C02 (unproven bounds, unchecked assertion, explicit panic, division, nil-able dereference, callee length requirement) is discharged")
	r.Rule("loop-bounded: every loop / call cycle reachable in lint, util, lints/*, zlint has a recognised bound or a reviewed, witnessed ledger line")
	r.Trusted = []string{"go/ssa", "Go map assignment semantics", "induction over the range loop (only the index is loop-carried — checked)"}
	r.Assumptions = []string{"library functions called from lint code terminate (regexp, asn1, idna, big.Int, strings …); termination of zlint's own loops is decided by the loop-bounded rule"}

	c01Loops(c, r)
	c01Writers(c, r)
	c12Registry(c, r) // registry coherence: what Lints()/Names() return is what register filled
	cs := BuildCensus(c)
	r.Floor("registrations", 370, len(cs.Regs))
	c01Statuses(c, r, cs)
	c01Flags(c, r)
	c01Entry(c, r)
	recoverWrapper(c, r)
	c01Termination(c, r)
	// "no panic reaches the caller": certificate lints run under the recover net
	// (recover-wrapper), CRL and OCSP lints do not — for the functions reachable from
	// them every panic obligation of C02's ledger must be discharged
	noNet := c02NoNetKinds(c, cs)
	nNoNet := 0
	c02Core(c, r, cs, func(s *panicSite) bool {
		if noNet[s.fn] {
			nNoNet++
			return true
		}
		return false
	})
	r.Extra["panic_obligations_in_code_without_recovery_net"] = nNoNet
	r.Floor("functions reachable from CRL/OCSP lints", 20, len(noNet))
	r.Finish()
}

func c01Loops(c *Ctx, r *Report) {
	n := 0
	for _, k := range c01Kinds {
		fn := c.Method("", "ResultSet", k.fn)
		n++
		id := k.fn
		outs, abort := Enumerate(fn, SymOpts{Inline: func(*ssa.Function) bool { return false }, LoopBound: 1})
		if abort != "" {
			r.Unk("result-loop", id, fn.Pos(), abort)
			continue
		}
		// loop-carried state: every phi must be an int (the range index)
		carried := ""
		allInstrs(fn, func(in ssa.Instruction) {
			if phi, ok := in.(*ssa.Phi); ok {
				if b, ok := phi.Type().Underlying().(*types.Basic); !ok || b.Kind() != types.Int {
					carried = phi.Comment + " " + phi.Type().String()
				}
			}
		})
		if carried != "" {
			r.Bad("result-loop", id+"|carried", fn.Pos(), "a value other than the range index is carried between iterations ("+carried+"): one lint's run can influence the next")
			continue
		}
		z, o, reg := fn.Params[0].Name(), fn.Params[1].Name(), fn.Params[2].Name()
		lints := fmt.Sprintf("invoke:Lints(invoke:%s(%s))", k.lookup, reg)
		sawIter := map[int]bool{}
		allOK := true
		for _, out := range outs {
			if out.Kind == "abort" || out.Kind == "panic" {
				r.Unk("result-loop", id, out.Pos, "path not understood: "+out.Kind+" "+out.Why)
				allOK = false
				continue
			}
			// conditions: only the loop bound tests
			for _, cd := range out.Conds {
				s := cd.T.String()
				if !(cd.T.Op == "bin" && cd.T.Name == "<" && s == fmt.Sprintf("(%s < builtin:len(%s))", cd.T.Args[0], lints)) {
					r.Bad("result-loop", id+"|branch", out.Pos, "the loop branches on "+s+": some lints may be skipped or stored conditionally")
					allOK = false
				}
			}
			// parse trace
			var mapObj *T
			iter := -1
			type itst struct {
				exec            *T
				meta, put, flag bool
			}
			var its []*itst
			bad := ""
			for _, ev := range out.Trace {
				switch {
				case ev.Kind == "call" && ev.Name == "invoke:Names":
				case ev.Kind == "call" && ev.Name == "invoke:"+k.lookup:
				case ev.Kind == "call" && ev.Name == "invoke:Lints":
				case ev.Kind == "store" && ev.Name == "&"+z+".Results":
					if ev.Args[0].Op != "obj" || iter >= 0 {
						bad = "Results is not initialised with a fresh map before the loop"
					}
					mapObj = ev.Args[0]
				case ev.Kind == "call" && ev.Name == "invoke:GetConfiguration":
				case ev.Kind == "call" && ev.Name == k.exec:
					iter++
					elem := fmt.Sprintf("%s[%d]", lints, iter)
					if len(ev.Args) != 3 || ev.Args[0].String() != elem || ev.Args[1].String() != o || !strings.HasPrefix(ev.Args[2].String(), "invoke:GetConfiguration") || !strings.HasSuffix(ev.Args[2].String(), "("+reg+")") {
						bad = fmt.Sprintf("iteration %d must run Execute(%s, %s, %s.GetConfiguration()); found %v", iter, elem, o, reg, ev.Args)
					}
					its = append(its, &itst{exec: ev.Result})
				case ev.Kind == "store" && iter >= 0 && ev.Name == "&"+its[iter].exec.String()+".LintMetadata":
					elem := fmt.Sprintf("%s[%d]", lints, iter)
					if ev.Args[0].String() != elem+".LintMetadata" {
						bad = "result receives metadata of " + ev.Args[0].String() + " instead of the lint that produced it"
					}
					its[iter].meta = true
				case ev.Kind == "mapupdate" && iter >= 0 && mapObj != nil && ev.Name == mapObj.String():
					elem := fmt.Sprintf("%s[%d]", lints, iter)
					if ev.Args[0].String() != elem+".LintMetadata.Name" || ev.Args[1] != its[iter].exec {
						bad = fmt.Sprintf("Results[%s] = %s: must be keyed by the running lint's name and hold its own result", ev.Args[0], ev.Args[1])
					}
					if its[iter].put {
						bad = "two stores into Results in one iteration"
					}
					its[iter].put = true
				case ev.Kind == "call" && ev.Name == "(*zlint.ResultSet).updateErrorStatePresent" && iter >= 0:
					if len(ev.Args) != 2 || ev.Args[0].String() != z || ev.Args[1] != its[iter].exec {
						bad = "updateErrorStatePresent not applied to this iteration's result"
					}
					if its[iter].flag {
						bad = "flags updated twice for one result"
					}
					its[iter].flag = true
				default:
					bad = "unexpected effect in the result loop: " + ev.String()
				}
			}
			for i, it := range its {
				sawIter[i] = true
				last := out.Kind == "cut" && i == len(its)-1
				if !last && !(it.meta && it.put && it.flag) {
					bad = fmt.Sprintf("iteration %d: metadata attached=%v, stored in Results=%v, flags updated=%v — all three are required for every lint", i, it.meta, it.put, it.flag)
				}
			}
			if mapObj == nil {
				bad = "Results is never initialised"
			}
			if bad != "" {
				r.Bad("result-loop", id, fn.Pos(), bad)
				allOK = false
			}
			r.Sample(map[string]interface{}{"table_of": fname(fn), "path": out.Summary()})
		}
		if allOK {
			if !sawIter[0] || !sawIter[1] {
				r.Unk("result-loop", id, fn.Pos(), "no path with two iterations was found: loop shape not understood")
			} else {
				r.OK("result-loop", id, fn.Pos(), true, fmt.Sprintf("%d paths; iterations 0 and 1 identical up to the index", len(outs)))
			}
		}
	}
	r.Floor("execute siblings", 3, n)
}

// c01Writers: field-write census on ResultSet.
func c01Writers(c *Ctx, r *Report) {
	rsT := c.Named("", "ResultSet")
	allowed := map[string]map[string]bool{
		"Results":         {"executeCertificate": true, "executeRevocationList": true, "executeOcspResponse": true},
		"NoticesPresent":  {"updateErrorStatePresent": true},
		"WarningsPresent": {"updateErrorStatePresent": true},
		"ErrorsPresent":   {"updateErrorStatePresent": true},
		"FatalsPresent":   {"updateErrorStatePresent": true},
		"Version":         {"LintCertificateEx": true, "LintRevocationListEx": true, "LintOcspResponseEx": true},
		"Timestamp":       {"LintCertificateEx": true, "LintRevocationListEx": true, "LintOcspResponseEx": true},
	}
	n := 0
	isRS := func(t types.Type) bool {
		p, ok := t.Underlying().(*types.Pointer)
		return ok && types.Identical(p.Elem(), rsT)
	}
	for _, f := range modFunctions(c) {
		allInstrs(f, func(in ssa.Instruction) {
			switch x := in.(type) {
			case *ssa.Store:
				fa, ok := x.Addr.(*ssa.FieldAddr)
				if !ok || !isRS(fa.X.Type()) {
					if isRS(x.Addr.Type()) {
						// *z = ResultSet{...}
						n++
						r.Bad("results-writers", fname(f)+"|*", x.Pos(), "whole ResultSet overwritten")
					}
					return
				}
				n++
				fld := fieldVar(fa).Name()
				ok2 := actsFor(c, f, allowed[fld], modPath)
				if ok2 && strings.HasSuffix(fld, "Present") {
					// flags may only be raised, never cleared
					k, isK := x.Val.(*ssa.Const)
					ok2 = isK && k.Value != nil && k.Value.Kind() == constant.Bool && constant.BoolVal(k.Value)
				}
				r.Check(ok2, "results-writers", fname(f)+"|"+fld, x.Pos(), "", "ResultSet."+fld+" is written in "+fname(f)+" (only the execute*/updateErrorStatePresent/Lint*Ex functions may, and flags may only be set to true)")
			case *ssa.MapUpdate:
				if strings.HasSuffix(apath(x.Map), ".Results") {
					if ld, ok := x.Map.(*ssa.UnOp); ok {
						if fa, ok := ld.X.(*ssa.FieldAddr); ok && isRS(fa.X.Type()) {
							n++
							r.Check(actsFor(c, f, allowed["Results"], modPath), "results-writers", fname(f)+"|Results[]", x.Pos(), "", "Results map modified outside the execute* functions")
						}
					}
				}
			case *ssa.Call:
				if b, ok := x.Call.Value.(*ssa.Builtin); ok && (b.Name() == "delete" || b.Name() == "clear") && len(x.Call.Args) > 0 {
					if ld, ok := x.Call.Args[0].(*ssa.UnOp); ok {
						if fa, ok := ld.X.(*ssa.FieldAddr); ok && isRS(fa.X.Type()) {
							n++
							r.Bad("results-writers", fname(f)+"|delete", x.Pos(), "entries are removed from Results")
						}
					}
				}
			}
		})
	}
	r.Floor("ResultSet field writes", 7, n)
}

func c01Statuses(c *Ctx, r *Report, cs *Census) {
	sf := NewStatusFlow(c)
	// framework Execute functions
	type ent struct {
		id string
		fn *ssa.Function
	}
	var ents []ent
	for _, k := range lcKinds {
		ents = append(ents, ent{"lint." + k.Recv + ".Execute", c.Method("lint", k.Recv, "Execute")})
	}
	for _, reg := range cs.Regs {
		if reg.Err != "" {
			r.Unk("census", regLocation(c, reg), reg.Call.Pos(), "registration not understood: "+reg.Err)
			continue
		}
		ents = append(ents, ent{reg.ID(), reg.Execute})
	}
	regBy := map[string]*Reg{}
	for _, reg := range cs.Regs {
		regBy[reg.ID()] = reg
	}
	for _, e := range ents {
		ss := sf.ResultOf(e.fn, 0)
		framework := strings.HasPrefix(e.id, "lint.")
		if ss.Nil {
			r.Bad("non-nil", e.id, ss.NilAt.Pos, "Execute can return nil (from "+ss.NilAt.Fn+"): the result loop would dereference it / the set would hold a null result")
		} else {
			r.OK("non-nil", e.id, e.fn.Pos(), len(ss.Names()) > 1, "")
		}
		bad := false
		for _, u := range ss.Unknown {
			if framework && strings.Contains(u.Why, "dynamic call") && strings.HasSuffix(u.Why, "LintInterface).Execute") {
				continue // the rule body's own result: decided per registered lint below
			}
			r.Unk("seven-statuses", e.id+"|unknown|"+u.Fn, u.Pos, "status not bounded: "+u.Why)
			bad = true
		}
		for b := 0; b < 16; b++ {
			if !ss.Has(b) || (b >= 1 && b <= 7) {
				continue
			}
			if b == 0 && !framework && c01ReservedExcluded(c, regBy[e.id]) {
				r.OK("seven-statuses", e.id+"|reserved-excluded-by-CheckApplies", e.fn.Pos(), true, "every path leaving the status cell unwritten contradicts CheckApplies")
				continue
			}
			bad = true
			name := fmt.Sprintf("out-of-range(%d)", b)
			if b == 0 {
				name = "Reserved"
			}
			o := Origin{}
			if len(ss.Org[b]) > 0 {
				o = ss.Org[b][0]
			}
			r.Bad("seven-statuses", e.id+"|"+name+"|"+o.Fn, o.Pos, "a result can carry status "+name+" (zero value / undefined) — produced in "+o.Fn)
		}
		if !bad {
			r.OK("seven-statuses", e.id, e.fn.Pos(), len(ss.Names()) > 1, ss.String())
		}
	}
}

// c01ReservedExcluded: all paths of Execute returning a result whose Status is
// the constant 0 are contradicted by every CheckApplies-true path (they share
// an atom with opposite polarity).
func c01ReservedExcluded(c *Ctx, reg *Reg) bool {
	if reg == nil {
		return false
	}
	inl := func(f *ssa.Function) bool {
		if !isModFunc(f) || len(f.Blocks) == 0 {
			return false
		}
		// inline same-package helpers and the trivial util tag accessor; keep
		// parsers (GetTimes) as atoms
		if f.Pkg == reg.Execute.Pkg {
			return true
		}
		return f.Name() == "FindTimeType"
	}
	ex, ab1 := Enumerate(reg.Execute, SymOpts{Inline: inl, MaxDepth: 3, MaxPaths: 2000})
	ca, ab2 := Enumerate(reg.CheckApplies, SymOpts{Inline: inl, MaxDepth: 3, MaxPaths: 2000})
	if ab1 != "" || ab2 != "" {
		return false
	}
	// parameter names may differ between the two methods: compare on strings
	// after renaming the object parameter to a common name
	norm := func(fn *ssa.Function, s string) string {
		if len(fn.Params) < 2 {
			return s
		}
		re := regexp.MustCompile(`\b` + regexp.QuoteMeta(fn.Params[1].Name()) + `\b`)
		return re.ReplaceAllString(s, "OBJ")
	}
	var resv [][]Cond
	for _, o := range ex {
		if o.Kind != "return" || len(o.Results) != 1 {
			return false
		}
		res := o.Results[0]
		if res.Op != "obj" {
			continue
		}
		st := o.Field(res, "Status")
		if st == nil {
			// never written: zero
			resv = append(resv, o.Conds)
			continue
		}
		if st.IsConst() && st.K != nil && st.K.ExactString() == "0" {
			resv = append(resv, o.Conds)
		} else if !st.IsConst() {
			return false
		}
	}
	if len(resv) == 0 {
		return false
	}
	var applies [][]Cond
	for _, o := range ca {
		if o.Kind != "return" || len(o.Results) != 1 {
			return false
		}
		v := o.Results[0]
		if v.IsConst() && v.K != nil && v.K.Kind() == constant.Bool {
			if constant.BoolVal(v.K) {
				applies = append(applies, o.Conds)
			}
			continue
		}
		// returns a term: applies when the term is true — add it as a condition
		applies = append(applies, append(append([]Cond(nil), o.Conds...), Cond{v, true}))
	}
	for _, rc := range resv {
		for _, ac := range applies {
			contradict := false
			for _, x := range rc {
				xs := norm(reg.Execute, x.T.String())
				for _, y := range ac {
					t, pol := y.T, y.Val
					for t.Op == "un" && t.Name == "!" {
						t, pol = t.Args[0], !pol
					}
					if norm(reg.CheckApplies, t.String()) == xs && pol != x.Val {
						contradict = true
					}
				}
			}
			if !contradict {
				return false
			}
		}
	}
	return true
}

func c01Flags(c *Ctx, r *Report) {
	fn := c.Method("", "ResultSet", "updateErrorStatePresent")
	outs, abort := Enumerate(fn, SymOpts{})
	if abort != "" {
		r.Unk("flags-table", "updateErrorStatePresent", fn.Pos(), abort)
		return
	}
	z, res := fn.Params[0].Name(), fn.Params[1].Name()
	want := map[int64]string{4: "NoticesPresent", 5: "WarningsPresent", 6: "ErrorsPresent", 7: "FatalsPresent"}
	n := 0
	for s := int64(-1); s <= 8; s++ {
		n++
		oracle := func(t *T) (interface{}, bool) {
			if t.String() == res+".Status" {
				return s, true
			}
			return nil, false
		}
		key := fmt.Sprintf("status=%d", s)
		sel, err := Select(outs, oracle)
		if err != nil || len(sel) != 1 {
			r.Unk("flags-table", key, fn.Pos(), fmt.Sprintf("table not evaluable: %v (%d paths)", err, len(sel)))
			continue
		}
		var set []string
		bad := ""
		for _, ev := range sel[0].Trace {
			if ev.Kind == "store" && strings.HasPrefix(ev.Name, "&"+z+".") && ev.Args[0].IsConst() && ev.Args[0].K != nil && ev.Args[0].K.ExactString() == "true" {
				set = append(set, strings.TrimPrefix(ev.Name, "&"+z+"."))
			} else {
				bad = "unexpected effect: " + ev.String()
			}
		}
		exp := []string{}
		if w, ok := want[s]; ok {
			exp = []string{w}
		}
		if bad == "" && strings.Join(set, ",") != strings.Join(exp, ",") {
			nm := fmt.Sprint(s)
			if s >= 0 && s < 8 {
				nm = statusNames[s]
			}
			bad = fmt.Sprintf("a result with status %s raises %v, the contract requires %v", nm, set, exp)
		}
		r.Check(bad == "", "flags-table", key, fn.Pos(), strings.Join(exp, ","), bad)
	}
	r.Floor("flag table rows", 10, n)
}

func moduleMajor(c *Ctx) int64 {
	data, err := os.ReadFile(filepath.Join(c.V3Dir, "go.mod"))
	if err != nil {
		fault("go.mod: %v", err)
	}
	m := regexp.MustCompile(`(?m)^module\s+\S+/v(\d+)\s*$`).FindStringSubmatch(string(data))
	if m == nil {
		return 1
	}
	var n int64
	fmt.Sscan(m[1], &n)
	return n
}

func c01Entry(c *Ctx, r *Report) {
	major := moduleMajor(c)
	n := 0
	for _, k := range c01Kinds {
		fn := c.Func("", k.ex)
		n++
		outs, abort := Enumerate(fn, SymOpts{Inline: func(*ssa.Function) bool { return false }})
		if abort != "" {
			r.Unk("entry-points", k.ex, fn.Pos(), abort)
			continue
		}
		obj, reg := fn.Params[0].Name(), fn.Params[1].Name()
		bad := ""
		sawNil, sawDefault, sawGiven := false, false, false
		for _, o := range outs {
			if o.Kind != "return" || len(o.Results) != 1 {
				bad = "path does not return: " + o.Kind + " " + o.Why
				continue
			}
			conds := map[string]bool{}
			for _, cd := range o.Conds {
				conds[cd.T.String()] = cd.Val
			}
			objNil, okObj := conds["("+obj+" == nil)"]
			if len(o.Conds) > 2 || !okObj {
				bad = "entry point branches on " + o.CondString()
				continue
			}
			if objNil {
				sawNil = true
				if !o.Results[0].IsNil() || len(o.Trace) != 0 {
					bad = "nil input must give a nil result set without side effects"
				}
				continue
			}
			regNil, okReg := conds["("+reg+" == nil)"]
			if !okReg {
				bad = "nil registry is not tested"
				continue
			}
			wantReg := reg
			if regNil {
				sawDefault = true
				wantReg = "lint.GlobalRegistry()"
			} else {
				sawGiven = true
			}
			res := o.Results[0]
			if res.Op != "obj" {
				bad = "the result set returned is not a new allocation: " + res.String()
				continue
			}
			nexec := 0
			version := ""
			for _, ev := range o.Trace {
				switch {
				case ev.Kind == "call" && ev.Name == "lint.GlobalRegistry":
				case ev.Kind == "call" && ev.Name == "(*zlint.ResultSet)."+k.fn:
					nexec++
					if len(ev.Args) != 3 || ev.Args[0] != res || ev.Args[1].String() != obj || ev.Args[2].String() != wantReg {
						bad = fmt.Sprintf("%s must run on (new result set, %s, %s); found %v", k.fn, obj, wantReg, ev.Args)
					}
				case ev.Kind == "call" && (ev.Name == "time.Now" || ev.Name == "(time.Time).Unix"):
				default:
					bad = "unexpected effect in entry point: " + ev.String()
				}
			}
			if v := o.Field(res, "Version"); v != nil {
				version = v.String()
			}
			if nexec != 1 {
				bad = fmt.Sprintf("%s is run %d times", k.fn, nexec)
			}
			if version != fmt.Sprint(major) {
				bad = fmt.Sprintf("Version is stamped %q, the module's major version is %d", version, major)
			}
		}
		if bad == "" && !(sawNil && sawDefault && sawGiven) {
			bad = fmt.Sprintf("missing case: nil-object guard=%v, nil-registry default=%v, explicit registry=%v", sawNil, sawDefault, sawGiven)
		}
		r.Check(bad == "", "entry-points", k.ex, fn.Pos(), "nil guard, registry default, execute, Version", bad)
	}
	r.Floor("entry points", 3, n)
	// the convenience wrappers delegate with a nil registry
	for _, k := range c01Kinds {
		w := c.Func("", strings.TrimSuffix(k.ex, "Ex"))
		ok := false
		for _, call := range callsTo(w, "zlint."+k.ex) {
			a := call.Common().Args
			if len(a) == 2 && apath(a[0]) == w.Params[0].Name() && isNilConst(a[1]) {
				if rets := realReturns(w); len(rets) == 1 && retVals(rets[0])[0] == call.Value() {
					ok = true
				}
			}
		}
		r.Check(ok, "entry-points", w.Name(), w.Pos(), "delegates with a nil registry", w.Name()+" does not return "+k.ex+"(obj, nil)")
	}
}
