package main

import (
	"encoding/json"
	"flag"
	"go/types"
	"strings"
	"time"

	"fmt"
	"golang.org/x/tools/go/ssa"
	"os"
	"runtime/debug"
	"sort"
)

type propFn func(c *Ctx, tier string)

var props = map[string]propFn{}

func register(id string, fn propFn) { props[id] = fn }

func main() {
	prop := flag.String("prop", "", "property id (C01..C20)")
	tier := flag.String("tier", "", "quick|thorough (default: $VERIF_TIER or quick)")
	dump := flag.String("dump", "", "debug dumps: census")
	batch := flag.String("props", "", "comma-separated property ids decided in one process (self-test tools only; prints 'BATCH <id> rc=<n>' per property)")
	flag.Parse()
	if *tier == "" {
		*tier = os.Getenv("VERIF_TIER")
	}
	if *tier != "thorough" {
		*tier = "quick"
	}
	defer func() {
		if r := recover(); r != nil {
			fmt.Printf("CHECKER-FAULT: internal panic: %v\n%s\n", r, debug.Stack())
			os.Exit(2)
		}
	}()
	if *dump != "" {
		c := Load(nil, "")
		doDump(c, *dump)
		return
	}
	if *batch != "" {
		batchMode = true
		c := Load(nil, "")
		buildRenames(c)
		for _, id := range strings.Split(*batch, ",") {
			id = strings.TrimSpace(id)
			fn, ok := props[id]
			if !ok {
				fmt.Printf("BATCH %s rc=2\n", id)
				continue
			}
			currentProp = id
			rc := 0
			func() {
				defer func() {
					if r := recover(); r != nil {
						if es, isExit := r.(exitSignal); isExit {
							rc = int(es)
							return
						}
						fmt.Printf("CHECKER-FAULT: internal panic: %v\n%s\n", r, debug.Stack())
						rc = 2
					}
				}()
				for p := range apathSubst {
					delete(apathSubst, p)
				}
				fn(c, *tier)
			}()
			fmt.Printf("BATCH %s rc=%d\n", id, rc)
		}
		return
	}
	fn, ok := props[*prop]
	if !ok {
		var ids []string
		for k := range props {
			ids = append(ids, k)
		}
		sort.Strings(ids)
		fmt.Printf("CHECKER-FAULT: unknown property %q (have %v)\n", *prop, ids)
		os.Exit(2)
	}
	c := Load(nil, "")
	currentProp = *prop
	buildRenames(c)
	fn(c, *tier)
}

func doDump(c *Ctx, what string) {
	if strings.HasPrefix(what, "table:") {
		parts := strings.Split(what, ":")
		var fn *ssa.Function
		if len(parts) == 3 {
			fn = c.Func(parts[1], parts[2])
		} else {
			fn = c.Method(parts[1], parts[2], parts[3])
		}
		opts := SymOpts{}
		if os.Getenv("NOINLINE") != "" {
			opts.Inline = func(*ssa.Function) bool { return false }
		}
		if os.Getenv("LOOP") != "" {
			opts.LoopBound = 1
		}
		if os.Getenv("ONEITER") != "" {
			opts.Assume = func(t *T) (bool, bool) {
				if t.Op == "bin" && t.Name == "<" && t.Args[0].String() == "1" && strings.HasPrefix(t.Args[1].String(), "builtin:len(") {
					return false, true
				}
				return false, false
			}
		}
		if os.Getenv("CLOSURES") != "" {
			opts.Inline = func(f *ssa.Function) bool { return f.Parent() != nil }
		}
		outs, abort := Enumerate(fn, opts)
		for _, o := range outs {
			b, _ := json.MarshalIndent(o.Summary(), "", " ")
			fmt.Println(string(b))
		}
		fmt.Println("paths:", len(outs), "abort:", abort)
		return
	}
	switch what {
	case "effects":
		cs := BuildCensus(c)
		t0 := time.Now()
		e := NewEffects(c)
		fmt.Printf("effects: %d functions, %d iterations, %.1fs\n", len(e.funcs), e.iters, time.Since(t0).Seconds())
		nobj, nglob := 0, 0
		for _, r := range cs.Regs {
			for _, m := range []*ssa.Function{r.CheckApplies, r.Execute} {
				if m == nil {
					continue
				}
				if e.ModsParam(m, 1) {
					nobj++
					fmt.Printf("OBJ %s %s\n   %s\n", r.ID(), m.Name(), strings.Join(e.Chain(m, "p1"), "\n   "))
				}
				if e.ModsParam(m, 0) {
					fmt.Printf("RECV %s %s\n   %s\n", r.ID(), m.Name(), strings.Join(e.Chain(m, "p0"), "\n   "))
				}
				for _, g := range e.ModGlobals(m) {
					nglob++
					fmt.Printf("GLOB %s %s %s\n   %s\n", r.ID(), m.Name(), g, strings.Join(e.Chain(m, "g:"+g.String()), "\n   "))
				}
			}
		}
		unk := map[string]bool{}
		for _, f := range e.funcs {
			for _, u := range e.sum[f].unk {
				unk[u] = true
			}
		}
		fmt.Println("object-mutating lint methods:", nobj, "global-writing:", nglob, "unknown bodyless:", len(unk))
		for u := range unk {
			fmt.Println("  bodyless:", u)
		}
	case "modof":
		e := NewEffects(c)
		for _, f := range e.funcs {
			if strings.Contains(f.String(), os.Getenv("FN")) {
				s := e.sum[f]
				fmt.Printf("%s modP=%b retP=%b nglob=%d\n", f.String(), s.modP, s.retP, len(s.modG))
				for k := range s.why {
					fmt.Printf("   %s: %s\n", k, strings.Join(e.Chain(f, k), " -> "))
				}
			}
		}
	case "fp":
		dumpFP(c, os.Getenv("LINTS"))
	case "loops":
		dumpLoops(c)
	case "mapranges":
		for _, f := range modFunctions(c) {
			allInstrs(f, func(in ssa.Instruction) {
				if rg, ok := in.(*ssa.Range); ok {
					if _, isMap := rg.X.Type().Underlying().(*types.Map); isMap {
						fmt.Printf("%s %s over %s\n", c.Pos(rg.Pos()), fname(f), apath(rg.X))
					}
				}
			})
		}
	case "libpanics":
		dumpLibPanics(c)
	case "funcs":
		dumpFuncs(c)
	case "census":
		cs := BuildCensus(c)
		kinds := map[string]int{}
		for _, r := range cs.Regs {
			kinds[r.Kind]++
			if r.Err != "" || !r.Fresh {
				fmt.Printf("%s %s err=%q fresh=%v why=%s\n", c.Pos(r.Call.Pos()), r.ID(), r.Err, r.Fresh, r.FreshWhy)
			}
		}
		fmt.Printf("regs=%d kinds=%v profiles=%d pkgs=%d mod=%d load=%.1fs ssa=%.1fs\n", len(cs.Regs), kinds, len(cs.ProfileRegs), c.NumPkgs, len(c.Mod), c.loadS, c.ssaS)
	}
}

func dumpLoops(c *Ctx) {
	cs := BuildCensus(c)
	sf := NewStatusFlow(c)
	e := NewEffects(c)
	reach := lintReachable(c, cs, e)
	var fns []*ssa.Function
	for f := range reach {
		fns = append(fns, f)
	}
	sort.Slice(fns, func(i, j int) bool { return fns[i].String() < fns[j].String() })
	total, multi := 0, 0
	for _, f := range fns {
		for _, l := range naturalLoops(f) {
			exits := l.earlyExits()
			if len(exits) == 0 {
				continue
			}
			total++
			verd := map[string]bool{}
			for _, ex := range exits {
				if ex.kind == "break" {
					verd["BREAK"] = true
					continue
				}
				for _, ret := range ex.rets {
					for i, rv := range retVals(ret) {
						if sf.isResultPtr(rv.Type()) {
							ss := sf.resultVal(rv, f, map[ssa.Value]bool{})
							for _, n := range ss.Names() {
								verd[n] = true
							}
							if len(ss.Unknown) > 0 {
								verd["?"] = true
							}
						} else if sf.isStatusT(rv.Type()) {
							ss := sf.statusOf(rv, f, map[ssa.Value]bool{})
							for _, n := range ss.Names() {
								verd[n] = true
							}
						} else {
							verd[fmt.Sprintf("ret%d:%s", i, trimStr(apath(rv), 30))] = true
						}
					}
				}
			}
			if len(verd) > 1 {
				multi++
				var vs []string
				for k := range verd {
					vs = append(vs, k)
				}
				sort.Strings(vs)
				fmt.Printf("%s %s hdr=%d verdicts=%v iter=%v\n", c.Pos(l.header.Instrs[0].Pos()), fname(f), l.header.Index, vs, l.iterated())
			}
		}
	}
	fmt.Println("loops with early exits:", total, "multi-verdict:", multi)
}

func dumpFP(c *Ctx, names string) {
	cs := BuildCensus(c)
	by := map[string]*Reg{}
	for _, r := range cs.Regs {
		if r.NameOK {
			by[r.Name] = r
		}
	}
	parts := strings.Split(names, ",")
	var fps [][]string
	for _, n := range parts {
		reg := by[n]
		if reg == nil {
			fmt.Println("no lint", n)
			return
		}
		var lines []string
		for _, l := range fingerprintOf(reg.CheckApplies).Lines() {
			lines = append(lines, "A: "+l)
		}
		for _, l := range fingerprintOf(reg.Execute).Lines() {
			lines = append(lines, "E: "+l)
		}
		fps = append(fps, lines)
	}
	if len(fps) == 2 {
		a, b := map[string]bool{}, map[string]bool{}
		for _, l := range fps[0] {
			a[l] = true
		}
		for _, l := range fps[1] {
			b[l] = true
		}
		for _, l := range fps[0] {
			if !b[l] {
				fmt.Println("  - " + l)
			}
		}
		for _, l := range fps[1] {
			if !a[l] {
				fmt.Println("  + " + l)
			}
		}
	} else {
		for _, l := range fps[0] {
			fmt.Println(l)
		}
	}
}
