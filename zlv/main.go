package main

import (
	"flag"
	"fmt"
	"os"
	"runtime/debug"
	"sort"
)

type propFn func(c *Ctx, tier string)

var props = map[string]propFn{}

func register(id string, fn propFn) { props[id] = fn }

func main() {
	prop := flag.String("prop", "", "property id (C01..C20)")
	tier := flag.String("tier", "", "quick|thorough (default: $VERIF_TIER or quick)")
	dump := flag.String("dump", "", "debug dumps: census")
	flag.Parse()
	if *tier == "" {
		*tier = os.Getenv("VERIF_TIER")
	}
	if *tier != "thorough" {
		*tier = "quick"
	}
	defer func() {
		if r := recover(); r != nil {
			fmt.Printf("CHECKER-FAULT: internal panic: %v\n%s\n", r, debug.Stack())
			os.Exit(2)
		}
	}()
	if *dump != "" {
		c := Load(nil, "")
		doDump(c, *dump)
		return
	}
	fn, ok := props[*prop]
	if !ok {
		var ids []string
		for k := range props {
			ids = append(ids, k)
		}
		sort.Strings(ids)
		fmt.Printf("CHECKER-FAULT: unknown property %q (have %v)\n", *prop, ids)
		os.Exit(2)
	}
	c := Load(nil, "")
	fn(c, *tier)
}

func doDump(c *Ctx, what string) {
	switch what {
	case "census":
		cs := BuildCensus(c)
		kinds := map[string]int{}
		for _, r := range cs.Regs {
			kinds[r.Kind]++
			if r.Err != "" || !r.Fresh {
				fmt.Printf("%s %s err=%q fresh=%v why=%s\n", c.Pos(r.Call.Pos()), r.ID(), r.Err, r.Fresh, r.FreshWhy)
			}
		}
		fmt.Printf("regs=%d kinds=%v profiles=%d pkgs=%d mod=%d load=%.1fs ssa=%.1fs\n", len(cs.Regs), kinds, len(cs.ProfileRegs), c.NumPkgs, len(c.Mod), c.loadS, c.ssaS)
	}
}
