package main

import (
	"fmt"
	"go/token"
	"os"
	"sort"
	"strings"

	"golang.org/x/tools/go/ssa"
)

// C02, obligation class P9 — "library-panic". A function outside the module
// that contains an explicit panic(...) on some path panics for some arguments
// (big.Int.FillBytes on a short buffer, strings.Repeat on a negative count,
// (*big.Int).Exp / SetString-style helpers …). The set is derived from the
// callees' own SSA (explicit *ssa.Panic in the function itself or, for thin
// wrappers, in a callee one level down that receives a parameter unchanged);
// each call from lint-reachable code must be discharged by a reviewed line of
// the ledger or an automatic argument rule (constant arguments in range).

var libPanicMemo = map[*ssa.Function]bool{}

// libMayPanic: f (non-module, with body) contains an explicit panic that is not
// merely "unreachable"/"internal error" boilerplate — we cannot tell, so any
// explicit panic counts.
func libMayPanic(f *ssa.Function, depth int) bool {
	if v, ok := libPanicMemo[f]; ok {
		return v
	}
	libPanicMemo[f] = false
	if f == nil || len(f.Blocks) == 0 {
		return false
	}
	res := false
	for _, b := range f.Blocks {
		for _, in := range b.Instrs {
			switch x := in.(type) {
			case *ssa.Panic:
				res = true
			case ssa.CallInstruction:
				if depth < 1 {
					if g := x.Common().StaticCallee(); g != nil && g != f && !isModFunc(g) {
						// thin wrapper: passes one of its own parameters on
						for _, a := range x.Common().Args {
							if _, isP := a.(*ssa.Parameter); isP && libMayPanic(g, depth+1) {
								res = true
							}
						}
					}
				}
			}
		}
	}
	libPanicMemo[f] = res
	return res
}

// libPanicAllowed: library functions whose explicit panics are unreachable from
// any argument values (internal invariants) or concern nil receivers / misuse that
// the type system of the call already excludes. Reviewed once, by reading.
var libPanicAllowed = map[string]string{
	"strings.Join": "panics only when the total length overflows int (\"strings: Join output length overflow\"): not reachable for strings held in memory",
	"(*github.com/zmap/zcrypto/cryptobyte.String).ReadAnyASN1Element": "the only explicit panic is the \"cryptobyte: internal error\" consistency check after a successful length read; malformed input makes the method return false",
	"(*golang.org/x/crypto/cryptobyte.String).ReadAnyASN1Element":     "the only explicit panic is the \"cryptobyte: internal error\" consistency check after a successful length read; malformed input makes the method return false",
}

func libPanicSites(f *ssa.Function, x *ssa.Call, posStr string) []*panicSite {
	g := x.Call.StaticCallee()
	if g == nil || g.Pkg == nil || isModPkg(g.Pkg.Pkg) || !libMayPanic(g, 0) {
		return nil
	}
	name := funcCallName(g)
	if _, ok := libPanicAllowed[name]; ok {
		return nil
	}
	// panics that depend on one integer argument which is a non-negative constant here
	switch name {
	case "(*math/big.Int).Bit", "(*math/big.Int).SetBit", "strings.Repeat", "bytes.Repeat":
		idx := 1
		if name == "(*math/big.Int).SetBit" {
			idx = 2
		}
		if idx < len(x.Call.Args) {
			if k, ok := ssaConstInt(x.Call.Args[idx]); ok && k >= 0 {
				return nil // "negative bit index" / "negative Repeat count" cannot arise
			}
		}
	}
	var as []string
	for _, a := range x.Call.Args {
		as = append(as, trimStr(apath(a), 40))
	}
	_ = as
	s := &panicSite{class: "library-panic", fn: fname(f), expr: name, pos: x.Pos(), posStr: posStr,
		detail: fmt.Sprintf("%s contains an explicit panic for some arguments; called from %s", name, fname(f))}
	return []*panicSite{s}
}

func dumpLibPanics(c *Ctx) {
	cs := BuildCensus(c)
	reach := staticReach(c, cs)
	counts := map[string]int{}
	where := map[string]string{}
	for f := range reach {
		allInstrs(f, func(in ssa.Instruction) {
			if call, ok := in.(*ssa.Call); ok {
				for _, s := range libPanicSites(f, call, c.Pos(call.Pos())) {
					n := s.expr
					if i := strings.Index(n, ")."); strings.HasPrefix(n, "(") && i > 0 {
						if j := strings.Index(n[i+2:], "("); j > 0 {
							n = n[:i+2+j]
						}
					} else {
						n = strings.SplitN(n, "(", 2)[0]
					}
					counts[n]++
					where[n] = s.posStr + " " + s.fn
				}
			}
		})
	}
	var names []string
	for n := range counts {
		names = append(names, n)
	}
	sort.Strings(names)
	for _, n := range names {
		fmt.Fprintf(os.Stdout, "%4d %s   e.g. %s\n", counts[n], n, where[n])
	}
	_ = token.NoPos
}
