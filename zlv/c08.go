package main

import (
	"fmt"
	"go/ast"
	"go/types"
	"strings"

	"golang.org/x/tools/go/ssa"
)

func init() { register("C08", runC08) }

func runC08(c *Ctx, tier string) {
	r := NewReport("C08", "other", tier, c)
	r.Explanation = "(1) selection: the decision table of Registry.Filter for one iteration of its loop over r.Names() (closures inlined; induction: nothing but the index is loop-carried, every name of every kind is in Names() by C12) is evaluated on kind ∈ {certificate, OCSP, CRL} × each of the five filters ∈ {absent, present-and-matching, present-and-not-matching} × registration error: the lint found under that name is registered — the very pointer returned by the kind's ByName, with the kind's own register method, on the registry returned by NewRegistry() — iff not excluded by source, included by source when sources are given, matching the pattern when one is given, not excluded by name and included by name when names are given; a nil map lookup counts as absent. The source filters are keyed by that lint's own Source, the name filters and the pattern by the name. (2) errors: an error from validating ExcludeNames/IncludeNames or from registration is returned with a nil registry; a pattern together with a non-empty name list is rejected; (3) empty options return the receiver itself and Empty() mentions every field of FilterOptions; (4) the filtered registry receives SetConfiguration(r.configuration) on every path; (5) lintNamesToMap trims names and consults all three lookups; sourceListToMap maps each listed source to true (nil for an empty list); AddProfile appends the profile's names to IncludeNames; (6) the source registry is left unchanged: the MOD summary of Filter over its receiver is empty. Does not decide regular-expression semantics or SourceList contents."
	r.Rule("filter-selection; filter-errors; filter-empty; filter-config; names-validated; source-map; add-profile; source-registry-unchanged")
	r.Trusted = []string{"go/ssa", "regexp.MatchString", "Go map semantics (lookup in a nil map is false)"}

	filterChecks(c, r, true)
	namesToMap(c, r, "names-validated")
	c08SourceMap(c, r)
	c08AddProfile(c, r)
	c08Empty(c, r)
	e := NewEffects(c)
	fn := c.Method("lint", "registryImpl", "Filter")
	if e.ModsParam(fn, 0) {
		r.Bad("source-registry-unchanged", "Filter", fn.Pos(), "Filter may modify the registry it filters: "+strings.Join(e.Chain(fn, "p0"), " → "))
	} else {
		r.OK("source-registry-unchanged", "Filter", fn.Pos(), true, "MOD(Filter, receiver) = ∅")
	}
	// "unknown names are rejected": name validation asks the lookups' ByName, so ByName must answer
	// from the table register filled and from nothing else (registry coherence, C12)
	c12Registry(c, r)
	r.Finish()
}

type filterKind struct{ name, impl, field, reg string }

var filterKinds = []filterKind{
	{"certificate", "certificateLinterLookupImpl", "certificateLints", "registerCertificateLint"},
	{"ocsp", "ocspResponseLinterLookupImpl", "ocspResponseLints", "registerOcspResponseLint"},
	{"crl", "revocationListLinterLookupImpl", "revocationListLints", "registerRevocationListLint"},
}

type marker struct{ s string }

// filterChecks evaluates the one-iteration decision table of Filter.
// selection=false restricts the obligations to identity/configuration (C07).
// configAccessors: SetConfiguration stores its argument as it is and
// GetConfiguration hands back what was stored — the configuration a registry
// runs its lints with is the one it was given (not one re-bound against the
// registry's contents at the time of the call, which in Filter is still empty).
// registryCfgField: name of registryImpl's configuration field, as found by configAccessors.
var registryCfgField = "configuration"

func configAccessors(c *Ctx, r *Report) {
	noInline := func(*ssa.Function) bool { return false }
	set := c.Method("lint", "registryImpl", "SetConfiguration")
	outs, abort := Enumerate(set, SymOpts{Inline: noInline})
	bad := abort
	registryCfgField = "configuration" // the receiver's field that holds the configuration (whatever its name)
	if bad == "" {
		if len(outs) != 1 || outs[0].Kind != "return" {
			bad = fmt.Sprintf("SetConfiguration has %d paths", len(outs))
		} else {
			recv, cfg := set.Params[0].Name(), set.Params[1].Name()
			stores := 0
			for _, ev := range outs[0].Trace {
				switch {
				case ev.Kind == "store" && strings.HasPrefix(ev.Name, "&"+recv+".") && !strings.Contains(strings.TrimPrefix(ev.Name, "&"+recv+"."), "."):
					stores++
					registryCfgField = strings.TrimPrefix(ev.Name, "&"+recv+".")
					if len(ev.Args) != 1 || ev.Args[0].String() != cfg {
						bad = "SetConfiguration stores " + ev.Args[0].String() + " instead of the configuration it was given"
					}
				case ev.Kind == "call" && (strings.Contains(ev.Name, "sync.") || strings.Contains(ev.Name, "atomic")):
				case ev.Kind == "defer":
				default:
					bad = "SetConfiguration does more than store its argument: " + ev.String()
				}
			}
			if stores != 1 && bad == "" {
				bad = fmt.Sprintf("SetConfiguration stores the configuration %d times", stores)
			}
		}
	}
	r.Check(bad == "", "filter-config", "SetConfiguration", set.Pos(), "stores its argument unchanged", bad)
	get := c.Method("lint", "registryImpl", "GetConfiguration")
	gouts, gabort := Enumerate(get, SymOpts{Inline: noInline})
	bad = gabort
	if bad == "" {
		for _, o := range gouts {
			if o.Kind != "return" || len(o.Results) != 1 || o.Results[0].String() != get.Params[0].Name()+"."+registryCfgField {
				bad = "GetConfiguration does not return the stored configuration on every path"
			}
		}
	}
	r.Check(bad == "", "filter-config", "GetConfiguration", get.Pos(), "returns the stored configuration", bad)
}

func filterChecks(c *Ctx, r *Report, selection bool) {
	configAccessors(c, r)
	fn := c.Method("lint", "registryImpl", "Filter")
	if why := onlyIndexCarriedOwn(fn); why != "" {
		r.Unk("filter-selection", "Filter|loop-shape", fn.Pos(), why)
		return
	}
	recv, opts := fn.Params[0].Name(), fn.Params[1].Name()
	names := fmt.Sprintf("(*lint.registryImpl).Names(%s)", recv)
	name0 := names + "[0]"
	outs, abort := Enumerate(fn, SymOpts{MaxDepth: 2, LoopBound: 1, MaxPaths: 20000,
		Inline: func(f *ssa.Function) bool { return f.Parent() != nil },
		Assume: func(t *T) (bool, bool) {
			if t.Op == "bin" && t.Name == "<" && t.Args[0].String() == "1" && t.Args[1].String() == "builtin:len("+names+")" {
				return false, true
			}
			return false, false
		}})
	if abort != "" {
		r.Unk("filter-selection", "Filter", fn.Pos(), abort)
		return
	}
	for i, o := range outs {
		if i < 2 {
			r.Sample(map[string]interface{}{"table_of": "registryImpl.Filter (one iteration)", "path": o.Summary()})
		}
	}
	r.Extra["filter_paths"] = len(outs)
	newReg := "lint.NewRegistry()"
	type state int // 0 absent, 1 present+hit, 2 present+miss
	n := 0
	tri := []int{0, 1, 2}
	for _, k := range filterKinds {
		found := fmt.Sprintf("(*lint.%s).ByName(&%s.%s, %s)", k.impl, recv, k.field, name0)
		for _, se := range tri {
			for _, si := range tri {
				for _, nf := range tri {
					for _, ne := range tri {
						for _, ni := range tri {
							if nf != 0 && (ne != 0 || ni != 0) {
								continue // rejected before the loop (checked below)
							}
							for _, regErr := range []bool{false, true} {
								n++
								key := fmt.Sprintf("%s|se=%d,si=%d,nf=%d,ne=%d,ni=%d,regerr=%v", k.name, se, si, nf, ne, ni, regErr)
								keyErr := ""
								mapOf := func(args []*T) (int, bool) {
									if len(args) == 0 {
										return 0, false
									}
									switch args[len(args)-1].String() {
									case opts + ".ExcludeSources":
										return se, true
									case opts + ".IncludeSources":
										return si, true
									case opts + ".ExcludeNames":
										return ne, true
									case opts + ".IncludeNames":
										return ni, true
									}
									return 0, false
								}
								var mapState func(t *T) (int, string, bool)
								mapState = func(t *T) (int, string, bool) {
									if t.Op == "call" && t.Name == "lint.sourceListToMap" {
										s, ok := mapOf(t.Args)
										return s, "source", ok
									}
									if t.Op == "extract" && t.Name == "0" && len(t.Args) == 1 && t.Args[0].Op == "call" && t.Args[0].Name == "(*lint.registryImpl).lintNamesToMap" {
										s, ok := mapOf(t.Args[0].Args)
										return s, "name", ok
									}
									return 0, "", false
								}
								oracle := func(t *T) (interface{}, bool) {
									s := t.String()
									switch {
									case s == opts+".NameFilter":
										if nf == 0 {
											return nil, true
										}
										return marker{"re"}, true
									case t.Op == "call" && t.Name == "(lint.FilterOptions).Empty":
										return false, true
									case t.Op == "call" && t.Name == "builtin:len" && len(t.Args) == 1:
										if t.Args[0].String() == names {
											return int64(1), true
										}
										if st, _, ok := mapState(t.Args[0]); ok {
											if st == 0 {
												return int64(0), true
											}
											return int64(2), true
										}
									case t.Op == "extract" && t.Name == "1" && len(t.Args) == 1 && t.Args[0].Op == "call" && t.Args[0].Name == "(*lint.registryImpl).lintNamesToMap":
										return nil, true
									case t.Op == "call" && strings.HasSuffix(t.Name, "LinterLookupImpl).ByName"):
										if len(t.Args) == 2 && t.Args[1].String() == name0 {
											if strings.Contains(t.Name, k.impl) {
												return marker{"lint"}, true
											}
											return nil, true
										}
									case t.Op == "call" && t.Name == "(*regexp.Regexp).MatchString":
										if len(t.Args) == 2 && t.Args[0].String() == opts+".NameFilter" && t.Args[1].String() == name0 {
											return nf == 1, true
										}
										keyErr = "the pattern is matched against " + t.Args[1].String() + " instead of the lint's name"
									case (t.Op == "lookup" && len(t.Args) == 2) || (t.Op == "extract" && t.Name == "1" && len(t.Args) == 1 && t.Args[0].Op == "lookup" && t.Args[0].Name == "commaok" && len(t.Args[0].Args) == 2):
										// m[k] on a map whose recorded values are all true, or the
										// membership test _, ok := m[k] (set representation)
										if t.Op == "extract" {
											t = t.Args[0]
										}
										if st, kind, ok := mapState(t.Args[0]); ok {
											wantKey := name0
											if kind == "source" {
												wantKey = found + ".LintMetadata.Source"
											}
											if t.Args[1].String() != wantKey {
												keyErr = fmt.Sprintf("the %s filter is consulted with key %s instead of %s", kind, t.Args[1], wantKey)
												return nil, false
											}
											return st == 1, true
										}
									case t.Op == "call" && strings.HasPrefix(t.Name, "(*lint.registryImpl).register"):
										if regErr {
											return errVal{}, true
										}
										return nil, true
									}
									if st, _, ok := mapState(t); ok {
										if st == 0 {
											return nil, true
										}
										return marker{"map"}, true
									}
									return nil, false
								}
								sel, err := Select(outs, oracle)
								if err != nil {
									if keyErr != "" {
										r.Bad("filter-selection", key, fn.Pos(), keyErr)
									} else {
										r.Unk("filter-selection", key, fn.Pos(), "Filter contains a condition the analysis does not model: "+err.Error())
									}
									continue
								}
								if len(sel) != 1 || sel[0].Kind != "return" || len(sel[0].Results) != 2 {
									r.Unk("filter-selection", key, fn.Pos(), fmt.Sprintf("%d paths match one abstract case", len(sel)))
									continue
								}
								o := sel[0]
								want := se != 1 && si != 2 && nf != 2 && ne != 1 && ni != 2
								var regs []Event
								cfgOK := false
								for _, ev := range o.Trace {
									if ev.Kind == "call" && strings.HasPrefix(ev.Name, "(*lint.registryImpl).register") {
										regs = append(regs, ev)
									}
									if ev.Kind == "call" && ev.Name == "(*lint.registryImpl).SetConfiguration" && len(ev.Args) == 2 && isNewRegTerm(ev.Args[0], newReg) && ev.Args[1].String() == recv+"."+registryCfgField {
										cfgOK = true
									}
									if ev.Kind == "store" || ev.Kind == "mapupdate" {
										r.Bad("filter-selection", key+"|effect", fn.Pos(), "Filter writes "+ev.String())
									}
								}
								// a registry built by a constructor newer than the rules: a fresh object whose
								// configuration field the literal itself sets to the parent's configuration
								for _, cand := range append([]*T{o.Results[0]}, func() []*T {
									var as []*T
									for _, ev := range regs {
										if len(ev.Args) > 0 {
											as = append(as, ev.Args[0])
										}
									}
									return as
								}()...) {
									if cand != nil && cand.Op == "obj" {
										if v := o.Field(cand, registryCfgField); v != nil && v.String() == recv+"."+registryCfgField {
											cfgOK = true
										}
										if v := o.Lit["&"+strings.TrimPrefix(cand.String(), "&")+"."+registryCfgField]; v != nil && v.String() == recv+"."+registryCfgField {
											cfgOK = true
										}
									}
								}
								bad := ""
								switch {
								case want && len(regs) != 1:
									bad = fmt.Sprintf("the lint satisfies every filter but is registered %d times", len(regs))
								case !want && len(regs) != 0:
									bad = "the lint is registered although a filter rejects it"
								case want:
									ev := regs[0]
									if ev.Name != "(*lint.registryImpl)."+k.reg {
										bad = "a " + k.name + " lint is registered with " + ev.Name
									} else if len(ev.Args) != 2 || !isNewRegTerm(ev.Args[0], newReg) || ev.Args[1].String() != found {
										bad = fmt.Sprintf("the filtered registry must receive the very lint found under the name (%s); it receives %v", found, ev.Args)
									}
								}
								if bad == "" {
									if want && regErr {
										if !o.Results[0].IsNil() || o.Results[1] != regs[0].Result {
											bad = "a registration error is not returned (with a nil registry)"
										}
									} else if !isNewRegTerm(o.Results[0], newReg) || !o.Results[1].IsNil() {
										bad = fmt.Sprintf("Filter returns (%s, %s) instead of (the new registry, nil)", o.Results[0], o.Results[1])
									}
								}
								if !selection {
									// C07: identity + configuration only
									if want && !regErr {
										r.Check(bad == "", "filter-identity", key, fn.Pos(), "same lint object, own kind", bad)
									}
								} else {
									r.Check(bad == "", "filter-selection", key, fn.Pos(), fmt.Sprintf("register=%v", want), bad+fmt.Sprintf(" [case: %s lint; 0=filter absent 1=present&matching 2=present&not matching: exclude-sources=%d include-sources=%d pattern=%d exclude-names=%d include-names=%d]", k.name, se, si, nf, ne, ni))
								}
								if !cfgOK {
									r.Bad("filter-config", key, fn.Pos(), "the filtered registry does not receive SetConfiguration(r.configuration) on this path: configurable lints would run with defaults")
								}
							}
						}
					}
				}
			}
		}
	}
	r.OK("filter-config", "all-paths", fn.Pos(), true, fmt.Sprintf("%d abstract cases", n))
	r.Extra["filter_cases"] = n
	if !selection {
		return
	}
	// pre-loop cases: Empty, validation errors, pattern + names
	type pre struct {
		id                  string
		empty, exErr, inErr bool
		nf, neLen, niLen    bool
		wantErr, wantSelf   bool
	}
	for _, pc := range []pre{
		{id: "empty-options", empty: true, wantSelf: true},
		{id: "exclude-names-invalid", exErr: true, wantErr: true},
		{id: "include-names-invalid", inErr: true, wantErr: true},
		{id: "pattern-with-exclude-names", nf: true, neLen: true, wantErr: true},
		{id: "pattern-with-include-names", nf: true, niLen: true, wantErr: true},
	} {
		oracle := func(t *T) (interface{}, bool) {
			s := t.String()
			switch {
			case t.Op == "call" && t.Name == "(lint.FilterOptions).Empty":
				return pc.empty, true
			case s == opts+".NameFilter":
				if pc.nf {
					return marker{"re"}, true
				}
				return nil, true
			case t.Op == "extract" && len(t.Args) == 1 && t.Args[0].Op == "call" && t.Args[0].Name == "(*lint.registryImpl).lintNamesToMap":
				isEx := t.Args[0].Args[1].String() == opts+".ExcludeNames"
				if t.Name == "1" {
					if (isEx && pc.exErr) || (!isEx && pc.inErr) {
						return errVal{}, true
					}
					return nil, true
				}
				if (isEx && pc.neLen) || (!isEx && pc.niLen) {
					return marker{"map"}, true
				}
				return nil, true
			case t.Op == "call" && t.Name == "builtin:len" && len(t.Args) == 1:
				a := t.Args[0]
				if a.String() == names {
					return int64(0), true
				}
				if a.Op == "extract" && a.Name == "0" && len(a.Args) == 1 && a.Args[0].Op == "call" {
					isEx := a.Args[0].Args[1].String() == opts+".ExcludeNames"
					if (isEx && pc.neLen) || (!isEx && pc.niLen) {
						return int64(1), true
					}
					return int64(0), true
				}
			case t.Op == "call" && t.Name == "lint.sourceListToMap":
				return nil, true
			}
			return nil, false
		}
		sel, err := Select(outs, oracle)
		if err != nil || len(sel) != 1 || sel[0].Kind != "return" || len(sel[0].Results) != 2 {
			r.Unk("filter-errors", pc.id, fn.Pos(), fmt.Sprintf("not evaluable: %v (%d paths)", err, len(sel)))
			continue
		}
		o := sel[0]
		bad := ""
		switch {
		case pc.wantSelf:
			if o.Results[0].String() != recv || !o.Results[1].IsNil() || len(o.Trace) != 1 {
				bad = "empty options must return the registry itself without doing anything else"
			}
			r.Check(bad == "", "filter-empty", pc.id, fn.Pos(), "returns the receiver", bad)
			continue
		case pc.wantErr:
			if !o.Results[0].IsNil() || o.Results[1].IsNil() {
				bad = fmt.Sprintf("Filter returns (%s, %s); an error with a nil registry is required", o.Results[0], o.Results[1])
			}
		}
		r.Check(bad == "", "filter-errors", pc.id, fn.Pos(), "rejected with an error", bad)
	}
}

// onlyIndexCarriedOwn: phis at loop headers of fn itself are integers, or are
// values that are re-assigned in every iteration before use (variables
// declared inside the loop body are not phis at all).
func onlyIndexCarriedOwn(fn *ssa.Function) string {
	why := ""
	allInstrs(fn, func(in ssa.Instruction) {
		phi, ok := in.(*ssa.Phi)
		if !ok {
			return
		}
		isHeader := false
		for _, p := range phi.Block().Preds {
			if phi.Block().Dominates(p) {
				isHeader = true
			}
		}
		if !isHeader {
			return
		}
		if b, ok := phi.Type().Underlying().(*types.Basic); ok && b.Info()&types.IsInteger != 0 {
			return
		}
		why = fmt.Sprintf("%s carries %s (%s) from one iteration to the next", fname(fn), phi.Comment, phi.Type())
	})
	return why
}

func c08SourceMap(c *Ctx, r *Report) {
	fn := c.Func("lint", "sourceListToMap")
	outs, abort := Enumerate(fn, SymOpts{Inline: func(*ssa.Function) bool { return false }, LoopBound: 2})
	bad := abort
	p := fn.Params[0].Name()
	if bad == "" {
		if why := onlyIndexCarried(fn, 0, nil); why != "" {
			bad = why
		}
	}
	for n := int64(0); n <= 2 && bad == ""; n++ {
		oracle := func(t *T) (interface{}, bool) {
			if t.Op == "call" && t.Name == "builtin:len" && t.Args[0].String() == p {
				return n, true
			}
			return nil, false
		}
		sel, err := Select(outs, oracle)
		if err != nil {
			bad = err.Error()
			break
		}
		var rets []*Outcome
		for _, o := range sel {
			if o.Kind == "return" {
				rets = append(rets, o)
			}
		}
		if len(rets) != 1 {
			bad = fmt.Sprintf("%d paths for a list of %d", len(rets), n)
			break
		}
		o := rets[0]
		if n == 0 {
			if !o.Results[0].IsNil() {
				bad = "an empty source list must map to nil (no filtering)"
			}
			continue
		}
		if o.Results[0].Op != "obj" {
			bad = "result is not a fresh map"
			break
		}
		for i := int64(0); i < n; i++ {
			found := false
			for _, ev := range o.Trace {
				if ev.Kind == "mapupdate" && ev.Name == o.Results[0].String() && ev.Args[0].String() == fmt.Sprintf("%s[%d]", p, i) && (ev.Args[1].String() == "true" || !isBoolTyped(ev.Args[1])) {
					found = true
				}
			}
			if !found {
				bad = fmt.Sprintf("source #%d of the list is not entered into the map", i)
			}
		}
	}
	r.Check(bad == "", "source-map", "sourceListToMap", fn.Pos(), "nil for an empty list, every listed source ↦ true", bad)
}

func c08AddProfile(c *Ctx, r *Report) {
	fn := c.Method("lint", "FilterOptions", "AddProfile")
	outs, abort := Enumerate(fn, SymOpts{Inline: func(*ssa.Function) bool { return false }})
	bad := abort
	f, prof := fn.Params[0].Name(), fn.Params[1].Name()
	for _, o := range outs {
		if o.Kind != "return" {
			bad = "path does not return"
			continue
		}
		final := o.Mem["&"+f+".IncludeNames"]
		if final == nil {
			for _, ev := range o.Trace {
				if ev.Kind == "store" && ev.Name == "&"+f+".IncludeNames" {
					final = ev.Args[0]
				}
			}
		}
		if final == nil || final.Op != "call" || final.Name != "builtin:append" || len(final.Args) != 2 || !strings.HasSuffix(final.Args[1].String(), prof+".LintNames") && final.Args[1].String() != prof+".LintNames" {
			bad = fmt.Sprintf("IncludeNames is not extended by the profile's LintNames (%v)", final)
		}
	}
	r.Check(bad == "", "add-profile", "FilterOptions.AddProfile", fn.Pos(), "IncludeNames = append(IncludeNames, profile.LintNames...)", bad)
}

// c08Empty: Empty() mentions every field of FilterOptions and is their conjunction.
func c08Empty(c *Ctx, r *Report) {
	lintP := c.Pkg("lint")
	st := c.Named("lint", "FilterOptions").Underlying().(*types.Struct)
	var fd *ast.FuncDecl
	for _, f := range lintP.Syntax {
		for _, d := range f.Decls {
			if x, ok := d.(*ast.FuncDecl); ok && x.Name.Name == "Empty" && x.Recv != nil && strings.Contains(types.ExprString(x.Recv.List[0].Type), "FilterOptions") {
				fd = x
			}
		}
	}
	if fd == nil {
		fault("unresolved anchor: FilterOptions.Empty")
	}
	mentioned := map[string]bool{}
	ast.Inspect(fd, func(n ast.Node) bool {
		if sel, ok := n.(*ast.SelectorExpr); ok {
			if v, ok := lintP.TypesInfo.Uses[sel.Sel].(*types.Var); ok && v.IsField() {
				mentioned[v.Name()] = true
			}
		}
		return true
	})
	for i := 0; i < st.NumFields(); i++ {
		f := st.Field(i)
		r.Check(mentioned[f.Name()], "filter-empty", "Empty mentions "+f.Name(), fd.Pos(), "", "FilterOptions."+f.Name()+" is not consulted by Empty(): options that set only this field would be ignored (Filter returns the unfiltered registry)")
	}
	// table: true iff NameFilter == nil and all four lists have length 0
	fn := c.Method("lint", "FilterOptions", "Empty")
	outs, abort := Enumerate(fn, SymOpts{})
	bad := abort
	p := fn.Params[0].Name()
	for bits := 0; bits < 32 && bad == ""; bits++ {
		oracle := func(t *T) (interface{}, bool) {
			if t.String() == p+".NameFilter" {
				if bits&1 != 0 {
					return marker{"re"}, true
				}
				return nil, true
			}
			if t.Op == "call" && t.Name == "builtin:len" {
				for i, fld := range []string{"IncludeNames", "ExcludeNames", "IncludeSources", "ExcludeSources"} {
					if t.Args[0].String() == p+"."+fld {
						if bits&(2<<uint(i)) != 0 {
							return int64(1), true
						}
						return int64(0), true
					}
				}
			}
			return nil, false
		}
		sel, err := Select(outs, oracle)
		if err != nil || len(sel) != 1 {
			bad = fmt.Sprintf("Empty not evaluable: %v", err)
			break
		}
		v, err := Eval(sel[0].Results[0], oracle)
		if err != nil || v != (bits == 0) {
			bad = fmt.Sprintf("Empty() = %v when options set mask=%05b (bit0 pattern, then include/exclude names, include/exclude sources)", v, bits)
		}
	}
	r.Check(bad == "", "filter-empty", "Empty table", fn.Pos(), "true iff nothing is set", bad)
}

// isNewRegTerm: the term is the registry Filter builds — the result of
// lint.NewRegistry(), or an object allocated on this path (a constructor newer
// than the rules, inlined).
func isNewRegTerm(t *T, newReg string) bool {
	return t != nil && (t.String() == newReg || (t.Op == "obj" && strings.HasPrefix(t.String(), "&")))
}
