package main

import (
	"fmt"
	"strings"

	"golang.org/x/tools/go/ssa"
)

func init() { register("C03", runC03) }

func runC03(c *Ctx, tier string) {
	r := NewReport("C03", "proof", tier, c)
	r.Explanation = "The guarantee is framework-level and is decided once for all lints. (1) window-table: the decision table of lint.checkEffective (util.OnOrAfter inlined) is extracted from SSA with the time.Time comparisons kept as uninterpreted atoms and evaluated on every ordering of (effective, ineffective, target) over {before-zero, zero, 1, 2, 3}^3 against the specification (zero(e) ∨ t ≥ e) ∧ (zero(i) ∨ t < i); because instants are touched only through IsZero/Before/After/Equal the table covers every instant and every location, including the boundary instants of the statement. (2) window-binding: each CheckEffective passes the lint's EffectiveDate, IneffectiveDate and exactly NotBefore / ThisUpdate / NextUpdate of the linted object. (3) lifecycle: the decision tables of (*CertificateLint).execute, (*RevocationListLint).Execute and (*OcspResponseLint).Execute (window logic inlined) are evaluated on source × scope-gate × configuration outcome × applicability × all instant orderings: outside the window the outcome is a literal NE (or NA/fatal decided earlier) and the rule body's Execute is not called. (4) no-bypass: the only call sites of a lint implementation's Execute through the three lint interfaces are these three functions; the deprecated Lint wrapper copies all six metadata fields and delegates. (5) every registered EffectiveDate/IneffectiveDate folds to a constant UTC instant (so the window is a compile-time constant per lint). (6) result-loop: the decision tables of the three execute* loops show that the value stored under a lint's name is the value that lint's own life-cycle function returned — so an NE produced by (3) is what the caller sees for that lint."
	r.Rule("window-table: checkEffective ≡ (zero(e) ∨ t ≥ e) ∧ (zero(i) ∨ t < i) on all orderings")
	r.Rule("window-method: each kind's CheckEffective, helpers inlined, ≡ (zero(e) ∨ t ≥ e) ∧ (zero(i) ∨ t < i) over its own EffectiveDate/IneffectiveDate and the object's NotBefore/ThisUpdate/NextUpdate on all orderings")
	r.Rule("window-binding: CheckEffective(l, obj) = checkEffective(l.EffectiveDate, l.IneffectiveDate, obj.<NotBefore|ThisUpdate|NextUpdate>)")
	r.Rule("lifecycle: outside the window ⇒ literal NE/NA/Fatal and no call of the rule body")
	r.Rule("no-bypass: interface Execute of lint implementations is invoked only from the three life-cycle functions")
	r.Rule("date-folds: registered dates are constant UTC instants")
	r.Rule("result-loop: the three execute* loops store, under each lint's name, exactly the value that lint's Execute returned (decision table, nothing but the index carried between iterations, no goroutines)")
	r.Trusted = []string{"go/ssa", "time.Time.IsZero/Before/After/Equal compare instants irrespective of location (documented semantics)", "Go evaluates && and || left to right"}
	r.Assumptions = []string{"lint implementations do not call each other's Execute through the framework (checked: no other invoke site)"}
	r.Exhaustive = true

	methodsOK := c03WindowMethods(c, r)
	if c.FuncMaybe("lint", "checkEffective") != nil {
		// the helper of the reference tree still exists: its own table and the way the
		// three methods call it (implied by window-method, kept as a second view)
		c03WindowTable(c, r)
	}
	c03Binding(c, r, methodsOK)
	lcReport(c, r, "lifecycle", nil)
	c03NoBypass(c, r)
	c03Dates(c, r)
	// what a result set shows under a lint's name is that lint's own life-cycle
	// result (an NE that is overwritten by, or swapped with, another lint's result
	// on the way into Results is a finding outside the window all the same)
	c01Loops(c, r)
	// … and the object whose window is tested is the caller's object: Lint*Ex hand
	// their own argument (not a re-parsed or substituted copy) to the result loop
	c01Entry(c, r)
	r.Finish()
}

func c03WindowTable(c *Ctx, r *Report) {
	fn := c.Func("lint", "checkEffective")
	outs, abort := Enumerate(fn, SymOpts{MaxDepth: 3, Inline: lcInline})
	if abort != "" {
		r.Unk("window-table", "checkEffective", fn.Pos(), "table not extracted: "+abort)
		return
	}
	if len(fn.Params) != 3 {
		r.Unk("window-table", "checkEffective", fn.Pos(), "unexpected signature")
		return
	}
	pe, pi, pt := fn.Params[0].Name(), fn.Params[1].Name(), fn.Params[2].Name()
	for i, o := range outs {
		if i < 6 {
			r.Sample(map[string]interface{}{"table_of": "lint.checkEffective", "path": o.Summary()})
		}
	}
	vals := []int64{-1, 0, 1, 2, 3}
	n := 0
	for _, e := range vals {
		for _, iv := range vals {
			for _, tt := range vals {
				n++
				key := fmt.Sprintf("e=%d,i=%d,t=%d", e, iv, tt)
				tv := func(t *T) (int64, bool) {
					switch t.String() {
					case pe:
						return e, true
					case pi:
						return iv, true
					case pt:
						return tt, true
					}
					return 0, false
				}
				oracle := func(t *T) (interface{}, bool) {
					if t.Op != "call" {
						return nil, false
					}
					var vs []int64
					for _, a := range t.Args {
						v, ok := tv(a)
						if !ok {
							return nil, false
						}
						vs = append(vs, v)
					}
					switch t.Name {
					case "(time.Time).IsZero":
						return vs[0] == 0, true
					case "(time.Time).Before":
						return vs[0] < vs[1], true
					case "(time.Time).After":
						return vs[0] > vs[1], true
					case "(time.Time).Equal":
						return vs[0] == vs[1], true
					case "(time.Time).Compare":
						return cmp3(vs[0], vs[1]), true
					}
					return nil, false
				}
				sel, err := Select(outs, oracle)
				if err != nil || len(sel) != 1 {
					r.Unk("window-table", key, fn.Pos(), fmt.Sprintf("table not evaluable (%v, %d paths)", err, len(sel)))
					continue
				}
				o := sel[0]
				if o.Kind != "return" || len(o.Results) != 1 {
					r.Unk("window-table", key, fn.Pos(), "path does not return a value: "+o.Kind+" "+o.Why)
					continue
				}
				got, err := Eval(o.Results[0], oracle)
				if err != nil {
					r.Unk("window-table", key, fn.Pos(), err.Error())
					continue
				}
				want := (e == 0 || tt >= e) && (iv == 0 || tt < iv)
				r.Check(got == want, "window-table", key, fn.Pos(), fmt.Sprint(want),
					fmt.Sprintf("checkEffective(effective=%d, ineffective=%d, target=%d) (instants, 0 = zero time) yields %v, the half-open window requires %v", e, iv, tt, got, want))
			}
		}
	}
	r.Floor("window-table cases", 125, n)
}

// c03WindowMethods: the decision table of each kind's CheckEffective method, with
// every module callee inlined, evaluated on all orderings of the lint's own
// EffectiveDate / IneffectiveDate fields and the object's target field. This is
// window-table and window-binding in one, independent of how the computation is
// split into helpers.
func c03WindowMethods(c *Ctx, r *Report) bool {
	allOK := true
	for _, k := range lcKinds {
		fn := c.Method("lint", k.Recv, "CheckEffective")
		id := k.Recv + ".CheckEffective"
		outs, abort := Enumerate(fn, SymOpts{MaxDepth: 5})
		if abort != "" || len(fn.Params) != 2 {
			r.Unk("window-method", id, fn.Pos(), "table not extracted: "+abort)
			allOK = false
			continue
		}
		recv, obj := fn.Params[0].Name(), fn.Params[1].Name()
		vals := []int64{-1, 0, 1, 2, 3}
		bad, und := "", ""
		n := 0
		for _, e := range vals {
			for _, iv := range vals {
				for _, tt := range vals {
					n++
					tv := func(t *T) (int64, bool) {
						s := t.String()
						switch {
						case strings.HasPrefix(s, recv+".") && strings.HasSuffix(s, ".IneffectiveDate"):
							return iv, true
						case strings.HasPrefix(s, recv+".") && strings.HasSuffix(s, ".EffectiveDate"):
							return e, true
						case s == obj+"."+k.Target:
							return tt, true
						}
						return 0, false
					}
					oracle := func(t *T) (interface{}, bool) {
						if t.Op != "call" {
							return nil, false
						}
						var vs []int64
						for _, a := range t.Args {
							v, ok := tv(a)
							if !ok {
								return nil, false
							}
							vs = append(vs, v)
						}
						switch t.Name {
						case "(time.Time).IsZero":
							return vs[0] == 0, true
						case "(time.Time).Before":
							return vs[0] < vs[1], true
						case "(time.Time).After":
							return vs[0] > vs[1], true
						case "(time.Time).Equal":
							return vs[0] == vs[1], true
						case "(time.Time).Compare":
							return cmp3(vs[0], vs[1]), true
						}
						return nil, false
					}
					sel, err := Select(outs, oracle)
					if err != nil || len(sel) != 1 || sel[0].Kind != "return" || len(sel[0].Results) != 1 {
						und = fmt.Sprintf("table not evaluable at e=%d,i=%d,t=%d (%v, %d paths): the method observes something other than the order of its own EffectiveDate / IneffectiveDate and the object's %s", e, iv, tt, err, len(sel), k.Target)
						continue
					}
					got, err := Eval(sel[0].Results[0], oracle)
					if err != nil {
						und = err.Error()
						continue
					}
					want := (e == 0 || tt >= e) && (iv == 0 || tt < iv)
					if got != want && bad == "" {
						bad = fmt.Sprintf("%s with EffectiveDate=%d, IneffectiveDate=%d, %s=%d (instants, 0 = zero time) yields %v, the half-open window requires %v", id, e, iv, k.Target, tt, got, want)
					}
				}
			}
		}
		switch {
		case und != "":
			r.Unk("window-method", id, fn.Pos(), und)
			allOK = false
		case bad != "":
			r.Bad("window-method", id, fn.Pos(), bad)
			allOK = false
		default:
			r.OK("window-method", id, fn.Pos(), true, fmt.Sprintf("%d orderings of (EffectiveDate, IneffectiveDate, %s): (zero(e) ∨ t ≥ e) ∧ (zero(i) ∨ t < i)", n, k.Target))
		}
	}
	return allOK
}

func c03Binding(c *Ctx, r *Report, methodsOK bool) {
	n := 0
	for _, k := range lcKinds {
		fn := c.Method("lint", k.Recv, "CheckEffective")
		calls := callsTo(fn, "lint.checkEffective")
		id := k.Recv + ".CheckEffective"
		if methodsOK && (len(calls) != 1 || len(realReturns(fn)) != 1) {
			n++ // decided by window-method, whatever the helper structure
			continue
		}
		if len(calls) != 1 || len(realReturns(fn)) != 1 {
			// the window may be computed inline instead: decided by the lifecycle table
			r.Unk("window-binding", id, fn.Pos(), fmt.Sprintf("%d calls of checkEffective, %d returns (expected 1/1)", len(calls), len(realReturns(fn))))
			continue
		}
		n++
		a := calls[0].Common().Args
		recv, obj := fn.Params[0].Name(), fn.Params[1].Name()
		got := []string{apath(a[0]), apath(a[1]), apath(a[2])}
		want := []string{recv + ".LintMetadata.EffectiveDate", recv + ".LintMetadata.IneffectiveDate", obj + "." + k.Target}
		ok := strings.Join(got, ",") == strings.Join(want, ",")
		ret := retVals(realReturns(fn)[0])
		ok = ok && len(ret) == 1 && ret[0] == calls[0].Value()
		r.Check(ok, "window-binding", id, fn.Pos(), strings.Join(got, ", "),
			fmt.Sprintf("CheckEffective must return checkEffective(%s); it passes (%s)", strings.Join(want, ", "), strings.Join(got, ", ")))
	}
	r.Floor("CheckEffective siblings", 3, n)
	// deprecated wrapper
	tcl := c.Method("lint", "Lint", "toCertificateLint")
	outs, abort := Enumerate(tcl, SymOpts{Inline: func(*ssa.Function) bool { return false }})
	if abort != "" || len(outs) != 1 || outs[0].Kind != "return" {
		r.Unk("legacy-wrapper", "Lint.toCertificateLint", tcl.Pos(), "not a single straight-line path")
	} else {
		o := outs[0]
		res := o.Results[0]
		ok := res.Op == "obj"
		var missing []string
		for _, f := range []string{"Name", "Description", "Citation", "Source", "EffectiveDate", "IneffectiveDate"} {
			v := o.Mem["&"+strings.TrimPrefix(res.String(), "&")+".LintMetadata."+f]
			if v == nil || v.String() != "l."+f {
				ok = false
				missing = append(missing, f)
			}
		}
		if v := o.Field(res, "Lint"); v == nil || v.String() != "l.Lint" {
			ok = false
			missing = append(missing, "Lint")
		}
		r.Check(ok, "legacy-wrapper", "Lint.toCertificateLint", tcl.Pos(), "copies the six metadata fields and the constructor", fmt.Sprintf("deprecated Lint wrapper does not carry over %v: its window/scope would differ from the registered lint's", missing))
	}
	for _, m := range []string{"Execute", "CheckEffective"} {
		fn := c.Method("lint", "Lint", m)
		ok := false
		for _, call := range callsTo(fn, "(*lint.CertificateLint)."+m) {
			if strings.HasPrefix(apath(call.Common().Args[0]), "(*lint.Lint).toCertificateLint(") {
				rets := realReturns(fn)
				if len(rets) == 1 && retVals(rets[0])[0] == call.Value() {
					ok = true
				}
			}
		}
		r.Check(ok, "legacy-wrapper", "Lint."+m, fn.Pos(), "delegates to CertificateLint."+m, "deprecated Lint."+m+" no longer delegates to the CertificateLint life-cycle")
	}
}

// c03NoBypass: invoke-mode calls of Execute/CheckApplies on the three lint
// interfaces appear only in the life-cycle functions.
func c03NoBypass(c *Ctx, r *Report) {
	allowed := map[*ssa.Function]bool{}
	for _, k := range lcKinds {
		allowed[c.Method("lint", k.Recv, k.Method)] = true
	}
	sites := 0
	for _, f := range modFunctions(c) {
		allInstrs(f, func(in ssa.Instruction) {
			call, ok := in.(ssa.CallInstruction)
			if !ok || !call.Common().IsInvoke() {
				return
			}
			m := call.Common().Method
			if m.Name() != "Execute" {
				return
			}
			recvT := call.Common().Value.Type()
			if !isLintBodyIface(c, recvT) {
				return
			}
			sites++
			ok = allowed[f]
			if !ok && isNewFunc(f) {
				// a helper newer than the rules that runs only on behalf of life-cycle functions
				if owners, okOwn := ownerFuncs(c, f); okOwn && len(owners) > 0 {
					ok = true
					for _, o := range owners {
						if !allowed[o] {
							ok = false
						}
					}
				}
			}
			r.Check(ok, "no-bypass", fname(f), in.Pos(), "life-cycle function",
				"rule body Execute is invoked through a lint interface outside the life-cycle functions: the effective window (and scope/applicability gating) is bypassed")
		})
	}
	r.Floor("interface Execute call sites", 3, sites)
}

func c03Dates(c *Ctx, r *Report) {
	cs := BuildCensus(c)
	r.Floor("registrations", 370, len(cs.Regs))
	distinct := map[int64]bool{}
	for _, reg := range cs.Regs {
		if reg.Err != "" {
			r.Unk("census", regLocation(c, reg), reg.Call.Pos(), "registration not understood: "+reg.Err)
			continue
		}
		for which, dv := range map[string]DateVal{"EffectiveDate": reg.Eff, "IneffectiveDate": reg.Ineff} {
			if !dv.Set {
				continue
			}
			if dv.OK {
				distinct[dv.Unix] = true
				r.OK("date-folds", reg.ID()+"|"+which, reg.Call.Pos(), false, fmt.Sprintf("%s = %d", dv.Expr, dv.Unix))
			} else {
				r.Unk("date-folds", reg.ID()+"|"+which, reg.Call.Pos(), "cannot fold "+dv.Expr+" to a UTC instant: "+dv.Why)
			}
		}
	}
	r.Extra["distinct_window_instants"] = len(distinct)
}

// cmp3: time.Time.Compare's result on abstract instants.
func cmp3(a, b int64) int64 {
	switch {
	case a < b:
		return -1
	case a > b:
		return 1
	}
	return 0
}
