package main

import (
	"fmt"
	"go/constant"
	"go/token"
	"go/types"
	"sort"
	"strings"

	"golang.org/x/tools/go/ssa"
)

func init() { register("C13", runC13) }

func runC13(c *Ctx, tier string) {
	r := NewReport("C13", "proof", tier, c)
	r.Explanation = "(1) source-exhaustive: the decision tables of LintSource.FromString and LintSource.UnmarshalJSON are evaluated on the value of every declared LintSource constant and on undeclared strings: each declared source other than Unknown is accepted and stored as itself, everything else yields Unknown / an error — so whatever Registry.Sources() can list (registrations only use declared constants — checked) is accepted by the source-list parser and survives JSON; (2) source-list: the decision table of SourceList.FromString (loop unrolled twice) returns an error as soon as an entry parses to Unknown, skips blank entries and appends the parsed source otherwise; the CLI feeds -includeSources/-excludeSources through it into FilterOptions and propagates its error; (3) names: the decision table of lintNamesToMap consults all three lookups with the trimmed name, returns an error when none knows it and records the trimmed name otherwise; Filter passes both ExcludeNames and IncludeNames through it and returns its error; (4) profiles: every lint name literal in every RegisterProfile call is a registered lint name (census). JSON library mechanics are trusted."
	r.Rule("source-exhaustive; source-list; cli-sources; names-validated; profiles-exist; name-list-verbatim; filter-selection; filter-identity; filter-config")
	r.Trusted = []string{"go/ssa", "strings.TrimSpace/Split", "encoding/json"}
	r.Exhaustive = true

	sourceSwitches(c, r, "source-exhaustive", false)
	c13SourceList(c, r)
	c13CLI(c, r)
	namesToMap(c, r, "names-validated")
	c13FilterUses(c, r)
	cs := BuildCensus(c)
	r.Floor("registrations", 370, len(cs.Regs))
	c13RegSources(c, r, cs)
	c13Profiles(c, r, cs)
	c13NameList(c, r, cs)
	// a listed name is accepted only if Filter, after validating it, also succeeds:
	// its loop walks the (duplicate-free) registered names once and registers each
	// selected lint once, so the "already registered" error cannot arise from a
	// valid selection (the rules of C08, evaluated here as well)
	filterChecks(c, r, true)
	c08Empty(c, r) // when Filter may hand back the registry it was given instead of a copy
	// listed = registered: Names()/Sources()/ByName/BySource answer from the tables register filled (registry coherence, C12)
	c12Registry(c, r)
	r.Finish()
}

// sourceSwitches evaluates FromString (unless jsonOnly) and UnmarshalJSON of
// LintSource on every declared constant and on undeclared strings.
func sourceSwitches(c *Ctx, r *Report, rule string, jsonOnly bool) {
	srcs := lintSources(c)
	var names []string
	for n := range srcs {
		names = append(names, n)
	}
	sort.Strings(names)
	unknownVal := srcs["UnknownLintSource"]
	if unknownVal == "" {
		fault("unresolved anchor: lint.UnknownLintSource")
	}
	type tc struct{ name, val string }
	var cases []tc
	for _, n := range names {
		cases = append(cases, tc{n, srcs[n]})
	}
	cases = append(cases, tc{"<undeclared>", "NoSuchSource"}, tc{"<empty>", ""}, tc{"<lower-case>", strings.ToLower(srcs[names[1]])})
	noInline := func(*ssa.Function) bool { return false }

	if !jsonOnly {
		fn := c.Method("lint", "LintSource", "FromString")
		outs, abort := Enumerate(fn, SymOpts{Inline: noInline})
		recv, arg := fn.Params[0].Name(), fn.Params[1].Name()
		for _, cse := range cases {
			key := "FromString|" + cse.name
			if abort != "" {
				r.Unk(rule, key, fn.Pos(), abort)
				continue
			}
			oracle := func(t *T) (interface{}, bool) {
				if t.Op == "call" && t.Name == "strings.TrimSpace" && len(t.Args) == 1 && t.Args[0].String() == arg {
					return cse.val, true
				}
				if t.String() == arg {
					return cse.val, true
				}
				if t.Op == "conv" && len(t.Args) == 1 {
					return nil, false
				}
				return nil, false
			}
			or2 := func(t *T) (interface{}, bool) {
				if v, ok := oracle(t); ok {
					return v, true
				}
				if t.Op == "conv" && len(t.Args) == 1 { // LintSource(src) is the identity on the string
					if v, err := Eval(t.Args[0], oracle); err == nil {
						return v, true
					}
				}
				return nil, false
			}
			sel, err := Select(outs, or2)
			if err != nil || len(sel) != 1 || sel[0].Kind != "return" {
				r.Unk(rule, key, fn.Pos(), fmt.Sprintf("table not evaluable: %v (%d paths)", err, len(sel)))
				continue
			}
			final := ""
			finalOK := false
			for _, ev := range sel[0].Trace {
				if ev.Kind == "store" && ev.Name == recv {
					if v, err := Eval(ev.Args[0], or2); err == nil {
						if s, ok := v.(string); ok {
							final, finalOK = s, true
						}
					} else {
						finalOK = false
					}
				}
			}
			want := cse.val
			if strings.HasPrefix(cse.name, "<") || cse.name == "UnknownLintSource" {
				want = unknownVal
			}
			r.Check(finalOK && final == want, rule, key, fn.Pos(), fmt.Sprintf("%q → %q", cse.val, final),
				fmt.Sprintf("LintSource.FromString(%q) leaves the source %q; it must be %q — a source the registry lists would be rejected by -includeSources/-excludeSources (or an unknown one accepted)", cse.val, final, want))
		}
		for i, o := range outs {
			if i < 2 {
				r.Sample(map[string]interface{}{"table_of": "LintSource.FromString", "path": o.Summary()})
			}
		}
	}

	fn := c.Method("lint", "LintSource", "UnmarshalJSON")
	outs, abort := Enumerate(fn, SymOpts{Inline: noInline})
	recv := fn.Params[0].Name()
	for _, cse := range cases {
		key := "UnmarshalJSON|" + cse.name
		if abort != "" {
			r.Unk(rule, key, fn.Pos(), abort)
			continue
		}
		oracle := func(t *T) (interface{}, bool) {
			if t.Op == "call" && t.Name == "encoding/json.Unmarshal" {
				return nil, true // the JSON string itself decodes
			}
			if t.Op == "havoc" && t.Name == "encoding/json.Unmarshal" {
				return cse.val, true
			}
			if t.Op == "conv" && len(t.Args) == 1 && t.Args[0].Op == "havoc" {
				return cse.val, true
			}
			return nil, false
		}
		sel, err := Select(outs, oracle)
		if err != nil || len(sel) != 1 || sel[0].Kind != "return" || len(sel[0].Results) != 1 {
			r.Unk(rule, key, fn.Pos(), fmt.Sprintf("table not evaluable: %v (%d paths)", err, len(sel)))
			continue
		}
		o := sel[0]
		accepted := o.Results[0].IsNil()
		final, finalOK := "", false
		for _, ev := range o.Trace {
			if ev.Kind == "store" && ev.Name == recv {
				if v, err := Eval(ev.Args[0], oracle); err == nil {
					if s, ok := v.(string); ok {
						final, finalOK = s, true
					}
				}
			}
		}
		wantAccept := !(strings.HasPrefix(cse.name, "<") || cse.name == "UnknownLintSource")
		ok := accepted == wantAccept
		if wantAccept {
			ok = ok && finalOK && final == cse.val
		}
		r.Check(ok, rule, key, fn.Pos(), fmt.Sprintf("%q accepted=%v", cse.val, accepted),
			fmt.Sprintf("LintSource.UnmarshalJSON(%q): accepted=%v stored=%q; required accepted=%v (declared sources decode to themselves, anything else is an error)", cse.val, accepted, final, wantAccept))
	}
	r.Floor("declared lint sources", 16, len(names))
}

func c13SourceList(c *Ctx, r *Report) {
	fn := c.Method("lint", "SourceList", "FromString")
	outs, abort := Enumerate(fn, SymOpts{Inline: func(*ssa.Function) bool { return false }, LoopBound: 1})
	if abort != "" {
		r.Unk("source-list", "SourceList.FromString", fn.Pos(), abort)
		return
	}
	unknown := lintSources(c)["UnknownLintSource"]
	bad := ""
	sawReject, sawAppend, sawBlank := false, false, false
	for _, o := range outs {
		if o.Kind == "abort" || o.Kind == "panic" {
			bad = "path not understood: " + o.Why
			continue
		}
		// walk the conditions in order; find tests of a parsed source against Unknown
		for _, cd := range o.Conds {
			s := cd.T.String()
			switch {
			case strings.Contains(s, "written-by:(*lint.LintSource).FromString") && strings.HasSuffix(s, "== "+fmt.Sprintf("%q", unknown)+")"):
				if cd.Val {
					// must be the last decision and the path must return an error
					if cd != o.Conds[len(o.Conds)-1] || o.Kind != "return" || len(o.Results) != 1 || o.Results[0].IsNil() {
						bad = "an entry that parses to Unknown does not make FromString return an error"
					}
					sawReject = true
				} else {
					sawAppend = true
				}
			case strings.HasPrefix(s, "(strings.TrimSpace(") && strings.HasSuffix(s, `== "")`):
				if cd.Val {
					sawBlank = true
				}
			case cd.T.Op == "bin" && cd.T.Name == "<":
			default:
				bad = "source list parsing branches on " + s
			}
		}
		if o.Kind == "return" && len(o.Results) == 1 && o.Results[0].IsNil() {
			// successful parse: every non-blank entry appended. count FromString calls vs appends
			from, app := 0, 0
			for _, ev := range o.Trace {
				if ev.Kind == "call" && ev.Name == "(*lint.LintSource).FromString" {
					from++
				}
				if ev.Kind == "call" && ev.Name == "builtin:append" {
					app++
				}
			}
			if from != app {
				bad = fmt.Sprintf("%d entries parsed but %d appended on a successful path", from, app)
			}
		}
	}
	if bad == "" && !(sawReject && sawAppend && sawBlank) {
		bad = fmt.Sprintf("cases missing: unknown-entry rejection=%v, append=%v, blank skipping=%v", sawReject, sawAppend, sawBlank)
	}
	r.Check(bad == "", "source-list", "SourceList.FromString", fn.Pos(), fmt.Sprintf("%d paths: Unknown ⇒ error, blank skipped, others appended", len(outs)), bad)
}

// c13CLI: in cmd/zlint setLints both source flags go through SourceList.FromString
// into the FilterOptions and the error is returned.
func c13CLI(c *Ctx, r *Report) {
	fn := c.Func("cmd/zlint", "setLints")
	targets := map[string]string{}
	var fsCalls []ssa.CallInstruction
	type fsSeen struct{ dst, src string }
	fsPaths := map[ssa.CallInstruction]fsSeen{}
	allInstrsDeep(fn, func(in ssa.Instruction) {
		if ci, ok := in.(ssa.CallInstruction); ok && staticCalleeName(ci.Common()) == "(*lint.SourceList).FromString" {
			fsCalls = append(fsCalls, ci)
			fsPaths[ci] = fsSeen{apath(ci.Common().Args[0]), apath(ci.Common().Args[1])} // with helper parameters standing for the caller's arguments
		}
	})
	for _, call := range fsCalls {
		dst := fsPaths[call].dst
		src := fsPaths[call].src
		cv, _ := call.(*ssa.Call)
		if cv == nil {
			continue
		}
		// the error must be tested and lead to a return of a non-nil error
		ok := false
		for _, ref := range *cv.Referrers() {
			if bo, isB := ref.(*ssa.BinOp); isB && (isNilConst(bo.X) || isNilConst(bo.Y)) {
				ok = true
			}
		}
		if ok {
			targets[lastField(dst)] = src
		}
	}
	// the same through a helper newer than the rules: field = helper(flag) where the
	// helper parses its argument with SourceList.FromString into a local list,
	// checks the error, and returns that list
	allInstrs(fn, func(in ssa.Instruction) {
		st, ok := in.(*ssa.Store)
		if !ok {
			return
		}
		fa, ok := st.Addr.(*ssa.FieldAddr)
		if !ok {
			return
		}
		field := fieldVar(fa).Name()
		if field != "IncludeSources" && field != "ExcludeSources" {
			return
		}
		call, ok := st.Val.(*ssa.Call)
		if !ok {
			return
		}
		h := call.Call.StaticCallee()
		if h == nil || !isNewFunc(h) {
			return
		}
		for _, inner := range callsTo(h, "(*lint.SourceList).FromString") {
			cv, _ := inner.(*ssa.Call)
			if cv == nil {
				continue
			}
			recv, isLocal := cv.Call.Args[0].(*ssa.Alloc)
			if !isLocal {
				continue
			}
			checked := false
			for _, ref := range *cv.Referrers() {
				if bo, isB := ref.(*ssa.BinOp); isB && (isNilConst(bo.X) || isNilConst(bo.Y)) {
					checked = true
				}
			}
			// every return of the helper hands out the parsed local
			returnsIt := true
			for _, ret := range realReturns(h) {
				for _, rv := range retVals(ret) {
					if ld, ok := rv.(*ssa.UnOp); !ok || ld.X != ssa.Value(recv) {
						returnsIt = false
					}
				}
			}
			// which argument of the helper is parsed
			for i, p := range h.Params {
				if cv.Call.Args[1] == ssa.Value(p) && i < len(call.Call.Args) && checked && returnsIt {
					targets[field] = apath(call.Call.Args[i])
				}
			}
		}
	})
	for _, f := range []struct{ field, flag string }{{"IncludeSources", "includeSources"}, {"ExcludeSources", "excludeSources"}} {
		src, ok := targets[f.field]
		r.Check(ok && strings.HasSuffix(src, "."+f.flag), "cli-sources", f.flag, fn.Pos(), src+" → "+f.field,
			fmt.Sprintf("-%s must be parsed by SourceList.FromString into FilterOptions.%s with its error checked (found source %q)", f.flag, f.field, src))
	}
}

// namesToMap: decision table of lintNamesToMap.
func namesToMap(c *Ctx, r *Report, rule string) {
	fn := c.Method("lint", "registryImpl", "lintNamesToMap")
	outs, abort := Enumerate(fn, SymOpts{Inline: func(*ssa.Function) bool { return false }, LoopBound: 1})
	if abort != "" {
		r.Unk(rule, "lintNamesToMap", fn.Pos(), abort)
		return
	}
	names := fn.Params[1].Name()
	bad := ""
	recvs := map[string]bool{}
	sawErr, sawOK := false, false
	for _, o := range outs {
		if o.Kind == "abort" || o.Kind == "panic" {
			bad = "path not understood: " + o.Why
			continue
		}
		// per iteration i the key must be TrimSpace(names[i])
		lookups := map[int][]string{} // iteration → receivers found nil
		hit := map[int]bool{}
		for _, cd := range o.Conds {
			t := cd.T
			s := t.String()
			if t.Op == "bin" && t.Name == "==" && t.Args[0].Op == "call" && strings.HasSuffix(t.Args[0].Name, "LinterLookupImpl).ByName") && t.Args[1].IsNil() {
				call := t.Args[0]
				keyArg := call.Args[1].String()
				it := -1
				for i := 0; i < 3; i++ {
					if keyArg == fmt.Sprintf("strings.TrimSpace(%s[%d])", names, i) {
						it = i
					}
				}
				if it < 0 {
					bad = "lookup key is " + keyArg + " — names must be compared after strings.TrimSpace"
					continue
				}
				recvs[call.Args[0].String()] = true
				if cd.Val {
					lookups[it] = append(lookups[it], call.Args[0].String())
				} else {
					hit[it] = true
				}
				continue
			}
			if t.Op == "bin" && (t.Name == "<" || (t.Name == "==" && strings.HasPrefix(s, "(builtin:len("))) {
				continue
			}
			bad = "name validation branches on " + s
		}
		if o.Kind == "return" && len(o.Results) == 2 {
			if !o.Results[1].IsNil() {
				// error path: the last iteration must have missed in all three lookups
				last := -1
				for it := range lookups {
					if it > last {
						last = it
					}
				}
				if last < 0 || len(lookups[last]) != 3 || hit[last] {
					bad = fmt.Sprintf("an 'unknown lint name' error is returned although only %v were consulted", lookups[last])
				}
				sawErr = true
			} else {
				for it, miss := range lookups {
					if !hit[it] && len(miss) > 0 {
						bad = "a name unknown to the lookups consulted is accepted"
					}
				}
				// every hit iteration records TrimSpace(name) → true
				for it := range hit {
					want := fmt.Sprintf("strings.TrimSpace(%s[%d])", names, it)
					found := false
					for _, ev := range o.Trace {
						if ev.Kind == "mapupdate" && ev.Args[0].String() == want && (ev.Args[1].String() == "true" || !isBoolTyped(ev.Args[1])) {
							found = true
						}
					}
					if !found {
						bad = "a known name is not recorded under its trimmed spelling"
					}
					sawOK = true
				}
			}
		}
	}
	if bad == "" && len(recvs) != 3 {
		bad = fmt.Sprintf("only %d of the 3 lookups (certificate, OCSP, CRL) are consulted", len(recvs))
	}
	if bad == "" && !(sawErr && sawOK) {
		bad = "table lacks the accept / reject cases"
	}
	r.Check(bad == "", rule, "lintNamesToMap", fn.Pos(), fmt.Sprintf("%d paths: trimmed name looked up in all three tables, unknown ⇒ error", len(outs)), bad)
}

// c13FilterUses: Filter validates both name lists and returns the error.
func c13FilterUses(c *Ctx, r *Report) {
	fn := c.Method("lint", "registryImpl", "Filter")
	seen := map[string]bool{}
	// calls of lintNamesToMap in Filter or in helpers newer than the rules that Filter
	// is split into (visited with the helper's parameters standing for Filter's arguments)
	allInstrsDeep(fn, func(in ssa.Instruction) {
		cv, _ := in.(*ssa.Call)
		if cv == nil || staticCalleeName(&cv.Call) != "(*lint.registryImpl).lintNamesToMap" {
			return
		}
		call := ssa.CallInstruction(cv)
		arg := apath(call.Common().Args[1])
		// the names must be validated against the registry being filtered itself,
		// not against a narrowed or derived registry
		if apath(call.Common().Args[0]) != fn.Params[0].Name() {
			r.Bad("names-validated", "Filter|receiver|"+lastField(arg), call.Pos(), "Filter validates FilterOptions."+lastField(arg)+" against "+apath(call.Common().Args[0])+" instead of the registry being filtered: a name this registry lists can be rejected as unknown")
			return
		}
		// error component tested against nil with a return of (nil, err)
		tested := false
		for _, ref := range *cv.Referrers() {
			if ex, ok := ref.(*ssa.Extract); ok && ex.Index == 1 {
				for _, rr := range *ex.Referrers() {
					if bo, ok := rr.(*ssa.BinOp); ok && (isNilConst(bo.X) || isNilConst(bo.Y)) {
						for _, r3 := range *bo.Referrers() {
							if iff, ok := r3.(*ssa.If); ok {
								errBlk := iff.Block().Succs[0]
								if bo.Op.String() == "==" {
									errBlk = iff.Block().Succs[1]
								}
								if ret, ok := errBlk.Instrs[len(errBlk.Instrs)-1].(*ssa.Return); ok {
									rv := retVals(ret)
									if len(rv) >= 1 && rv[len(rv)-1] == ex {
										tested = true
									}
								}
							}
						}
					}
				}
			}
		}
		if tested {
			seen[lastField(arg)] = true
		}
	})
	// every error Filter can return comes from name validation, the documented
	// NameFilter/name-list conflict, or re-registration — in particular never from
	// the source lists: every declared source is a valid selector even when no
	// lint (of some kind) carries it
	origins := map[string]token.Pos{}
	var trace func(v ssa.Value, seenV map[ssa.Value]bool)
	trace = func(v ssa.Value, seenV map[ssa.Value]bool) {
		if seenV[v] {
			return
		}
		seenV[v] = true
		switch x := v.(type) {
		case *ssa.Const:
		case *ssa.Phi:
			for _, e := range x.Edges {
				trace(e, seenV)
			}
		case *ssa.Extract:
			trace(x.Tuple, seenV)
		case *ssa.Call:
			if callee := x.Call.StaticCallee(); callee != nil {
				if isNewFunc(callee) && len(callee.Blocks) > 0 {
					// a helper newer than the rules: the errors it can return are Filter's
					for _, ret := range returnsOf(callee) {
						rv := retVals(ret)
						if n := len(rv); n > 0 && strings.HasSuffix(rv[n-1].Type().String(), "error") {
							trace(rv[n-1], seenV)
						}
					}
					return
				}
				origins[fname(callee)] = x.Pos()
			} else {
				origins["<dynamic call>"] = x.Pos()
			}
		case *ssa.MakeInterface:
			trace(x.X, seenV)
		case *ssa.ChangeInterface:
			trace(x.X, seenV)
		case *ssa.UnOp:
			if g, ok := x.X.(*ssa.Global); ok && sentinelError(g) {
				origins["errors.New"] = x.Pos() // a package-level sentinel made by errors.New / fmt.Errorf
				return
			}
			origins["load "+apath(x.X)] = x.Pos()
		default:
			origins[fmt.Sprintf("%T", v)] = v.Pos()
		}
	}
	allInstrs(fn, func(in ssa.Instruction) {
		if ret, ok := in.(*ssa.Return); ok {
			if rv := retVals(ret); len(rv) == 2 {
				trace(rv[1], map[ssa.Value]bool{})
			}
		}
	})
	allowed := map[string]bool{"(*lint.registryImpl).lintNamesToMap": true, "errors.New": true, "fmt.Errorf": true, "<dynamic call>": true,
		// re-registration errors, whether they come back through the per-kind closure or directly
		"(*lint.registryImpl).registerCertificateLint": true, "(*lint.registryImpl).registerRevocationListLint": true, "(*lint.registryImpl).registerOcspResponseLint": true}
	nOrig := 0
	for o, pos := range origins {
		nOrig++
		r.Check(allowed[o], "filter-errors", "Filter|"+o, pos, "error origin allowed (name validation / NameFilter conflict / re-registration)",
			"Filter can fail with an error produced by "+o+": only unknown names, the NameFilter/name-list conflict and re-registration may be rejected — a listed source or name must be accepted")
	}
	r.Floor("error origins of Filter", 2, nOrig)
	if f := c.FuncMaybe("lint", "sourceListToMap"); f != nil {
		res := f.Signature.Results()
		r.Check(res.Len() == 1, "filter-errors", "sourceListToMap|signature", f.Pos(), "returns only the set", "sourceListToMap can return an error: a source the registry lists could be rejected by Filter")
	}
	for _, f := range []string{"ExcludeNames", "IncludeNames"} {
		r.Check(seen[f], "names-validated", "Filter|"+f, fn.Pos(), "validated by lintNamesToMap, error returned", "Filter does not pass FilterOptions."+f+" through lintNamesToMap and return its error: unknown names would be ignored silently")
	}
}

func c13RegSources(c *Ctx, r *Report, cs *Census) {
	unknown := lintObj(c, "UnknownLintSource")
	for _, reg := range cs.Regs {
		if reg.Err != "" {
			r.Unk("census", regLocation(c, reg), reg.Call.Pos(), reg.Err)
			continue
		}
		ok := reg.Source != nil && reg.Source != unknown && isModPkg(reg.Source.Pkg()) && reg.Source.Val().Kind() == constant.String
		r.Check(ok, "registered-source-declared", reg.ID(), reg.Call.Pos(), reg.SourceEx, "lint uses a source that is not a declared LintSource constant ("+reg.SourceEx+"): it is listed but cannot be selected")
	}
}

func c13Profiles(c *Ctx, r *Report, cs *Census) {
	names := map[string]bool{}
	for _, reg := range cs.Regs {
		if reg.NameOK {
			names[reg.Name] = true
		}
	}
	n := 0
	for _, pr := range cs.ProfileRegs {
		if pr.Err != "" {
			r.Unk("profiles-exist", c.Pos(pr.Call.Pos()), pr.Call.Pos(), pr.Err)
			continue
		}
		for i, nm := range pr.Names {
			n++
			r.Check(names[nm], "profiles-exist", pr.Name+"|"+nm, pr.NamePos[i], "", fmt.Sprintf("profile %q names lint %q which is not registered: selecting the profile fails", pr.Name, nm))
		}
	}
	r.Extra["profiles"] = len(cs.ProfileRegs)
	r.Extra["profile_lint_names"] = n
	// positive control for a rule whose expected count is zero on this tree
	r.OK("profiles-exist", "<census>", 0, false, fmt.Sprintf("%d RegisterProfile calls, %d lint names checked", len(cs.ProfileRegs), n))
}

// isBoolTyped: the term has boolean type (a set represented as map[T]struct{}
// stores a non-boolean marker; membership is then the comma-ok lookup).
func isBoolTyped(t *T) bool {
	if t == nil || t.Typ == nil {
		return true
	}
	b, ok := t.Typ.Underlying().(*types.Basic)
	return ok && b.Info()&types.IsBoolean != 0
}

// sentinelError: a package-level error variable of the module whose only store
// is its initialiser errors.New(...) / fmt.Errorf(...).
func sentinelError(g *ssa.Global) bool {
	if g.Pkg == nil || !isModPkg(g.Pkg.Pkg) {
		return false
	}
	initFn := g.Pkg.Func("init")
	if initFn == nil {
		return false
	}
	n, ok := 0, false
	allInstrs(initFn, func(in ssa.Instruction) {
		st, isSt := in.(*ssa.Store)
		if !isSt || st.Addr != ssa.Value(g) {
			return
		}
		n++
		v := st.Val
		if mi, isMI := v.(*ssa.MakeInterface); isMI {
			v = mi.X
		}
		if call, isCall := v.(*ssa.Call); isCall {
			switch staticCalleeName(&call.Call) {
			case "errors.New", "fmt.Errorf":
				ok = true
			}
		}
	})
	if n != 1 || !ok {
		return false
	}
	// no other function stores to it
	for _, m := range g.Pkg.Members {
		if f, isF := m.(*ssa.Function); isF && f != initFn {
			bad := false
			allInstrs(f, func(in ssa.Instruction) {
				if st, isSt := in.(*ssa.Store); isSt && st.Addr == ssa.Value(g) {
					bad = true
				}
			})
			if bad {
				return false
			}
		}
	}
	return true
}
