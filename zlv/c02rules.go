package main

// C02, automatic discharge rules for bounds obligations that rest on an
// invariant the checker can re-establish from source on every run:
//
//   name-nonempty   X[0] where X is a slice field of zcrypto's pkix.Name and the
//                   access is dominated by X != nil. The parser invariant behind
//                   it ("a non-nil field has an element") is itself re-checked:
//                   every store to such a field in zcrypto's x509 / pkix packages
//                   stores the result of append(...) with at least one element,
//                   or nil.
//   sort-contract   recv[i] inside Less / Swap of a type implementing
//                   sort.Interface, i a parameter, and the method has no direct
//                   caller in the module (only package sort calls it, with
//                   0 <= i < Len()).

import (
	"fmt"
	"go/constant"
	"go/token"
	"go/types"
	"regexp"
	"sort"
	"strconv"
	"strings"

	"golang.org/x/tools/go/ssa"
	"golang.org/x/tools/go/ssa/ssautil"
)

type c02Auto struct {
	c        *Ctx
	byPos    map[token.Pos]ssa.Instruction
	nameInv  string // "" = invariant holds; else the offending store
	nameDone bool
	nStores  int
}

func newC02Auto(c *Ctx) *c02Auto {
	a := &c02Auto{c: c, byPos: map[token.Pos]ssa.Instruction{}}
	for _, f := range modFunctions(c) {
		if !scopePkg(fnPkgPath(f)) {
			continue
		}
		allInstrs(f, func(in ssa.Instruction) {
			switch in.(type) {
			case *ssa.IndexAddr, *ssa.Index, *ssa.Slice, *ssa.Lookup:
				if in.Pos().IsValid() {
					a.byPos[in.Pos()] = in
				}
			case *ssa.Call, *ssa.TypeAssert:
				if _, taken := a.byPos[in.Pos()]; in.Pos().IsValid() && !taken {
					a.byPos[in.Pos()] = in
				}
			}
		})
	}
	return a
}

func isPkixName(t types.Type) bool {
	if p, ok := t.Underlying().(*types.Pointer); ok {
		t = p.Elem()
	}
	n, ok := t.(*types.Named)
	return ok && n.Obj().Name() == "Name" && n.Obj().Pkg() != nil && strings.HasSuffix(n.Obj().Pkg().Path(), "zcrypto/x509/pkix")
}

// guardedByPath: block b is dominated by the "path != nil" edge of a test in
// the same function (the value is re-loaded at each use: no CSE in go/ssa, so
// values are compared by access path; lints never write the certificate — C05).
func guardedByPath(b *ssa.BasicBlock, path string) bool {
	for d := b; d != nil; d = d.Idom() {
		id := d.Idom()
		if id == nil {
			return false
		}
		iff, ok := id.Instrs[len(id.Instrs)-1].(*ssa.If)
		if !ok {
			continue
		}
		bo, ok := iff.Cond.(*ssa.BinOp)
		if !ok || (bo.Op != token.NEQ && bo.Op != token.EQL) {
			continue
		}
		var v ssa.Value
		if isNilConst(bo.Y) {
			v = bo.X
		} else if isNilConst(bo.X) {
			v = bo.Y
		} else {
			continue
		}
		if apath(v) != path {
			continue
		}
		want := 0
		if bo.Op == token.EQL {
			want = 1
		}
		s := id.Succs[want]
		if len(s.Preds) == 1 && s.Dominates(b) {
			return true
		}
	}
	return false
}

// nameInvariant: in zcrypto's x509 and pkix packages every store to a slice
// field of pkix.Name stores nil or append(old, at least one element).
func (a *c02Auto) nameInvariant() string {
	if a.nameDone {
		return a.nameInv
	}
	a.nameDone = true
	for _, f := range allFunctionsSorted(a.c) {
		pp := fnPkgPath(f)
		if !strings.Contains(pp, "zcrypto/x509") || strings.Contains(pp, "/ct") {
			continue
		}
		if f.Name() == "UnmarshalJSON" {
			continue // JSON decoding of a Name is not a path from DER bytes to a lint
		}
		allInstrs(f, func(in ssa.Instruction) {
			st, ok := in.(*ssa.Store)
			if !ok {
				return
			}
			fa, ok := st.Addr.(*ssa.FieldAddr)
			if !ok || !isPkixName(fa.X.Type()) {
				return
			}
			if st.Val.Type().String() != "[]string" {
				return
			}
			a.nStores++
			if isNilConst(st.Val) || appendsSomething(st.Val) {
				return
			}
			if a.nameInv == "" {
				a.nameInv = "store of " + trimStr(st.Val.String(), 60) + " to a []string field of pkix.Name in " + f.String() + " at " + a.c.Pos(st.Pos())
			}
		})
	}
	if a.nStores == 0 && a.nameInv == "" {
		a.nameInv = "no store to a []string field of pkix.Name found in zcrypto (anchor lost)"
	}
	return a.nameInv
}

// appendsSomething: v = append(x, e1, ...) with at least one appended element,
// or append(x, y...) — the latter does not guarantee non-emptiness and is refused.
func appendsSomething(v ssa.Value) bool {
	call, ok := v.(*ssa.Call)
	if !ok {
		return false
	}
	b, ok := call.Call.Value.(*ssa.Builtin)
	if !ok || b.Name() != "append" || len(call.Call.Args) != 2 {
		return false
	}
	// variadic elements arrive as a slice of a fresh array: new [n]T (varargs)[:]
	sl, ok := call.Call.Args[1].(*ssa.Slice)
	if !ok {
		return false
	}
	al, ok := sl.X.(*ssa.Alloc)
	if !ok {
		return false
	}
	arr, ok := al.Type().Underlying().(*types.Pointer).Elem().Underlying().(*types.Array)
	return ok && arr.Len() >= 1
}

// discharge tries the automatic rules for the bounds site at pos.
func (a *c02Auto) discharge(s *panicSite) string {
	in := a.byPos[s.pos]
	if in == nil {
		return ""
	}
	var x, idx ssa.Value
	switch v := in.(type) {
	case *ssa.IndexAddr:
		x, idx = v.X, v.Index
	case *ssa.Index:
		x, idx = v.X, v.Index
	case *ssa.Slice:
		// after-separator: s[strings.Index*(s, sep)+1:] / s[strings.LastIndex*(s, sep)+1:]
		// with a constant, non-empty separator — the index functions return a value in
		// [-1, len(s)-len(sep)], so the low bound lies in [0, len(s)] (documented)
		if v.High == nil && v.Max == nil && v.Low != nil {
			if bo, ok := v.Low.(*ssa.BinOp); ok && bo.Op == token.ADD {
				if k, ok := bo.Y.(*ssa.Const); ok && k.Value != nil && k.Value.Kind() == constant.Int && k.Int64() == 1 {
					if call, ok := bo.X.(*ssa.Call); ok && len(call.Call.Args) == 2 && call.Call.Args[0] == v.X {
						switch staticCalleeName(&call.Call) {
						case "strings.Index", "strings.LastIndex", "strings.IndexByte", "strings.LastIndexByte", "strings.IndexRune", "bytes.Index", "bytes.LastIndex", "bytes.IndexByte", "bytes.LastIndexByte":
							sep, isK := call.Call.Args[1].(*ssa.Const)
							if isK && sep.Value != nil && (sep.Value.Kind() != constant.String || constant.StringVal(sep.Value) != "") {
								return "after-separator: the low bound is " + staticCalleeName(&call.Call) + "(s, constant non-empty separator) + 1 on the sliced string itself, which lies in [0, len(s)]"
							}
						}
					}
				}
			}
		}
		// index-result: s[:i] / s[i:] where i = strings.Index*/IndexAny/…(s, …) on the
		// sliced string itself and the slice is dominated by the i >= 0 edge: the index
		// functions return -1 or a position in [0, len(s)) (documented)
		for _, bound := range []ssa.Value{v.Low, v.High} {
			if bound == nil {
				continue
			}
			other := v.High
			if bound == v.High {
				other = v.Low
			}
			if other != nil {
				if k, isK := other.(*ssa.Const); !isK || k.Value == nil || k.Int64() != 0 {
					continue
				}
			}
			call, ok := bound.(*ssa.Call)
			if !ok || len(call.Call.Args) < 1 || call.Call.Args[0] != v.X {
				continue
			}
			switch staticCalleeName(&call.Call) {
			case "strings.Index", "strings.LastIndex", "strings.IndexByte", "strings.LastIndexByte", "strings.IndexRune", "strings.IndexAny", "strings.LastIndexAny", "strings.IndexFunc", "strings.LastIndexFunc",
				"bytes.Index", "bytes.LastIndex", "bytes.IndexByte", "bytes.LastIndexByte", "bytes.IndexAny", "bytes.IndexRune", "bytes.IndexFunc":
				if nonNegativeGuard(in.Block(), call) {
					return "index-result: the bound is " + staticCalleeName(&call.Call) + "(s, …) on the sliced value itself, used under its >= 0 edge, hence in [0, len(s))"
				}
			}
		}
		return ""
	default:
		return ""
	}
	fn := in.Parent()
	// index-sum-guard: x[i+c] dominated by the true edge of (i+k) < len(x), 0 <= c <= k,
	// for a counter i that starts at a non-negative constant and never decreases
	if why := indexSumGuard(in, x, idx); why != "" {
		return why
	}
	// name-nonempty
	if k, ok := idx.(*ssa.Const); ok && k.Value != nil && k.Value.Kind() == constant.Int && k.Int64() == 0 {
		if ld, ok := x.(*ssa.UnOp); ok && ld.Op == token.MUL {
			if fa, ok := ld.X.(*ssa.FieldAddr); ok && isPkixName(fa.X.Type()) {
				if guardedByPath(in.Block(), apath(x)) {
					if why := a.nameInvariant(); why != "" {
						s.detail += " (the parser invariant 'non-nil pkix.Name field has an element' no longer holds: " + why + ")"
						return ""
					}
					return "name-nonempty: dominated by " + apath(x) + " != nil, and every store to a []string field of pkix.Name in zcrypto's x509 packages is nil or append(old, element…) (" + itoa(a.nStores) + " stores checked), so a non-nil field has an element"
				}
			}
		}
	}
	// sort-contract
	if fn.Signature.Recv() != nil && (fn.Name() == "Less" || fn.Name() == "Swap") && len(fn.Params) == 3 {
		if implementsSort(fn.Signature.Recv().Type()) {
			recvOK := x == ssa.Value(fn.Params[0])
			if ld, ok := x.(*ssa.UnOp); ok && ld.Op == token.MUL && ld.X == ssa.Value(fn.Params[0]) {
				recvOK = true
			}
			if recvOK && (idx == ssa.Value(fn.Params[1]) || idx == ssa.Value(fn.Params[2])) {
				if who := a.directCaller(fn); who != "" {
					s.detail += " (sort.Interface method called directly from " + who + ")"
					return ""
				}
				return "sort-contract: " + fn.Name() + " of a sort.Interface implementation indexes its receiver with its own parameter; it has no direct caller in the module, and package sort calls it with 0 <= i, j < Len() only"
			}
		}
	}
	return ""
}

func implementsSort(t types.Type) bool {
	ms := types.NewMethodSet(t)
	return ms.Lookup(nil, "Len") != nil && ms.Lookup(nil, "Less") != nil && ms.Lookup(nil, "Swap") != nil
}

func (a *c02Auto) directCaller(target *ssa.Function) string {
	obj := target.Object()
	for _, p := range a.c.Mod {
		for id, o := range p.TypesInfo.Uses {
			if o == obj {
				return a.c.Pos(id.Pos())
			}
		}
	}
	return ""
}

func itoa(n int) string { return strconv.Itoa(n) }

func allFunctionsSorted(c *Ctx) []*ssa.Function {
	var out []*ssa.Function
	for f := range ssautil.AllFunctions(c.Prog) {
		out = append(out, f)
	}
	sort.Slice(out, func(i, j int) bool { return out[i].String() < out[j].String() })
	return out
}

// dominatedBy: witness "dominated-by [!]<regexp>" — the instruction of the
// site is dominated by the true (with !: the false) edge of a branch whose
// condition, printed as an access path, matches the regexp.
func (a *c02Auto) dominatedBy(s *panicSite, pat string) string {
	in := a.byPos[s.pos]
	if in == nil {
		return "no SSA instruction at the site (cannot re-check the guard)"
	}
	return instrDominatedBy(in, pat)
}

// callersDominatedBy: witness "callers-dominated-by [!]<regexp>" — the function
// containing the site is only ever called (never used as a value), has at
// least one caller, and every call is dominated by a matching branch of the caller.
func (a *c02Auto) callersDominatedBy(s *panicSite, pat string) string {
	in := a.byPos[s.pos]
	if in == nil {
		return "no SSA instruction at the site (cannot re-check the guard)"
	}
	fn := in.Parent()
	n := 0
	for _, f := range modFunctions(a.c) {
		for _, b := range f.Blocks {
			for _, i2 := range b.Instrs {
				for _, op := range i2.Operands(nil) {
					if *op != ssa.Value(fn) {
						continue
					}
					call, ok := i2.(ssa.CallInstruction)
					if !ok || call.Common().Value != ssa.Value(fn) {
						return fn.Name() + " is used as a value in " + f.String() + " (callers cannot be enumerated)"
					}
					n++
					if why := instrDominatedBy(i2, pat); why != "" {
						return "call of " + fn.Name() + " in " + f.String() + " at " + a.c.Pos(i2.Pos()) + ": " + why
					}
				}
			}
		}
	}
	if n == 0 {
		return fn.Name() + " has no caller in the module"
	}
	return ""
}

func instrDominatedBy(in ssa.Instruction, pat string) string {
	neg := strings.HasPrefix(pat, "!")
	re, err := regexp.Compile(strings.TrimPrefix(pat, "!"))
	if err != nil {
		return "bad regexp in witness: " + err.Error()
	}
	var seen []string
	b := in.Block()
	for d := b; d != nil; d = d.Idom() {
		id := d.Idom()
		if id == nil {
			break
		}
		iff, ok := id.Instrs[len(id.Instrs)-1].(*ssa.If)
		if !ok {
			continue
		}
		cond, edge := iff.Cond, 0
		for {
			if u, ok := cond.(*ssa.UnOp); ok && u.Op == token.NOT {
				cond, edge = u.X, 1-edge
				continue
			}
			break
		}
		txt := apath(cond)
		for i, p := range in.Parent().Params {
			txt = regexp.MustCompile(`(^|[^\w.:])`+regexp.QuoteMeta(p.Name())+`\b`).ReplaceAllString(txt, "${1}$$"+itoa(i))
		}
		txt = normExpr(txt)
		for i := 0; i < 2; i++ {
			succ := id.Succs[i]
			if len(succ.Preds) == 1 && succ.Dominates(b) {
				pol := i == edge // condition (after stripping !) is true on this edge
				mark := ""
				if !pol {
					mark = "!"
				}
				seen = append(seen, mark+txt)
				if re.MatchString(txt) && pol == !neg {
					return ""
				}
			}
		}
	}
	return "the site is no longer dominated by a branch matching " + pat + " (dominating conditions: " + trimStr(strings.Join(seen, " ; "), 300) + ")"
}

// splitIndex: v = base + c with a non-negative constant c (c = 0 when v is not a sum).
func splitIndex(v ssa.Value) (ssa.Value, int64) {
	if bo, ok := v.(*ssa.BinOp); ok && bo.Op == token.ADD {
		if k, ok := bo.Y.(*ssa.Const); ok && k.Value != nil && k.Value.Kind() == constant.Int && k.Int64() >= 0 {
			return bo.X, k.Int64()
		}
		if k, ok := bo.X.(*ssa.Const); ok && k.Value != nil && k.Value.Kind() == constant.Int && k.Int64() >= 0 {
			return bo.Y, k.Int64()
		}
	}
	return v, 0
}

// nonNegativeCounter: v is a loop counter φ(c0, v+d…) with c0 >= 0 and every step >= 0.
func nonNegativeCounter(v ssa.Value) bool {
	phi, ok := v.(*ssa.Phi)
	if !ok {
		return false
	}
	var loop *natLoop
	for _, l := range naturalLoops(phi.Parent()) {
		if l.header == phi.Block() {
			loop = l
		}
	}
	if loop == nil {
		return false
	}
	for i, e := range phi.Edges {
		if loop.blocks[phi.Block().Preds[i]] {
			lo, _, ok := offsetRange(loop, phi, e, map[ssa.Value]bool{})
			if !ok || lo < 0 {
				return false
			}
		} else {
			k, ok := e.(*ssa.Const)
			if !ok || k.Value == nil || k.Value.Kind() != constant.Int || k.Int64() < 0 {
				return false
			}
		}
	}
	return true
}

func indexSumGuard(in ssa.Instruction, x, idx ssa.Value) string {
	base, c := splitIndex(idx)
	if !nonNegativeCounter(base) {
		return ""
	}
	for d := in.Block(); d != nil; d = d.Idom() {
		id := d.Idom()
		if id == nil {
			break
		}
		iff, ok := id.Instrs[len(id.Instrs)-1].(*ssa.If)
		if !ok || !(len(id.Succs[0].Preds) == 1 && id.Succs[0].Dominates(in.Block())) {
			continue
		}
		cmp, ok := iff.Cond.(*ssa.BinOp)
		if !ok || cmp.Op != token.LSS {
			continue
		}
		gb, k := splitIndex(cmp.X)
		if gb != base || k < c {
			continue
		}
		ln, ok := cmp.Y.(*ssa.Call)
		if !ok {
			continue
		}
		if b, ok := ln.Call.Value.(*ssa.Builtin); !ok || b.Name() != "len" || ln.Call.Args[0] != x {
			continue
		}
		return "index-sum-guard: dominated by (" + base.Name() + "+" + itoa(int(k)) + ") < len of the same slice, with a counter that starts at a non-negative constant and never decreases"
	}
	return ""
}

// nonNegativeGuard: block b is dominated by the edge of a test of v on which
// v >= 0 (v >= 0, v > -1, v != -1, !(v < 0), !(v == -1)).
func nonNegativeGuard(b *ssa.BasicBlock, v ssa.Value) bool {
	for d := b; d != nil; d = d.Idom() {
		id := d.Idom()
		if id == nil {
			return false
		}
		iff, ok := id.Instrs[len(id.Instrs)-1].(*ssa.If)
		if !ok {
			continue
		}
		cond, flip := iff.Cond, false
		for {
			if u, ok := cond.(*ssa.UnOp); ok && u.Op == token.NOT {
				cond, flip = u.X, !flip
				continue
			}
			break
		}
		bo, ok := cond.(*ssa.BinOp)
		if !ok || bo.X != v {
			continue
		}
		k, isK := bo.Y.(*ssa.Const)
		if !isK || k.Value == nil || k.Value.Kind() != constant.Int {
			continue
		}
		c := k.Int64()
		// on which edge (true=0 / false=1) does v >= 0 hold?
		edge := -1
		switch {
		case bo.Op == token.GEQ && c == 0, bo.Op == token.GTR && c == -1, bo.Op == token.NEQ && c == -1:
			edge = 0
		case bo.Op == token.LSS && c == 0, bo.Op == token.LEQ && c == -1, bo.Op == token.EQL && c == -1:
			edge = 1
		}
		if edge < 0 {
			continue
		}
		if flip {
			edge = 1 - edge
		}
		s := id.Succs[edge]
		if len(s.Preds) == 1 && s.Dominates(b) {
			return true
		}
	}
	return false
}

// reflectFieldList: automatic discharge for
//
//	reflect.ValueOf(X).FieldByName(list[i]).Interface().(T)
//
// (and for the FieldByName / Interface calls of the same chain): the static type
// of X is a struct, `list` is a list of string constants — a local composite
// literal or a package-level variable that is never written outside its
// declaration — and every name in it is an exported field of that struct whose
// type is T. Then FieldByName returns a valid exported field value, Interface does
// not panic and the assertion succeeds. Re-derived from the source on every run.
func (a *c02Auto) reflectFieldList(v ssa.Value) string {
	// peel .Interface()
	call, ok := v.(*ssa.Call)
	if !ok || staticCalleeName(&call.Call) != "(reflect.Value).Interface" || len(call.Call.Args) != 1 {
		return ""
	}
	return a.reflectFieldByName(call.Call.Args[0], "")
}

func (a *c02Auto) reflectFieldByName(v ssa.Value, wantType string) string {
	fb, ok := v.(*ssa.Call)
	if !ok || staticCalleeName(&fb.Call) != "(reflect.Value).FieldByName" || len(fb.Call.Args) != 2 {
		return ""
	}
	vo, ok := fb.Call.Args[0].(*ssa.Call)
	if !ok || staticCalleeName(&vo.Call) != "reflect.ValueOf" || len(vo.Call.Args) != 1 {
		return ""
	}
	x := vo.Call.Args[0]
	if mi, ok := x.(*ssa.MakeInterface); ok {
		x = mi.X
	}
	st, ok := x.Type().Underlying().(*types.Struct)
	if !ok {
		return ""
	}
	names := a.constStringList(fb.Call.Args[1])
	if len(names) == 0 {
		return ""
	}
	typ := ""
	for _, n := range names {
		found := false
		for i := 0; i < st.NumFields(); i++ {
			f := st.Field(i)
			if f.Name() == n && f.Exported() {
				found = true
				if typ == "" {
					typ = f.Type().String()
				} else if typ != f.Type().String() {
					return ""
				}
			}
		}
		if !found {
			return ""
		}
	}
	if wantType != "" && typ != wantType {
		return ""
	}
	return fmt.Sprintf("reflect-field-list: the %d names of the constant list are exported fields of %s, all of type %s", len(names), x.Type().String(), typ) + "|" + typ
}

// constStringList: v is list[i] where list is a slice/array of string constants
// built by a composite literal in this function, or a package-level variable
// initialised by such a literal and never stored to elsewhere.
func (a *c02Auto) constStringList(v ssa.Value) []string {
	ld, ok := v.(*ssa.UnOp)
	if !ok || ld.Op != token.MUL {
		return nil
	}
	ia, ok := ld.X.(*ssa.IndexAddr)
	if !ok {
		return nil
	}
	base := ia.X
	var arr ssa.Value
	switch b := base.(type) {
	case *ssa.Slice: // local literal: slice of a fresh array
		arr = b.X
	case *ssa.UnOp: // load of a package-level slice variable
		if g, ok := b.X.(*ssa.Global); ok && b.Op == token.MUL {
			return globalStringList(g)
		}
		return nil
	default:
		return nil
	}
	al, ok := arr.(*ssa.Alloc)
	if !ok || al.Referrers() == nil {
		return nil
	}
	var out []string
	for _, ref := range *al.Referrers() {
		ea, ok := ref.(*ssa.IndexAddr)
		if !ok {
			continue
		}
		if ea == ia {
			continue
		}
		for _, r2 := range *ea.Referrers() {
			if st, ok := r2.(*ssa.Store); ok && st.Addr == ea {
				k, isK := st.Val.(*ssa.Const)
				if !isK || k.Value == nil || k.Value.Kind() != constant.String {
					return nil
				}
				out = append(out, constant.StringVal(k.Value))
			}
		}
	}
	return out
}

func globalStringList(g *ssa.Global) []string {
	if g.Pkg == nil || !isModPkg(g.Pkg.Pkg) {
		return nil
	}
	initFn := g.Pkg.Func("init")
	if initFn == nil {
		return nil
	}
	// exactly one store to g, in init, of a slice of a fresh array filled with constants
	var out []string
	stores := 0
	for _, m := range g.Pkg.Members {
		f, ok := m.(*ssa.Function)
		if !ok {
			continue
		}
		allInstrs(f, func(in ssa.Instruction) {
			st, ok := in.(*ssa.Store)
			if !ok || st.Addr != ssa.Value(g) {
				return
			}
			stores++
			if f != initFn {
				stores += 100
				return
			}
			sl, ok := st.Val.(*ssa.Slice)
			if !ok {
				stores += 100
				return
			}
			al, ok := sl.X.(*ssa.Alloc)
			if !ok || al.Referrers() == nil {
				stores += 100
				return
			}
			for _, ref := range *al.Referrers() {
				if ea, ok := ref.(*ssa.IndexAddr); ok {
					for _, r2 := range *ea.Referrers() {
						if s2, ok := r2.(*ssa.Store); ok && s2.Addr == ea {
							if k, isK := s2.Val.(*ssa.Const); isK && k.Value != nil && k.Value.Kind() == constant.String {
								out = append(out, constant.StringVal(k.Value))
							} else {
								stores += 100
							}
						}
					}
				}
			}
		})
	}
	if stores != 1 {
		return nil
	}
	return out
}
