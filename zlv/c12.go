package main

import (
	"fmt"
	"go/token"
	"go/types"
	"os"
	"path/filepath"
	"sort"
	"strings"
	"unicode"

	"golang.org/x/tools/go/packages"
	"golang.org/x/tools/go/ssa"
)

func init() { register("C12", runC12) }

func runC12(c *Ctx, tier string) {
	r := NewReport("C12", "proof", tier, c)
	r.Explanation = "Complete census of the source tree on every run. (1) linkage: every directory under v3/lints with non-test Go files is a package in the import closure of package zlint, and none of its non-test files is excluded from the default build; (2) registration: every named type in those packages that implements one of the three lint interfaces is the concrete type of exactly one Register* call (callee resolved by object), which is a top-level statement of a function named init; (3) metadata: names are constants, non-empty, ^[ewn]_ without upper-case letters and unique across certificate, CRL and OCSP lints (the run-time check is per kind only); description non-empty; source a declared LintSource constant other than Unknown; constructor a non-nil function returning a single concrete type; both dates fold to UTC instants with effective < ineffective when both are set; (4) registry coherence: each of the three register siblings rejects empty and duplicate names on a path dominating every update, updates lints, lintNames, lintsByName, sources and lintsBySource on the success path and sorts lintNames afterwards; the read API returns the corresponding fields; Registry.Names merges the three sorted lists and sorts; Registry.Sources merges all three; Register* panic on error. The equality 'registered = registrations in the sources' follows from uniqueness + linkage + unconditional init-time calls."
	r.Trusted = []string{"go/packages file selection for the default build", "go/types", "go/ssa dominator tree", "sort.Strings", "Go runs every init function of every linked package exactly once"}
	r.Assumptions = []string{"default build configuration linux/amd64 without tags (thorough tier adds others)"}
	r.Exhaustive = true

	cs := BuildCensus(c)
	r.Floor("registrations", 370, len(cs.Regs))

	c12Linkage(c, r, cs)
	c12Types(c, r, cs)
	c12Meta(c, r, cs)
	c12Registry(c, r)
	// "a known source": the library's own source parser maps every declared constant
	// to itself, so a source a registered lint carries can be named (C13's rule,
	// evaluated here as well)
	sourceSwitches(c, r, "source-exhaustive", false)
	metadataUTF8(c, r, BuildCensus(c))
	r.Finish()
}

// ---------------------------------------------------------------------------

func importClosure(root *packages.Package) map[string]bool {
	seen := map[string]bool{}
	var visit func(p *packages.Package)
	visit = func(p *packages.Package) {
		if seen[p.PkgPath] {
			return
		}
		seen[p.PkgPath] = true
		for _, q := range p.Imports {
			visit(q)
		}
	}
	visit(root)
	return seen
}

func c12Linkage(c *Ctx, r *Report, cs *Census) {
	r.Rule("linkage: every v3/lints/<dir> with Go files is imported (transitively) by package zlint; no lint file excluded from the default build")
	root := c.Pkg("")
	closure := importClosure(root)
	lintsDir := filepath.Join(c.V3Dir, "lints")
	ents, err := os.ReadDir(lintsDir)
	if err != nil {
		fault("unresolved anchor: %s: %v", lintsDir, err)
	}
	ndirs := 0
	var walk func(dir, rel string)
	walk = func(dir, rel string) {
		es, _ := os.ReadDir(dir)
		var gofiles []string
		for _, e := range es {
			if e.IsDir() {
				if e.Name() == "testdata" || strings.HasPrefix(e.Name(), ".") || strings.HasPrefix(e.Name(), "_") {
					continue
				}
				walk(filepath.Join(dir, e.Name()), rel+"/"+e.Name())
				continue
			}
			if strings.HasSuffix(e.Name(), ".go") && !strings.HasSuffix(e.Name(), "_test.go") {
				gofiles = append(gofiles, e.Name())
			}
		}
		if len(gofiles) == 0 {
			return
		}
		ndirs++
		path := modPath + "/" + rel
		p := c.All[path]
		if p == nil {
			r.Bad("linkage", rel, token.NoPos, "directory has Go files but no package was loaded for it (all files excluded from the default build?)")
			return
		}
		r.Check(closure[path], "linkage", rel, token.NoPos, "in the import closure of package zlint",
			"package "+rel+" is not imported (transitively) by package zlint: its lints are never registered in a default build")
		loaded := map[string]bool{}
		for _, f := range p.GoFiles {
			loaded[filepath.Base(f)] = true
		}
		var missing []string
		for _, f := range gofiles {
			if !loaded[f] {
				missing = append(missing, f)
			}
		}
		r.Check(len(missing) == 0, "build-constraints", rel, token.NoPos, fmt.Sprintf("%d files, all in the default build", len(gofiles)),
			fmt.Sprintf("files excluded from the default build: %v", missing))
	}
	for _, e := range ents {
		if e.IsDir() {
			walk(filepath.Join(lintsDir, e.Name()), "lints/"+e.Name())
		}
	}
	r.Floor("lint package directories", 9, ndirs)
	// every package holding a registration is in the closure (covers lints outside v3/lints)
	seen := map[string]bool{}
	for _, reg := range cs.Regs {
		if seen[reg.Pkg.PkgPath] {
			continue
		}
		seen[reg.Pkg.PkgPath] = true
		r.Check(closure[reg.Pkg.PkgPath], "linkage-reg", relPkg(reg.Pkg.PkgPath), reg.Call.Pos(), "registering package linked into zlint",
			"package with a registration is not linked into package zlint")
	}
}

func lintInterfaces(c *Ctx) map[string]*types.Interface {
	out := map[string]*types.Interface{}
	for _, n := range []string{"CertificateLintInterface", "RevocationListLintInterface", "OcspResponseLintInterface"} {
		out[n] = c.Named("lint", n).Underlying().(*types.Interface)
	}
	return out
}

// sfCtx: the loaded program (set by Load) for helpers that have no Ctx at hand.
var sfCtx *Ctx

// isLintBodyIface: t is one of the three lint interfaces or an interface they
// implement that has the rule-body method Execute(...) *lint.LintResult (e.g. a
// generic lintBody[T] introduced to share the life-cycle between the kinds).
func isLintBodyIface(c *Ctx, t types.Type) bool {
	if c == nil {
		return false
	}
	it, ok := t.Underlying().(*types.Interface)
	if !ok {
		return false
	}
	hasExec := false
	for i := 0; i < it.NumMethods(); i++ {
		m := it.Method(i)
		if m.Name() == "Execute" {
			if res := m.Type().(*types.Signature).Results(); res.Len() == 1 && strings.HasSuffix(res.At(0).Type().String(), "lint.LintResult") {
				hasExec = true
			}
		}
	}
	if !hasExec {
		return false
	}
	for _, li := range lintInterfaces(c) {
		if types.Identical(it, li) || types.Implements(li, it) {
			return true
		}
	}
	return false
}

func c12Types(c *Ctx, r *Report, cs *Census) {
	r.Rule("registration: every type implementing a lint interface is the concrete type of exactly one Register* call placed as a top-level statement of func init")
	ifaces := lintInterfaces(c)
	byType := map[*types.Named][]*Reg{}
	for _, reg := range cs.Regs {
		if reg.Err != "" {
			r.Unk("census", regLocation(c, reg), reg.Call.Pos(), "registration not understood: "+reg.Err)
			continue
		}
		if reg.Named == nil {
			r.Unk("census", reg.ID(), reg.Call.Pos(), "constructor's concrete type is not a named type: "+shortType(reg.Concrete))
			continue
		}
		byType[reg.Named] = append(byType[reg.Named], reg)
		ok := reg.Encl != nil && reg.Encl.Name.Name == "init" && reg.Encl.Recv == nil && reg.Always
		where := "<file scope>"
		if reg.Encl != nil {
			where = reg.Encl.Name.Name
		}
		r.Check(ok, "init-placement", reg.ID(), reg.Call.Pos(), "executed on every path through init", "registration is not executed on every path through a func init (found in "+where+"): it may never run")
	}
	ntypes := 0
	for _, p := range c.Mod {
		if !strings.HasPrefix(p.PkgPath, modPath+"/lints/") {
			continue
		}
		scope := p.Types.Scope()
		names := scope.Names()
		sort.Strings(names)
		for _, n := range names {
			tn, ok := scope.Lookup(n).(*types.TypeName)
			if !ok || tn.IsAlias() {
				continue
			}
			named, ok := tn.Type().(*types.Named)
			if !ok {
				continue
			}
			if _, isIface := named.Underlying().(*types.Interface); isIface {
				continue
			}
			impl := ""
			for in, it := range ifaces {
				if types.Implements(named, it) || types.Implements(types.NewPointer(named), it) {
					impl = in
				}
			}
			if impl == "" {
				continue
			}
			ntypes++
			regs := byType[named]
			id := relPkg(p.PkgPath) + "." + n
			switch len(regs) {
			case 1:
				r.OK("one-registration", id, tn.Pos(), false, regs[0].ID())
			case 0:
				r.Bad("one-registration", id, tn.Pos(), "type implements lint."+impl+" but no Register* call constructs it: the lint is defined but never registered")
			default:
				var ns []string
				for _, x := range regs {
					ns = append(ns, x.ID())
				}
				r.Bad("one-registration", id, tn.Pos(), fmt.Sprintf("type is registered %d times (%v)", len(regs), ns))
			}
		}
	}
	r.Floor("lint types", 370, ntypes)
	r.Extra["lint_types"] = ntypes
}

func c12Meta(c *Ctx, r *Report, cs *Census) {
	r.Rule("metadata: constant lower-case ^[ewn]_ name unique across kinds; description; declared source != Unknown; constructor; dates fold with effective < ineffective")
	unknown := lintObj(c, "UnknownLintSource")
	srcT := c.Named("lint", "LintSource")
	byName := map[string][]*Reg{}
	for _, reg := range cs.Regs {
		if reg.Err != "" {
			continue
		}
		pos := reg.Call.Pos()
		if !reg.NameOK {
			r.Bad("name", regLocation(c, reg), pos, "Name is missing or not a constant string")
			continue
		}
		byName[reg.Name] = append(byName[reg.Name], reg)
		n := reg.Name
		okName := len(n) > 2 && n[1] == '_' && strings.ContainsRune("ewn", rune(n[0]))
		for _, ch := range n {
			if unicode.IsUpper(ch) || unicode.IsSpace(ch) {
				okName = false
			}
		}
		r.Check(okName, "name", n, pos, "", "lint name must be non-empty, start with e_/w_/n_ and contain no upper-case letter or blank")
		r.Check(reg.DescOK && strings.TrimSpace(reg.Desc) != "", "description", n, pos, "", "Description is missing, empty or not constant")
		srcOK := reg.Source != nil && types.Identical(reg.Source.Type(), srcT) && reg.Source != unknown && isModPkg(reg.Source.Pkg())
		det := "Source must be one of the declared lint.LintSource constants other than UnknownLintSource (found: " + reg.SourceEx + ")"
		if reg.SourceEx == "" {
			det = "Source field missing (zero value is not a known source)"
		}
		r.Check(srcOK, "source", n, pos, reg.SourceEx, det)
		r.Check(reg.Ctor != nil && reg.Concrete != nil, "constructor", n, pos, shortType(reg.Concrete), "Lint constructor missing")
		for which, dv := range map[string]DateVal{"EffectiveDate": reg.Eff, "IneffectiveDate": reg.Ineff} {
			if dv.Set && !dv.OK {
				r.Unk("date-folds", n+"|"+which, pos, "cannot fold "+dv.Expr+" to a UTC instant: "+dv.Why)
			}
		}
		if reg.Eff.Set && reg.Eff.OK && reg.Ineff.Set && reg.Ineff.OK {
			r.Check(reg.Eff.Unix < reg.Ineff.Unix, "window-order", n, pos, fmt.Sprintf("%s < %s", reg.Eff.Expr, reg.Ineff.Expr),
				fmt.Sprintf("EffectiveDate %s (%d) is not before IneffectiveDate %s (%d): the lint can never run", reg.Eff.Expr, reg.Eff.Unix, reg.Ineff.Expr, reg.Ineff.Unix))
		} else {
			r.OK("window-order", n, pos, false, "at most one bound set")
		}
	}
	var names []string
	for n := range byName {
		names = append(names, n)
	}
	sort.Strings(names)
	for _, n := range names {
		regs := byName[n]
		if len(regs) > 1 {
			var where []string
			for _, x := range regs {
				where = append(where, c.Pos(x.Call.Pos())+"("+x.Kind+")")
			}
			r.Bad("unique-name", n, regs[1].Call.Pos(), fmt.Sprintf("name registered %d times: %v (duplicates across kinds are not caught at run time and collapse in the result map)", len(regs), where))
		} else {
			r.OK("unique-name", n, regs[0].Call.Pos(), false, "")
		}
	}
	if len(cs.Regs) > 0 {
		s := cs.Regs[0]
		r.Sample(map[string]interface{}{"lint": s.ID(), "kind": s.Kind, "at": regLocation(c, s), "type": shortType(s.Concrete), "source": s.SourceEx, "effective": s.Eff.Expr, "effective_unix": s.Eff.Unix})
	}
}

// ---------------------------------------------------------------------------
// registry coherence (lint_lookup.go, registration.go)

var lookupKinds = []struct{ impl, regField, regMethod, pubReg string }{
	{"certificateLinterLookupImpl", "certificateLints", "registerCertificateLint", "RegisterCertificateLint"},
	{"revocationListLinterLookupImpl", "revocationListLints", "registerRevocationListLint", "RegisterRevocationListLint"},
	{"ocspResponseLinterLookupImpl", "ocspResponseLints", "registerOcspResponseLint", "RegisterOcspResponseLint"},
}

func lastField(p string) string {
	if i := strings.LastIndex(p, "."); i >= 0 {
		return p[i+1:]
	}
	return p
}

func c12Registry(c *Ctx, r *Report) {
	r.Rule("registry: register siblings reject empty/duplicate names before any update, update all five tables, sort names; read API returns the matching table; Names/Sources merge all kinds; Register* panic on error")
	nsib := 0
	for _, k := range lookupKinds {
		fn := c.Method("lint", k.impl, "register")
		nsib++
		c12Register(c, r, k.impl, fn)
		// read API
		for meth, field := range map[string]string{"ByName": "lintsByName", "BySource": "lintsBySource", "Lints": "lints"} {
			m := c.Method("lint", k.impl, meth)
			ok := false
			for _, ret := range realReturns(m) {
				if len(ret.Results) == 1 {
					p := apath(copiedFrom(retVals(ret)[0]))
					base := p
					if i := strings.Index(p, "["); i >= 0 {
						base = p[:i]
					}
					ok = lastField(base) == field
					if meth != "Lints" {
						ok = ok && strings.Contains(p, "["+m.Params[1].Name()+"]")
					}
				}
			}
			r.Check(ok, "read-api", k.impl+"."+meth, m.Pos(), "returns "+field, "method does not return the "+field+" table (indexed by its argument)")
		}
		// the registry-level registration wrapper forwards name and source of the lint itself
		w := c.Method("lint", "registryImpl", k.regMethod)
		okFwd := false
		for _, call := range callsTo(w, "(*lint."+k.impl+").register") {
			a := call.Common().Args
			if len(a) == 4 && apath(a[0]) == "&r."+k.regField && apath(a[1]) == "l" && apath(a[2]) == "l.LintMetadata.Name" && apath(a[3]) == "l.LintMetadata.Source" {
				okFwd = true
			}
		}
		r.Check(okFwd, "register-forward", k.regMethod, w.Pos(), "registers l under l.Name / l.Source in r."+k.regField, "wrapper does not call "+k.impl+".register(l, l.Name, l.Source) on r."+k.regField)
		// nil lint / nil constructor rejected before
		c12NilGuards(c, r, w, k.impl)
		// public Register* panics when registration fails
		pub := c.Func("lint", k.pubReg)
		okPanic := false
		allInstrs(pub, func(in ssa.Instruction) {
			if p, ok := in.(*ssa.Panic); ok {
				// must be on the err != nil branch of the wrapper call's result
				for _, call := range callsTo(pub, "(*lint.registryImpl)."+k.regMethod) {
					if cv, ok := call.(*ssa.Call); ok {
						if guardedBy(p.Block(), cv, token.NEQ) {
							okPanic = true
						}
					}
				}
			}
		})
		r.Check(okPanic, "register-panics", k.pubReg, pub.Pos(), "panics when the registry rejects the lint", "public registration no longer panics on a registration error: a rejected (duplicate/empty) lint would be dropped silently")
	}
	r.Floor("register siblings", 3, nsib)

	// linterLookupImpl.Names returns lintNames; Sources ranges over sources
	nm := c.Method("lint", "linterLookupImpl", "Names")
	ok := false
	for _, ret := range realReturns(nm) {
		ok = len(ret.Results) == 1 && lastField(apath(copiedFrom(retVals(ret)[0]))) == "lintNames"
	}
	r.Check(ok, "read-api", "linterLookupImpl.Names", nm.Pos(), "returns lintNames", "Names does not return the sorted lintNames table")
	sm := c.Method("lint", "linterLookupImpl", "Sources")
	ok = false
	allInstrs(sm, func(in ssa.Instruction) {
		if rg, isR := in.(*ssa.Range); isR && lastField(apath(rg.X)) == "sources" {
			ok = true
		}
	})
	r.Check(ok, "read-api", "linterLookupImpl.Sources", sm.Pos(), "ranges over sources", "Sources does not enumerate the sources table")

	// registryImpl.Names: three lintNames lists appended, sort.Strings on the result before return
	rn := c.Method("lint", "registryImpl", "Names")
	// every return of Names must be the freshly merged and sorted list
	var walk func(v ssa.Value, d int, merged map[string]bool)
	walk = func(v ssa.Value, d int, merged map[string]bool) {
		if d > 10 {
			return
		}
		if call, ok := v.(*ssa.Call); ok {
			if callee := call.Call.StaticCallee(); callee != nil && fnPkgPath(callee) == "slices" && strings.HasPrefix(callee.Name(), "Concat") && len(call.Call.Args) == 1 {
				// slices.Concat(a, b, c): a fresh slice holding the elements of each
				if sl, ok := call.Call.Args[0].(*ssa.Slice); ok {
					if al, ok := sl.X.(*ssa.Alloc); ok {
						for _, ref := range *al.Referrers() {
							if ia, ok := ref.(*ssa.IndexAddr); ok {
								for _, r2 := range *ia.Referrers() {
									if st, ok := r2.(*ssa.Store); ok && st.Addr == ssa.Value(ia) {
										p := apath(st.Val)
										if lastField(strings.TrimSuffix(p, "[:]")) == "lintNames" {
											merged[p] = true
										}
									}
								}
							}
						}
					}
				}
			}
			if b, ok := call.Call.Value.(*ssa.Builtin); ok && b.Name() == "append" {
				walk(call.Call.Args[0], d+1, merged)
				p := apath(call.Call.Args[1])
				if lastField(strings.TrimSuffix(p, "[:]")) == "lintNames" {
					merged[p] = true
				}
			}
		}
	}
	rets := realReturns(rn)
	okNames := len(rets) > 0
	detail := ""
	for _, ret := range rets {
		retv := retVals(ret)[0]
		if isNilConst(retv) && emptyRegistryGuard(ret) {
			continue // `return nil` taken only when all three name lists are empty
		}
		merged := map[string]bool{}
		walk(retv, 0, merged)
		sorted := false
		for _, sc := range stringSortCalls(rn) {
			if sc.Common().Args[0] == retv && instrDominates(sc, ret) {
				sorted = true
			}
		}
		if len(merged) != 3 || !sorted {
			okNames = false
			detail = fmt.Sprintf("a return of Registry.Names yields %s: it must be the names of all three kinds (%d found) appended and sorted (sorted=%v) — a cached or partial list goes stale after a registration", apath(retv), len(merged), sorted)
		}
	}
	r.Check(okNames, "names-merge", "registryImpl.Names", rn.Pos(), "merges three lintNames lists and sorts", detail)
	// registryImpl.Sources: three Sources() calls on distinct lookups
	rs := c.Method("lint", "registryImpl", "Sources")
	recvs := map[string]bool{}
	for _, call := range callsTo(rs, "(*lint.linterLookupImpl).Sources") {
		recvs[apath(call.Common().Args[0])] = true
	}
	r.Check(len(recvs) == 3, "sources-merge", "registryImpl.Sources", rs.Pos(), "merges the sources of all three kinds", fmt.Sprintf("Registry.Sources consults %d of the 3 lookups", len(recvs)))
	// globalRegistry: GlobalRegistry returns it; Register* use it
	gr := c.Func("lint", "GlobalRegistry")
	ok = false
	for _, ret := range realReturns(gr) {
		ok = len(ret.Results) == 1 && apath(retVals(ret)[0]) == "lint.globalRegistry"
	}
	r.Check(ok, "global-registry", "GlobalRegistry", gr.Pos(), "returns globalRegistry", "GlobalRegistry does not return the registry the Register* functions fill: "+func() string {
		for _, ret := range realReturns(gr) {
			return apath(retVals(ret)[0])
		}
		return ""
	}())
	// legacy RegisterLint converts and forwards
	leg := c.Func("lint", "RegisterLint")
	r.Check(len(callsTo(leg, "lint.RegisterCertificateLint")) == 1, "register-forward", "RegisterLint", leg.Pos(), "", "deprecated RegisterLint does not forward to RegisterCertificateLint")
}

// guardedBy: block b is dominated by the edge of an If testing value v against
// nil with operator op (NEQ: the "v != nil" edge).
func guardedBy(b *ssa.BasicBlock, v ssa.Value, op token.Token) bool {
	for d := b; d != nil; d = d.Idom() {
		id := d.Idom()
		if id == nil {
			return false
		}
		iff, ok := id.Instrs[len(id.Instrs)-1].(*ssa.If)
		if !ok {
			continue
		}
		bo, ok := iff.Cond.(*ssa.BinOp)
		if !ok {
			continue
		}
		var other ssa.Value
		if bo.X == v {
			other = bo.Y
		} else if bo.Y == v {
			other = bo.X
		} else {
			continue
		}
		if !isNilConst(other) {
			continue
		}
		want := 0
		if bo.Op != op {
			if (bo.Op == token.EQL && op == token.NEQ) || (bo.Op == token.NEQ && op == token.EQL) {
				want = 1
			} else {
				continue
			}
		}
		s := id.Succs[want]
		if len(s.Preds) == 1 && s.Dominates(b) {
			return true
		}
	}
	return false
}

func c12NilGuards(c *Ctx, r *Report, w *ssa.Function, impl string) {
	// every call to <impl>.register in w must be dominated by (a) l != nil and
	// (b) l.Lint() != nil guards that return a non-nil error otherwise
	calls := callsTo(w, "(*lint."+impl+").register")
	if len(calls) == 0 {
		return
	}
	call := calls[0]
	l := w.Params[1]
	okNil := guardedBy(call.Block(), l, token.NEQ)
	okCtor := false
	allInstrs(w, func(in ssa.Instruction) {
		cv, ok := in.(*ssa.Call)
		if !ok || cv.Call.IsInvoke() || cv.Call.StaticCallee() != nil {
			return
		}
		if strings.HasSuffix(apath(cv.Call.Value), ".Lint") && strings.HasPrefix(apath(cv.Call.Value), "l.") {
			if guardedBy(call.Block(), cv, token.NEQ) {
				okCtor = true
			}
		}
	})
	r.Check(okNil, "nil-lint-rejected", w.Name(), w.Pos(), "", "nil lint is no longer rejected before registration")
	r.Check(okCtor, "nil-impl-rejected", w.Name(), w.Pos(), "", "a lint whose constructor returns nil is no longer rejected before registration")
}

func c12Register(c *Ctx, r *Report, impl string, fn *ssa.Function) {
	id := impl + ".register"
	if len(fn.Params) != 4 {
		r.Unk("register-shape", id, fn.Pos(), "unexpected parameter list")
		return
	}
	lintP, nameP, srcP := fn.Params[1].Name(), fn.Params[2].Name(), fn.Params[3].Name()
	// decision table (helpers introduced later are inlined by the engine)
	outs, abort := Enumerate(fn, SymOpts{Inline: func(*ssa.Function) bool { return false }})
	if abort != "" {
		r.Unk("register-shape", id, fn.Pos(), abort)
		return
	}
	// the elements appended by append(base, elems...) when written as a variadic literal
	elems := func(o *Outcome, t *T) (base string, es []string) {
		args, ok := t.CallNamed("builtin:append")
		if !ok || len(args) != 2 {
			return "", nil
		}
		base = args[0].String()
		va := args[1]
		if va.Op == "slice" && len(va.Args) > 0 {
			pre := "&" + strings.TrimPrefix(va.Args[0].String(), "&") + "["
			var ks []string
			for k := range o.Mem {
				if strings.HasPrefix(k, pre) {
					ks = append(ks, k)
				}
			}
			sort.Strings(ks)
			for _, k := range ks {
				es = append(es, o.Mem[k].String())
			}
		}
		return base, es
	}
	isTable := func(s, tbl string) bool {
		s = strings.TrimPrefix(s, "&")
		return strings.HasPrefix(s, "lookup.") && lastField(s) == tbl
	}
	nSucc := 0
	missing := map[string]bool{}
	unsorted, earlyUpdate := false, ""
	sawEmpty, sawDup := false, false
	succNoEmpty, succNoDup := false, false
	for _, o := range outs {
		if o.Kind != "return" || len(o.Results) != 1 {
			r.Unk("register-shape", id, fn.Pos(), "path not understood: "+o.Kind+" "+o.Why)
			return
		}
		success := o.Results[0].IsNil()
		got := map[string]int{} // table → index of the event in the trace
		sortAt := -1
		for i, ev := range o.Trace {
			switch ev.Kind {
			case "store":
				if len(ev.Args) != 1 {
					continue
				}
				dst := ev.Name
				base, es := elems(o, ev.Args[0])
				if ib, ie, sortedPos := sortedInsert(o, ev.Args[0], nameP); isTable(dst, "lintNames") && isTable(ib, "lintNames") && ie == nameP && sortedPos {
					// slices.Insert(lintNames, <binary-search position of name>, name): updated and still sorted
					got["lintNames"] = i
					sortAt = i
				} else if isTable(dst, "lints") && isTable(base, "lints") && len(es) == 1 && es[0] == lintP {
					got["lints"] = i
				} else if isTable(dst, "lintNames") && isTable(base, "lintNames") && len(es) == 1 && es[0] == nameP {
					got["lintNames"] = i
				} else if strings.HasPrefix(strings.TrimPrefix(dst, "&"), "lookup.") {
					got["other:"+dst] = i
				}
			case "mapupdate":
				if len(ev.Args) != 2 {
					continue
				}
				m, k, v := ev.Name, ev.Args[0].String(), ev.Args[1]
				switch {
				case isTable(m, "lintsByName") && k == nameP && v.String() == lintP:
					got["lintsByName"] = i
				case isTable(m, "sources") && k == srcP:
					got["sources"] = i
				case isTable(m, "lintsBySource") && k == srcP:
					base, es := elems(o, v)
					if strings.Contains(base, "lintsBySource") && strings.Contains(base, srcP) && len(es) == 1 && es[0] == lintP {
						got["lintsBySource"] = i
					}
				default:
					if strings.HasPrefix(m, "lookup.") {
						got["other:"+m] = i
					}
				}
			case "call":
				if isStringSortName(ev.Name) && len(ev.Args) == 1 {
					a := ev.Args[0].String()
					if _, isApp := ev.Args[0].CallNamed("builtin:append"); isApp || isTable(a, "lintNames") {
						if base, _ := elems(o, ev.Args[0]); isApp && !isTable(base, "lintNames") {
							continue
						}
						sortAt = i
					}
				}
			}
		}
		if success {
			nSucc++
			for _, tbl := range []string{"lints", "lintNames", "lintsByName", "sources", "lintsBySource"} {
				if _, ok := got[tbl]; !ok {
					missing[tbl] = true
				}
			}
			if at, ok := got["lintNames"]; !ok || sortAt < at {
				unsorted = true
			}
			// the success path passed both guards: name != "" and no lint of that name yet
			passedEmpty, passedDup := false, false
			for _, cd := range o.Conds {
				t := cd.T.String()
				if t == "("+nameP+` == "")` && !cd.Val {
					passedEmpty = true
				}
				if strings.Contains(t, "lintsByName") && strings.Contains(t, nameP) && strings.HasSuffix(t, " == nil)") && strings.HasPrefix(t, "(lookup") && cd.Val {
					passedDup = true
				}
			}
			if !passedEmpty {
				succNoEmpty = true
			}
			if !passedDup {
				succNoDup = true
			}
		} else {
			if len(got) > 0 {
				for k := range got {
					earlyUpdate = k
				}
			}
			cs := o.CondString()
			if strings.Contains(cs, "("+nameP+` == "")`) && !strings.Contains(cs, "!("+nameP+` == "")`) {
				sawEmpty = true
			}
			if strings.Contains(cs, "lintsByName") && strings.Contains(cs, nameP) {
				sawDup = true
			}
		}
	}
	if nSucc == 0 {
		r.Unk("register-shape", id, fn.Pos(), "no success return found")
		return
	}
	for _, tbl := range []string{"lints", "lintNames", "lintsByName", "sources", "lintsBySource"} {
		r.Check(!missing[tbl], "register-updates", id+"|"+tbl, fn.Pos(), "updated on every successful registration",
			"table "+tbl+" is not updated with the registered lint/name/source on every path to the success return: lookups by name, by source, the listing and the source list would disagree")
	}
	r.Check(!unsorted, "register-sorts", id, fn.Pos(), "lintNames sorted after the append", "lintNames is not re-sorted after the append on the success path: Names() would no longer be sorted")
	r.Check(sawEmpty && !succNoEmpty && earlyUpdate == "", "register-empty-name", id, fn.Pos(), "empty name rejected before any update", "an empty lint name is no longer rejected before the tables are updated"+map[bool]string{true: " (an error path updates " + earlyUpdate + ")", false: ""}[earlyUpdate != ""])
	r.Check(sawDup && !succNoDup && earlyUpdate == "", "register-duplicate-name", id, fn.Pos(), "duplicate name rejected before any update", "a name already present in lintsByName is no longer rejected before the tables are updated: two lints would share one result slot")
}

// sortedInsert recognises slices.Insert(base, pos, elem) where pos is the
// binary-search position of elem in base (sort.SearchStrings / slices.BinarySearch):
// returns base, the single inserted element and whether pos is such a position.
func sortedInsert(o *Outcome, t *T, want string) (base, elem string, sortedPos bool) {
	if t == nil || t.Op != "call" || !strings.HasPrefix(t.Name, "slices.Insert") || len(t.Args) != 3 {
		return "", "", false
	}
	base = t.Args[0].String()
	va := t.Args[2]
	if va.Op == "slice" && len(va.Args) > 0 {
		pre := "&" + strings.TrimPrefix(va.Args[0].String(), "&") + "["
		n := 0
		for k, v := range o.Mem {
			if strings.HasPrefix(k, pre) {
				n++
				elem = v.String()
			}
		}
		if n != 1 {
			return base, "", false
		}
	}
	pos := t.Args[1]
	if os.Getenv("ZLV_DEBUG") != "" {
		fmt.Fprintf(os.Stderr, "sortedInsert: base=%s elem=%s pos=%s (%s %s)\n", base, elem, pos, pos.Op, pos.Name)
	}
	if pos.Op == "extract" && pos.Name == "0" && len(pos.Args) == 1 {
		pos = pos.Args[0]
	}
	if pos.Op == "call" && len(pos.Args) == 2 && (pos.Name == "sort.SearchStrings" || strings.HasPrefix(pos.Name, "slices.BinarySearch")) &&
		pos.Args[0].String() == base && pos.Args[1].String() == want {
		sortedPos = true
	}
	return base, elem, sortedPos
}

// copiedFrom looks through a defensive copy: slices.Clone(x), append([]T(nil), x...),
// append(x[:0:0], x...), append(make([]T, 0, n), x...) yield (a copy of) x.
func copiedFrom(v ssa.Value) ssa.Value {
	call, ok := v.(*ssa.Call)
	if !ok {
		return v
	}
	if callee := call.Call.StaticCallee(); callee != nil && fnPkgPath(callee) == "slices" && strings.HasPrefix(callee.Name(), "Clone") && len(call.Call.Args) == 1 {
		return call.Call.Args[0]
	}
	if b, ok := call.Call.Value.(*ssa.Builtin); ok && b.Name() == "append" && len(call.Call.Args) == 2 {
		a0 := call.Call.Args[0]
		fresh := isNilConst(a0)
		if ms, ok := a0.(*ssa.MakeSlice); ok {
			if k, ok := ms.Len.(*ssa.Const); ok && k.Value != nil && k.Value.ExactString() == "0" {
				fresh = true
			}
		}
		if sl, ok := a0.(*ssa.Slice); ok && sl.Max != nil && sl.High != nil {
			if k, ok := sl.Max.(*ssa.Const); ok && k.Value != nil && k.Value.ExactString() == "0" {
				fresh = true
			}
		}
		if fresh {
			src := call.Call.Args[1]
			if sl, ok := src.(*ssa.Slice); ok && sl.Low == nil && sl.High == nil {
				src = sl.X
			}
			return src
		}
	}
	return v
}

// emptyRegistryGuard: the return is dominated by the true edge of
// len(cert names)+len(ocsp names)+len(crl names) == 0 (in any order).
func emptyRegistryGuard(ret *ssa.Return) bool {
	for d := ret.Block(); d != nil; d = d.Idom() {
		id := d.Idom()
		if id == nil {
			return false
		}
		iff, ok := id.Instrs[len(id.Instrs)-1].(*ssa.If)
		if !ok || !(len(id.Succs[0].Preds) == 1 && id.Succs[0].Dominates(ret.Block())) {
			continue
		}
		bo, ok := iff.Cond.(*ssa.BinOp)
		if !ok || bo.Op != token.EQL {
			continue
		}
		k, ok := bo.Y.(*ssa.Const)
		if !ok || k.Value == nil || k.Value.ExactString() != "0" {
			continue
		}
		p := apath(bo.X)
		if strings.Contains(p, "certificateLints") && strings.Contains(p, "ocspResponseLints") && strings.Contains(p, "revocationListLints") && strings.Count(p, "lintNames") == 3 && !strings.Contains(p, "-") && !strings.Contains(p, "*") {
			return true
		}
	}
	return false
}

// stringSortCalls: the calls in fn that sort a []string (sort.Strings, slices.Sort).
func stringSortCalls(fn *ssa.Function) []ssa.CallInstruction {
	var out []ssa.CallInstruction
	allInstrs(fn, func(in ssa.Instruction) {
		if c, ok := in.(ssa.CallInstruction); ok && isStringSortName(staticCalleeName(c.Common())) {
			out = append(out, c)
		}
	})
	return out
}

// isStringSortName: a call that sorts a []string in increasing order.
func isStringSortName(name string) bool {
	switch name {
	case "sort.Strings", "slices.Sort[[]string string]", "slices.Sort[[]string,string]", "slices.Sort":
		return true
	}
	return strings.HasPrefix(name, "slices.Sort[") && strings.Contains(name, "string")
}

// appendedElems: for append(s, a, b...) built as a slice literal, return the
// element values stored into the variadic array.
func appendedElems(call *ssa.Call) []ssa.Value {
	if len(call.Call.Args) != 2 {
		return nil
	}
	sl, ok := call.Call.Args[1].(*ssa.Slice)
	if !ok {
		return nil
	}
	alloc, ok := sl.X.(*ssa.Alloc)
	if !ok {
		return nil
	}
	var out []ssa.Value
	for _, ref := range *alloc.Referrers() {
		if ia, ok := ref.(*ssa.IndexAddr); ok {
			for _, rr := range *ia.Referrers() {
				if st, ok := rr.(*ssa.Store); ok && st.Addr == ia {
					out = append(out, st.Val)
				}
			}
		}
	}
	return out
}
