package main

import (
	"fmt"
	"go/token"
	"strings"

	"golang.org/x/tools/go/ssa"
)

func init() { register("C10", runC10) }

func runC10(c *Ctx, tier string) {
	r := NewReport("C10", "other", tier, c)
	r.Explanation = "Interleavings are not explored. Decided necessary conditions for race freedom and for 'concurrent = sequential': (1) no shared writes while linting or reading: the interprocedural MOD summaries show that none of the 377 lints' methods, the Lint*Ex entry points, nor the registry read API (Names, Sources, ByName, BySource, Lints, CertificateLints/RevocationListLints/OcspResponseLints, GetConfiguration, WriteJSON, DefaultConfiguration, Filter) writes a package-level variable of the module, memory reachable from the linted object, or memory reachable from the registry they are called on (writes into sync / sync/atomic typed fields are synchronisation state and not counted; Filter writes only the registry it allocates); every lint instance and ResultSet is allocated per call; (2) who may mutate a registry: the registration API (Register*, RegisterProfile), registryImpl.register* and SetConfiguration are called only from init functions, from each other, from NewRegistry/Filter on a registry that has not escaped yet, and from cmd/zlint's setLints before any lint call; (3) lock pairing: every function that takes a lock of a lookup releases it by a deferred unlock registered immediately after, and no lock is held across a call into lint code. Observation (not a finding): the three register methods take RLock although they write; under (2) no writer can run concurrently with a reader, so the property as stated holds. Does not decide races inside trusted libraries or with registrations made at run time by the embedding program."
	r.Rule("no-global-write; object-read-only; registry-read-only; fresh-instance; who-may-register; lock-pairing")
	r.Trusted = []string{"go/ssa, VTA call graph", "trusted libraries are race-free for read-only use"}
	r.Assumptions = []string{"distinct parsed objects per goroutine (the property's quantifier): zcrypto's memoising getters write unexported fields of the object", "the embedding program does not register lints or set configurations while linting"}

	cs := BuildCensus(c)
	r.Floor("registrations", 370, len(cs.Regs))
	e := NewEffects(c)
	c05Effects(c, r, cs, e)
	freshInstances(c, r, cs)
	c10RegistryReadOnly(c, r, e)
	c10WhoMayRegister(c, r)
	c10Locks(c, r)
	// options are stored per instance: every Configure() hands out memory inside the
	// fresh instance (or set by its constructor to memory allocated for it), never a
	// structure shared between instances, runs or registries (C11's rule)
	c11Configurables(c, r, BuildCensus(c))
	r.Finish()
}

func c10RegistryReadOnly(c *Ctx, r *Report, e *Effects) {
	n := 0
	check := func(recv, meth string, params ...int) {
		fn := c.Method("lint", recv, meth)
		n++
		id := recv + "." + meth
		bad := ""
		for _, p := range append([]int{0}, params...) {
			if e.ModsParam(fn, p) {
				bad = "writes memory reachable from the registry/lookup it is called on: " + strings.Join(e.Chain(fn, fmt.Sprintf("p%d", p)), " → ")
			}
		}
		if gs := e.ModGlobals(fn); len(gs) > 0 {
			bad = "writes package-level state " + gs[0].String() + ": " + strings.Join(e.Chain(fn, "g:"+gs[0].String()), " → ")
		}
		r.Check(bad == "", "registry-read-only", id, fn.Pos(), "MOD(receiver) = ∅", "read API "+id+" "+bad+" — concurrent readers race")
	}
	for _, m := range []string{"Names", "Sources", "ByName", "BySource", "Filter", "WriteJSON", "GetConfiguration", "DefaultConfiguration", "CertificateLints", "RevocationListLints", "OcspResponseLints", "lintNamesToMap"} {
		check("registryImpl", m)
	}
	for _, k := range lookupKinds {
		for _, m := range []string{"ByName", "BySource", "Lints"} {
			check(k.impl, m)
		}
	}
	check("linterLookupImpl", "Names")
	check("linterLookupImpl", "Sources")
	// entry points: object and registry parameters
	for _, k := range c01Kinds {
		fn := c.Func("", k.ex)
		n++
		bad := ""
		if e.ModsParam(fn, 1) {
			bad = "linting writes memory reachable from the registry: " + strings.Join(e.Chain(fn, "p1"), " → ")
		}
		r.Check(bad == "", "registry-read-only", "zlint."+k.ex, fn.Pos(), "MOD(registry) = ∅", bad)
	}
	for _, m := range []string{"MaybeConfigure", "Configure"} {
		fn := c.Method("lint", "Configuration", m)
		n++
		// the configuration is passed by value; its tree pointer must not be written
		bad := ""
		if e.ModsParam(fn, 0) {
			bad = "configuring a lint writes the shared configuration tree: " + strings.Join(e.Chain(fn, "p0"), " → ")
		}
		r.Check(bad == "", "registry-read-only", "Configuration."+m, fn.Pos(), "MOD(configuration) = ∅", bad)
	}
	r.Floor("read API functions", 25, n)
}

func c10WhoMayRegister(c *Ctx, r *Report) {
	mutators := map[string]bool{
		"(*lint.registryImpl).register": true, "(*lint.registryImpl).registerCertificateLint": true, "(*lint.registryImpl).registerRevocationListLint": true,
		"(*lint.registryImpl).registerOcspResponseLint": true, "(*lint.registryImpl).SetConfiguration": true,
		"(*lint.certificateLinterLookupImpl).register": true, "(*lint.revocationListLinterLookupImpl).register": true, "(*lint.ocspResponseLinterLookupImpl).register": true,
		"lint.RegisterLint": true, "lint.RegisterCertificateLint": true, "lint.RegisterRevocationListLint": true, "lint.RegisterOcspResponseLint": true, "lint.RegisterProfile": true,
	}
	allowedCallers := map[string]string{
		"lint.RegisterLint": "registration API", "lint.RegisterCertificateLint": "registration API", "lint.RegisterRevocationListLint": "registration API", "lint.RegisterOcspResponseLint": "registration API",
		"(*lint.registryImpl).register": "registration internals", "(*lint.registryImpl).registerCertificateLint": "registration internals",
		"(*lint.registryImpl).registerRevocationListLint": "registration internals", "(*lint.registryImpl).registerOcspResponseLint": "registration internals",
		"lint.NewRegistry": "on the registry being constructed", "(*lint.registryImpl).Filter": "on the registry being constructed",
		"cmd/zlint.setLints": "CLI start-up, before any lint call",
	}
	n := 0
	for _, f := range modFunctions(c) {
		allInstrs(f, func(in ssa.Instruction) {
			call, ok := in.(ssa.CallInstruction)
			if !ok {
				return
			}
			name := staticCalleeName(call.Common())
			if call.Common().IsInvoke() && call.Common().Method.Name() == "SetConfiguration" {
				name = "(*lint.registryImpl).SetConfiguration"
			}
			if !mutators[name] {
				return
			}
			n++
			caller := f
			for caller.Parent() != nil {
				caller = caller.Parent()
			}
			cn := fname(caller)
			_, okc := allowedCallers[cn]
			ok2 := okc || isInitFunc(f)
			// Filter / NewRegistry may only touch the fresh registry
			if ok2 && (cn == "(*lint.registryImpl).Filter" || cn == "lint.NewRegistry") && !strings.HasPrefix(name, "lint.Register") {
				if !freshRegistry(call.Common().Args[0], f, 0) {
					ok2 = false
				}
			}
			r.Check(ok2, "who-may-register", cn+"|"+name, in.Pos(), "init / registration API / fresh registry / CLI start-up",
				fmt.Sprintf("%s calls %s at run time: a registry shared with concurrent linters is mutated (the lookups' readers hold only a read lock, and Registry.Names reads the tables without one)", cn, name))
		})
	}
	r.Floor("registry mutation call sites", 380, n)
}

// c10Locks: lock calls on a lookup's RWMutex are followed by a deferred
// matching unlock before anything else can return.
func c10Locks(c *Ctx, r *Report) {
	n := 0
	for _, f := range modFunctions(c) {
		if !scopePkg(fnPkgPath(f)) {
			continue
		}
		allInstrs(f, func(in ssa.Instruction) {
			call, ok := in.(*ssa.Call)
			if !ok {
				return
			}
			name := staticCalleeName(&call.Call)
			var unlock string
			switch name {
			case "(*sync.RWMutex).RLock":
				unlock = "(*sync.RWMutex).RUnlock"
			case "(*sync.RWMutex).Lock":
				unlock = "(*sync.RWMutex).Unlock"
			case "(*sync.Mutex).Lock":
				unlock = "(*sync.Mutex).Unlock"
			default:
				return
			}
			n++
			mu := apath(call.Call.Args[0])
			ok2 := false
			// the next call instruction in the block must be defer <unlock>(same mutex)
			blk := call.Block()
			for i := instrIndex(call) + 1; i < len(blk.Instrs); i++ {
				switch x := blk.Instrs[i].(type) {
				case *ssa.Defer:
					if staticCalleeName(&x.Call) == unlock && apath(x.Call.Args[0]) == mu {
						ok2 = true
					}
					i = len(blk.Instrs)
				case *ssa.Call, *ssa.Return, *ssa.If, *ssa.Jump, *ssa.Panic:
					i = len(blk.Instrs)
				}
			}
			r.Check(ok2, "lock-pairing", fname(f)+"|"+name, call.Pos(), "defer "+unlock+" follows immediately", fname(f)+" takes "+name+" on "+mu+" without deferring the matching unlock right away: a return or panic in between leaves the lock held (later writers dead-lock)")
			// no call into lint code while the lock is held: the function must not
			// invoke a lint interface method or a constructor value
			allInstrs(f, func(in2 ssa.Instruction) {
				c2, ok := in2.(ssa.CallInstruction)
				if !ok || !instrDominates(call, in2) {
					return
				}
				if c2.Common().IsInvoke() {
					mn := c2.Common().Method.Name()
					if mn == "Execute" || mn == "CheckApplies" || mn == "Configure" {
						r.Bad("lock-pairing", fname(f)+"|lint-call-under-lock", in2.Pos(), "a lint method is invoked while a registry lock is held")
					}
				}
			})
		})
	}
	r.Floor("lock sites", 6, n)
	_ = token.NoPos
}

// freshRegistry: v denotes the registry allocated by NewRegistry() in this
// call of Filter (directly, through a local cell, or captured by a closure).
func freshRegistry(v ssa.Value, f *ssa.Function, depth int) bool {
	if depth > 6 {
		return false
	}
	switch x := v.(type) {
	case *ssa.Call:
		if staticCalleeName(&x.Call) == "lint.NewRegistry" {
			return true
		}
		// a constructor newer than the rules: every value it returns is a registry
		// allocated in that call (composite literal / new), possibly via another constructor
		if g := x.Call.StaticCallee(); g != nil && isNewFunc(g) && len(g.Blocks) > 0 {
			rets := returnsOf(g)
			if len(rets) == 0 {
				return false
			}
			for _, ret := range rets {
				rv := retVals(ret)
				if len(rv) != 1 {
					return false
				}
				switch y := rv[0].(type) {
				case *ssa.Alloc:
					if !y.Heap {
						return false
					}
				case *ssa.Call:
					if !freshRegistry(y, g, depth+1) {
						return false
					}
				default:
					return false
				}
			}
			return true
		}
		return false
	case *ssa.Alloc:
		// composite literal in NewRegistry itself, or a cell holding the registry
		if _, isPtrCell := x.Type().Underlying().(interface{ Elem() interface{} }); isPtrCell {
			return false
		}
		stores := 0
		okAll := true
		for _, ref := range *x.Referrers() {
			if st, ok := ref.(*ssa.Store); ok && st.Addr == x {
				stores++
				if !freshRegistry(st.Val, f, depth+1) {
					okAll = false
				}
			}
		}
		if stores == 0 {
			return f.Name() == "NewRegistry" // &registryImpl{...} being built
		}
		return okAll
	case *ssa.UnOp:
		if x.Op == token.MUL {
			return freshRegistry(x.X, f, depth+1)
		}
	case *ssa.FreeVar:
		parent := f.Parent()
		if parent == nil {
			return false
		}
		idx := -1
		for i, fv := range f.FreeVars {
			if fv == x {
				idx = i
			}
		}
		ok := false
		allInstrs(parent, func(in ssa.Instruction) {
			if mc, isMC := in.(*ssa.MakeClosure); isMC && mc.Fn == f && idx >= 0 && idx < len(mc.Bindings) {
				ok = freshRegistry(mc.Bindings[idx], parent, depth+1)
			}
		})
		return ok
	case *ssa.Phi:
		for _, e := range x.Edges {
			if !freshRegistry(e, f, depth+1) {
				return false
			}
		}
		return true
	}
	return false
}
