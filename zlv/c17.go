package main

import (
	"fmt"
	"go/types"
	"regexp"
	"sort"
	"strings"

	"golang.org/x/tools/go/ssa"
)

func init() { register("C17", runC17) }

var c17ScopeRe = regexp.MustCompile(`(\.(DNSNames|EmailAddresses|URIs|IPAddresses|OtherNames|DirectoryNames|RegisteredIDs|EDIPartyNames|Extensions)\b)|GetParsedDNSNames\(|SubjectAlternateNameOID`)

// loops whose second verdict is unreachable for a non-syntactic reason
var c17Exceptions = map[string]string{
	"single-verdict|(*lints/rfc.SANEmptyName).Execute|consumelocal:seq.Bytes": "the NA exit is taken only when an element of the SAN value is not a well-formed TLV; zcrypto parsed every GeneralName of the extension before the lint runs, so that branch is dead for any certificate the parser accepted",
}

func runC17(c *Ctx, tier string) {
	r := NewReport("C17", "other", tier, c)
	r.Explanation = "A status can depend on the order of subjectAltName entries or of extensions only through a loop over them (or positional indexing). (1) single-verdict: every outermost loop in code reachable from a lint whose iterated collection derives from the certificate's SAN lists (DNSNames, EmailAddresses, URIs, IPAddresses, OtherNames, DirectoryNames, RegisteredIDs, EDIPartyNames, GetParsedDNSNames(), the re-parsed SAN extension value) or from Extensions is examined: the set of verdicts reachable through its early exits (statuses of results returned from inside the loop — helpers included, by status-flow analysis — plus 'break') must have at most one element, otherwise which entry comes first decides the outcome; the unique-selector idiom over Extensions (every early exit dominated by ext.Id.Equal(<loop-invariant OID>), at most one extension can match when none is duplicated — the property's premise) is exempt; (2) no-last-wins: a loop-carried status/result variable may be assigned at most one status inside such a loop; (3) by-oid: util.GetExtFromCert looks the extension up in ExtensionsMap by OID string, and no code in scope indexes Extensions (or a SAN list) with a constant. Eight loops in eight DNS-name lints violate (1) on the pinned tree (NA at the first unparseable name vs. a finding at the first offending one) and are listed as known findings. Loops over other lists (AIA URLs, RDNs, revoked certificates, IAN names, policies) are outside the property. Does not decide order dependence through arithmetic on positions, through helper results that are not statuses, or inside library calls."
	r.Rule("single-verdict; no-last-wins; by-oid; no-positional-index")
	r.Trusted = []string{"go/ssa", "status-flow analysis (E2)", "zcrypto fills ExtensionsMap for every extension"}

	cs := BuildCensus(c)
	r.Floor("registrations", 370, len(cs.Regs))
	sf := NewStatusFlow(c)
	reach := staticReach(c, cs)
	var fns []*ssa.Function
	for f := range reach {
		fns = append(fns, f)
	}
	sort.Slice(fns, func(i, j int) bool { return fns[i].String() < fns[j].String() })
	nscope, nexits := 0, 0
	for _, f := range fns {
		loops := naturalLoops(f)
		for _, l := range loops {
			iter := l.iterated()
			inScope := ""
			for _, it := range iter {
				if c17ScopeRe.MatchString(it) && !strings.Contains(strings.SplitN(it, "(", 2)[0], "[") {
					inScope = it
				}
				if strings.HasPrefix(it, "consume ") && consumesSAN(l, f) {
					inScope = it
				}
			}
			if inScope == "" {
				continue
			}
			// outermost only: skip loops nested in another in-scope loop of this function
			nested := false
			for _, o := range loops {
				if o != l && o.blocks[l.header] {
					for _, it := range o.iterated() {
						if c17ScopeRe.MatchString(it) {
							nested = true
						}
					}
				}
			}
			if nested {
				continue
			}
			nscope++
			id := fmt.Sprintf("%s|%s", fname(f), normIter(inScope))
			exits := l.earlyExits()
			verd := map[string]bool{}
			undecided := ""
			for _, ex := range exits {
				if ex.kind == "break" {
					verd["break"] = true
					continue
				}
				for _, ret := range ex.rets {
					for _, rv := range retVals(ret) {
						var ss *SS
						switch {
						case sf.isResultPtr(rv.Type()):
							ss = sf.resultVal(rv, f, map[ssa.Value]bool{})
						case sf.isStatusT(rv.Type()):
							ss = sf.statusOf(rv, f, map[ssa.Value]bool{})
						default:
							continue
						}
						for _, n := range ss.Names() {
							verd[n] = true
						}
						for _, u := range ss.Unknown {
							undecided = u.Why
						}
					}
				}
			}
			if len(exits) > 0 {
				nexits++
			}
			var vs []string
			for k := range verd {
				vs = append(vs, k)
			}
			sort.Strings(vs)
			pos := l.header.Instrs[0].Pos()
			if !pos.IsValid() {
				for b := range l.blocks {
					for _, in := range b.Instrs {
						if in.Pos().IsValid() && (!pos.IsValid() || in.Pos() < pos) {
							pos = in.Pos()
						}
					}
				}
			}
			switch {
			case undecided != "":
				r.Unk("single-verdict", id, pos, "verdict of an early exit not bounded: "+undecided)
			case len(vs) <= 1:
				r.OK("single-verdict", id, pos, len(exits) > 0, fmt.Sprintf("early-exit verdicts %v", vs))
			case uniqueSelector(l):
				r.OK("single-verdict", id, pos, true, fmt.Sprintf("unique-selector loop over Extensions (verdicts %v apply to the one extension with the selected OID)", vs))
			default:
				if why, ok := c17Exceptions["single-verdict|"+id]; ok {
					r.OK("single-verdict", id, pos, true, "reviewed exception: "+why)
				} else {
					r.Bad("single-verdict", id+"|"+strings.Join(vs, "+"), pos, fmt.Sprintf("the loop over %s can be left with different verdicts %v: which entry comes first decides the status (re-ordering the entries changes it)", inScope, vs))
				}
			}
			if len(r.Samples) < 6 && len(exits) > 0 {
				r.Sample(map[string]interface{}{"loop": id, "at": c.Pos(pos), "early_exit_verdicts": vs, "iterates": iter})
			}
			// last-wins
			for _, in := range l.header.Instrs {
				phi, ok := in.(*ssa.Phi)
				if !ok {
					break
				}
				if !(sf.isResultPtr(phi.Type()) || sf.isStatusT(phi.Type())) {
					continue
				}
				set := map[string]bool{}
				for i, e := range phi.Edges {
					if !l.blocks[l.header.Preds[i]] {
						continue
					}
					collectAssigned(sf, f, l, e, phi, set, map[ssa.Value]bool{})
				}
				var as []string
				for k := range set {
					as = append(as, k)
				}
				sort.Strings(as)
				r.Check(len(as) <= 1, "no-last-wins", id+"|"+phi.Comment, phi.Pos(), fmt.Sprintf("assigned %v", as), fmt.Sprintf("variable %s is assigned different statuses %v inside the loop over %s: the last (or first) matching entry decides", phi.Comment, as, inScope))
			}
		}
		// positional access with a constant index
		allInstrs(f, func(in ssa.Instruction) {
			var x, idx ssa.Value
			switch v := in.(type) {
			case *ssa.IndexAddr:
				x, idx = v.X, v.Index
			case *ssa.Index:
				x, idx = v.X, v.Index
			default:
				return
			}
			if _, isK := idx.(*ssa.Const); !isK {
				return
			}
			p := apath(x)
			if c17ScopeRe.MatchString(p) && !strings.Contains(p, "GetParsedDNSNames") && !strings.Contains(p, "[") && !strings.Contains(p, "SubjectAlternateNameOID") {
				r.Bad("no-positional-index", fname(f)+"|"+p, in.Pos(), fmt.Sprintf("%s reads %s[%s]: the entry is chosen by position, so re-ordering changes what is judged", fname(f), p, apath(idx)))
			}
		})
	}
	r.Floor("loops over SAN lists / extensions", 60, nscope)
	r.Extra["loops_in_scope"] = nscope
	r.Extra["loops_with_early_exit"] = nexits
	r.OK("no-positional-index", "<census>", 0, false, "no constant index into Extensions or a SAN list in scope")
	// by-oid
	ge := c.Func("util", "GetExtFromCert")
	ok := false
	allInstrs(ge, func(in ssa.Instruction) {
		if lk, isL := in.(*ssa.Lookup); isL && strings.HasSuffix(apath(lk.X), ".ExtensionsMap") && strings.Contains(apath(lk.Index), "ObjectIdentifier).String("+ge.Params[1].Name()+")") {
			ok = true
		}
	})
	hasLoop := len(naturalLoops(ge)) > 0
	r.Check(ok && !hasLoop, "by-oid", "util.GetExtFromCert", ge.Pos(), "ExtensionsMap[oid.String()]", "util.GetExtFromCert no longer looks the extension up by OID in ExtensionsMap (a positional scan makes the result depend on extension order when an OID occurs twice)")
	r.Finish()
}

func normIter(s string) string {
	// stable, position-free description of the iterated collection
	s = regexp.MustCompile(`\(phi\([^]]*\]`).ReplaceAllString(s, "[i]")
	s = strings.ReplaceAll(s, "(*github.com/zmap/zcrypto/x509.Certificate).", "")
	s = strings.ReplaceAll(s, " ", "")
	return trimStr(s, 90)
}

// staticReach: module functions reachable from lint methods through static
// calls and closures (no call-graph construction needed).
func staticReach(c *Ctx, cs *Census) map[*ssa.Function]bool {
	reach := map[*ssa.Function]bool{}
	var stack []*ssa.Function
	push := func(f *ssa.Function) {
		if f != nil && !reach[f] && isModFunc(f) && len(f.Blocks) > 0 {
			reach[f] = true
			stack = append(stack, f)
		}
	}
	for _, reg := range cs.Regs {
		push(reg.CheckApplies)
		push(reg.Execute)
	}
	for len(stack) > 0 {
		f := stack[len(stack)-1]
		stack = stack[:len(stack)-1]
		for _, a := range f.AnonFuncs {
			push(a)
		}
		allInstrs(f, func(in ssa.Instruction) {
			if call, ok := in.(ssa.CallInstruction); ok {
				push(call.Common().StaticCallee())
			}
			for _, op := range in.Operands(nil) {
				if *op != nil {
					if fn, ok := (*op).(*ssa.Function); ok {
						push(fn)
					}
				}
			}
		})
	}
	return reach
}

// consumesSAN: a 'for len(rest) > 0' loop whose slice comes from decoding the
// value of the subjectAltName extension.
func consumesSAN(l *natLoop, f *ssa.Function) bool {
	found := false
	allInstrs(f, func(in ssa.Instruction) {
		call, ok := in.(*ssa.Call)
		if !ok {
			return
		}
		if strings.HasSuffix(staticCalleeName(&call.Call), "asn1.Unmarshal") && len(call.Call.Args) > 0 {
			if strings.Contains(apath(call.Call.Args[0]), "SubjectAlternateNameOID") {
				found = true
			}
		}
	})
	return found
}

// uniqueSelector: every early exit of the loop is dominated by the true edge
// of <elem>.Id.Equal(<loop-invariant>) inside the loop.
func uniqueSelector(l *natLoop) bool {
	var guards []*ssa.BasicBlock
	for b := range l.blocks {
		iff, ok := b.Instrs[len(b.Instrs)-1].(*ssa.If)
		if !ok {
			continue
		}
		call, ok := iff.Cond.(*ssa.Call)
		if !ok || !strings.HasSuffix(staticCalleeName(&call.Call), "asn1.ObjectIdentifier).Equal") || len(call.Call.Args) != 2 {
			continue
		}
		a0 := apath(call.Call.Args[0])
		if !strings.HasSuffix(a0, ".Id") {
			continue
		}
		// the compared OID must be loop invariant (defined outside the loop)
		inv := true
		if in, ok := call.Call.Args[1].(ssa.Instruction); ok && l.blocks[in.Block()] {
			if ld, ok := call.Call.Args[1].(*ssa.UnOp); !ok || !isGlobalLoad(ld) {
				inv = false
			}
		}
		if inv && len(b.Succs) == 2 && len(b.Succs[0].Preds) == 1 {
			guards = append(guards, b.Succs[0])
		}
	}
	if len(guards) == 0 {
		return false
	}
	for _, ex := range l.earlyExits() {
		ok := false
		for _, g := range guards {
			if g.Dominates(ex.from) {
				ok = true
			}
		}
		if !ok {
			return false
		}
	}
	return true
}

func isGlobalLoad(ld *ssa.UnOp) bool {
	_, ok := ld.X.(*ssa.Global)
	return ok
}

// collectAssigned gathers the statuses assigned to a loop-carried
// status/result variable inside the loop.
func collectAssigned(sf *StatusFlow, f *ssa.Function, l *natLoop, v ssa.Value, self *ssa.Phi, out map[string]bool, seen map[ssa.Value]bool) {
	if v == ssa.Value(self) || seen[v] {
		return
	}
	seen[v] = true
	if phi, ok := v.(*ssa.Phi); ok && l.blocks[phi.Block()] {
		for _, e := range phi.Edges {
			collectAssigned(sf, f, l, e, self, out, seen)
		}
		return
	}
	if in, ok := v.(ssa.Instruction); ok && !l.blocks[in.Block()] {
		return // value from before the loop
	}
	var ss *SS
	if sf.isResultPtr(v.Type()) {
		ss = sf.resultVal(v, f, map[ssa.Value]bool{})
	} else if sf.isStatusT(v.Type()) {
		ss = sf.statusOf(v, f, map[ssa.Value]bool{})
	}
	if ss != nil {
		for _, n := range ss.Names() {
			out[n] = true
		}
		if len(ss.Unknown) > 0 {
			out["?"] = true
		}
	}
}

var _ = types.Typ
