package main

import (
	"fmt"
	"go/token"
	"go/types"
	"regexp"
	"sort"
	"strings"

	"golang.org/x/tools/go/ssa"
)

func init() { register("C17", runC17) }

var c17ScopeRe = regexp.MustCompile(`(\.(DNSNames|EmailAddresses|URIs|IPAddresses|OtherNames|DirectoryNames|RegisteredIDs|EDIPartyNames|Extensions)\b)|GetParsedDNSNames\(|SubjectAlternateNameOID`)

// loops whose second verdict is unreachable for a non-syntactic reason
var c17Exceptions = map[string]string{}

func runC17(c *Ctx, tier string) {
	r := NewReport("C17", "other", tier, c)
	r.Explanation = "A status can depend on the order of subjectAltName entries or of extensions only through a loop over them (or positional indexing). (1) single-verdict: every outermost loop in code reachable from a lint whose iterated collection derives from the certificate's SAN lists (DNSNames, EmailAddresses, URIs, IPAddresses, OtherNames, DirectoryNames, RegisteredIDs, EDIPartyNames, GetParsedDNSNames(), the re-parsed SAN extension value) or from Extensions is examined: the set of verdicts reachable through its early exits (statuses of results returned from inside the loop — helpers included, by status-flow analysis — plus 'break') must have at most one element, otherwise which entry comes first decides the outcome; the unique-selector idiom over Extensions (every early exit dominated by ext.Id.Equal(<loop-invariant OID>), at most one extension can match when none is duplicated — the property's premise) is exempt; (2) no-last-wins: a loop-carried status/result variable may be assigned at most one status inside such a loop; (2b) carried-state: in such a loop no early exit (return or break) may be controlled by a condition that reads a variable carried over from earlier iterations (other than the index / the consumed slice), no early exit may return such a variable, and the early exits of a helper have at most one constant outcome — otherwise what happens at one entry depends on which entries came before it; (3) by-oid: util.GetExtFromCert looks the extension up in ExtensionsMap by OID string, and no code in scope indexes Extensions (or a SAN list) with a constant. Scope is interprocedural: a helper that receives a SAN list or the SAN extension as an argument is analysed with the parameter standing for the caller's argument (three levels), and parser loops over a cryptobyte.String count as consuming loops. An early exit taken on the failure of zcrypto's own encoding/asn1.Unmarshal over the consumed bytes is dead for parsed input (the parser walked the same GeneralNames with the same decoder) and is not a verdict — any other decoder gets no such pass; the outcome of a helper's early exit is the constant shape of the tuple it returns. Eight loops in eight DNS-name lints violate (1) on the pinned tree (NA at the first unparseable name vs. a finding at the first offending one) and are listed as known findings. Loops over other lists (AIA URLs, RDNs, revoked certificates, IAN names, policies) are outside the property. (0) non-interference, the premise of the per-loop rules: the interprocedural MOD summaries (C05 rules 1-2) show that no lint method writes memory reachable from the linted object (e.g. filters, sorts or compacts a SAN list or zcrypto's cached parse of it in place) or a package-level variable, so every lint iterates over the lists as parsed, whatever ran before it. Does not decide order dependence through arithmetic on positions, through accumulated values used only after the loop (e.g. first-match captured then judged), or inside library calls."
	r.Rule("single-verdict; no-last-wins; carried-state; by-oid; no-positional-index; object-read-only; no-global-write")
	r.Trusted = []string{"go/ssa", "status-flow analysis (E2)", "zcrypto fills ExtensionsMap for every extension"}

	cs := BuildCensus(c)
	r.Floor("registrations", 370, len(cs.Regs))
	// premise of every per-lint rule below: the lists a lint iterates over are the
	// ones the parser produced, i.e. no lint (any lint may run earlier on the same
	// object) rewrites, re-orders or filters them in place
	c05Effects(c, r, cs, NewEffects(c))
	sf := NewStatusFlow(c)
	reach := staticReach(c, cs)
	var fns []*ssa.Function
	for f := range reach {
		fns = append(fns, f)
	}
	sort.Slice(fns, func(i, j int) bool { return fns[i].String() < fns[j].String() })
	nscope, nexits, nvia := 0, 0, 0
	seenLoop := map[string]bool{}
	seenPos := map[string]bool{}
	var analyse func(f *ssa.Function)
	analyse = func(f *ssa.Function) {
		loops := naturalLoops(f)
		for _, l := range loops {
			iter := l.iterated()
			inScope := ""
			for _, it := range iter {
				if c17ScopeRe.MatchString(it) && !strings.Contains(strings.SplitN(it, "(", 2)[0], "[") {
					inScope = it
				}
				if strings.HasPrefix(it, "consume ") && consumesSAN(l, f) {
					inScope = it
				}
			}
			if inScope == "" {
				continue
			}
			// outermost only: skip loops nested in another in-scope loop of this function
			nested := false
			for _, o := range loops {
				if o != l && o.blocks[l.header] {
					for _, it := range o.iterated() {
						if c17ScopeRe.MatchString(it) {
							nested = true
						}
					}
				}
			}
			if nested {
				continue
			}
			id := fmt.Sprintf("%s|%s", fname(f), normIter(inScope))
			if seenLoop[id] {
				continue
			}
			seenLoop[id] = true
			nscope++
			exits := l.earlyExits()
			// dead-decoder-exit: an exit taken when zcrypto's own asn1.Unmarshal fails on the
			// bytes the loop consumes cannot happen for a certificate the parser accepted —
			// the parser walked the same GeneralNames with the same decoder. Such exits are
			// not verdicts. (Any other decoder — cryptobyte, encoding/asn1 — gets no such pass.)
			ndead := 0
			{
				var live []loopExit
				for _, ex := range exits {
					if deadDecoderExit(l, ex) {
						ndead++
					} else {
						live = append(live, ex)
					}
				}
				exits = live
			}
			verd := map[string]bool{}
			undecided := ""
			for _, ex := range exits {
				if ex.kind == "break" {
					verd["break"] = true
					continue
				}
				for _, ret := range ex.rets {
					hasVerdict := false
					for _, rv := range retVals(ret) {
						if sf.isResultPtr(rv.Type()) || sf.isStatusT(rv.Type()) {
							hasVerdict = true
						}
					}
					if !hasVerdict && len(retVals(ret)) > 0 {
						// a helper: its early-exit outcome is the tuple it returns
						verd["returns("+retSig(ret)+")"] = true
					}
					for _, rv := range retVals(ret) {
						var ss *SS
						switch {
						case sf.isResultPtr(rv.Type()):
							ss = sf.resultVal(rv, f, map[ssa.Value]bool{})
						case sf.isStatusT(rv.Type()):
							ss = sf.statusOf(rv, f, map[ssa.Value]bool{})
						default:
							continue
						}
						for _, n := range ss.Names() {
							verd[n] = true
						}
						for _, u := range ss.Unknown {
							undecided = u.Why
						}
					}
				}
			}
			if len(exits) > 0 {
				nexits++
			}
			var vs []string
			for k := range verd {
				vs = append(vs, k)
			}
			sort.Strings(vs)
			pos := l.header.Instrs[0].Pos()
			if !pos.IsValid() {
				for b := range l.blocks {
					for _, in := range b.Instrs {
						if in.Pos().IsValid() && (!pos.IsValid() || in.Pos() < pos) {
							pos = in.Pos()
						}
					}
				}
			}
			switch {
			case undecided != "":
				r.Unk("single-verdict", id, pos, "verdict of an early exit not bounded: "+undecided)
			case len(vs) <= 1:
				note := ""
				if ndead > 0 {
					note = fmt.Sprintf(" (%d exit(s) on a failure of zcrypto's asn1.Unmarshal over the consumed bytes are dead for parsed input)", ndead)
				}
				r.OK("single-verdict", id, pos, len(exits) > 0, fmt.Sprintf("early-exit verdicts %v%s", vs, note))
			case uniqueSelector(l):
				r.OK("single-verdict", id, pos, true, fmt.Sprintf("unique-selector loop over Extensions (verdicts %v apply to the one extension with the selected OID)", vs))
			default:
				if why, ok := c17Exceptions["single-verdict|"+id]; ok {
					r.OK("single-verdict", id, pos, true, "reviewed exception: "+why)
				} else {
					r.Bad("single-verdict", id+"|"+strings.Join(vs, "+"), pos, fmt.Sprintf("the loop over %s can be left with different verdicts %v: which entry comes first decides the status (re-ordering the entries changes it)", inScope, vs))
				}
			}
			if len(r.Samples) < 6 && len(exits) > 0 {
				r.Sample(map[string]interface{}{"loop": id, "at": c.Pos(pos), "early_exit_verdicts": vs, "iterates": iter})
			}
			c17Carried(c, r, f, l, id, inScope, exits)
			// last-wins
			for _, in := range l.header.Instrs {
				phi, ok := in.(*ssa.Phi)
				if !ok {
					break
				}
				if !(sf.isResultPtr(phi.Type()) || sf.isStatusT(phi.Type())) {
					continue
				}
				set := map[string]bool{}
				for i, e := range phi.Edges {
					if !l.blocks[l.header.Preds[i]] {
						continue
					}
					collectAssigned(sf, f, l, e, phi, set, map[ssa.Value]bool{})
				}
				var as []string
				for k := range set {
					as = append(as, k)
				}
				sort.Strings(as)
				r.Check(len(as) <= 1, "no-last-wins", id+"|"+phi.Comment, phi.Pos(), fmt.Sprintf("assigned %v", as), fmt.Sprintf("variable %s is assigned different statuses %v inside the loop over %s: the last (or first) matching entry decides", phi.Comment, as, inScope))
			}
		}
		// positional access with a constant index
		allInstrs(f, func(in ssa.Instruction) {
			var x, idx ssa.Value
			switch v := in.(type) {
			case *ssa.IndexAddr:
				x, idx = v.X, v.Index
			case *ssa.Index:
				x, idx = v.X, v.Index
			default:
				return
			}
			if _, isK := idx.(*ssa.Const); !isK {
				return
			}
			p := apath(x)
			if c17ScopeRe.MatchString(p) && !strings.Contains(p, "GetParsedDNSNames") && !strings.Contains(p, "[") && !strings.Contains(p, "SubjectAlternateNameOID") {
				key := fname(f) + "|" + p
				if seenPos[key+c.Pos(in.Pos())] {
					return
				}
				seenPos[key+c.Pos(in.Pos())] = true
				r.Bad("no-positional-index", key, in.Pos(), fmt.Sprintf("%s reads %s[%s]: the entry is chosen by position, so re-ordering changes what is judged", fname(f), p, apath(idx)))
			}
		})
	}
	for _, f := range fns {
		analyse(f)
	}
	// interprocedural scope: a helper that receives a SAN list / the SAN extension as
	// an argument walks the same entries; its loops are analysed with the parameter
	// standing for the caller's argument (up to three levels of calls)
	viaSeen := map[string]bool{}
	var descend func(f *ssa.Function, depth int)
	descend = func(f *ssa.Function, depth int) {
		allInstrs(f, func(in ssa.Instruction) {
			call, ok := in.(ssa.CallInstruction)
			if !ok {
				return
			}
			g := call.Common().StaticCallee()
			if g == nil || !isModFunc(g) || len(g.Blocks) == 0 || g == f {
				return
			}
			var set []*ssa.Parameter
			key := fname(g)
			for i, a := range call.Common().Args {
				if i >= len(g.Params) {
					break
				}
				p := apath(a)
				if !c17ScopeRe.MatchString(p) {
					continue
				}
				if _, dup := apathSubst[g.Params[i]]; dup {
					continue
				}
				apathSubst[g.Params[i]] = a
				set = append(set, g.Params[i])
				key += fmt.Sprintf("|%d=%s", i, normIter(p))
			}
			if len(set) > 0 && !viaSeen[key] {
				viaSeen[key] = true
				nvia++
				analyse(g)
				if depth < 3 {
					descend(g, depth+1)
				}
			}
			for _, p := range set {
				delete(apathSubst, p)
			}
		})
	}
	for _, f := range fns {
		descend(f, 0)
	}
	r.Extra["helper_instances_analysed_with_a_SAN_argument"] = nvia
	r.Floor("loops over SAN lists / extensions", 60, nscope)
	r.Extra["loops_in_scope"] = nscope
	r.Extra["loops_with_early_exit"] = nexits
	r.OK("no-positional-index", "<census>", 0, false, "no constant index into Extensions or a SAN list in scope")
	// by-oid
	ge := c.Func("util", "GetExtFromCert")
	ok := false
	allInstrs(ge, func(in ssa.Instruction) {
		if lk, isL := in.(*ssa.Lookup); isL && strings.HasSuffix(apath(lk.X), ".ExtensionsMap") && strings.Contains(apath(lk.Index), "ObjectIdentifier).String("+ge.Params[1].Name()+")") {
			ok = true
		}
	})
	hasLoop := len(naturalLoops(ge)) > 0
	r.Check(ok && !hasLoop, "by-oid", "util.GetExtFromCert", ge.Pos(), "ExtensionsMap[oid.String()]", "util.GetExtFromCert no longer looks the extension up by OID in ExtensionsMap (a positional scan makes the result depend on extension order when an OID occurs twice)")
	r.Finish()
}

func normIter(s string) string {
	// stable, position-free description of the iterated collection
	s = regexp.MustCompile(`\(phi\([^]]*\]`).ReplaceAllString(s, "[i]")
	s = strings.ReplaceAll(s, "(*github.com/zmap/zcrypto/x509.Certificate).", "")
	s = strings.ReplaceAll(s, " ", "")
	return trimStr(s, 90)
}

// staticReach: module functions reachable from lint methods through static
// calls and closures (no call-graph construction needed).
func staticReach(c *Ctx, cs *Census) map[*ssa.Function]bool {
	reach := map[*ssa.Function]bool{}
	var stack []*ssa.Function
	push := func(f *ssa.Function) {
		if f != nil && !reach[f] && isModFunc(f) && len(f.Blocks) > 0 {
			reach[f] = true
			stack = append(stack, f)
		}
	}
	for _, reg := range cs.Regs {
		push(reg.CheckApplies)
		push(reg.Execute)
	}
	for len(stack) > 0 {
		f := stack[len(stack)-1]
		stack = stack[:len(stack)-1]
		for _, a := range f.AnonFuncs {
			push(a)
		}
		allInstrs(f, func(in ssa.Instruction) {
			if call, ok := in.(ssa.CallInstruction); ok {
				push(call.Common().StaticCallee())
			}
			for _, op := range in.Operands(nil) {
				if *op != nil {
					if fn, ok := (*op).(*ssa.Function); ok {
						push(fn)
					}
				}
			}
		})
	}
	return reach
}

// consumesSAN: a 'for len(rest) > 0' loop whose slice comes from decoding the
// value of the subjectAltName extension.
func consumesSAN(l *natLoop, f *ssa.Function) bool {
	found := false
	allInstrs(f, func(in ssa.Instruction) {
		switch x := in.(type) {
		case *ssa.Call:
			for _, a := range x.Call.Args {
				if strings.Contains(apath(a), "SubjectAlternateNameOID") {
					found = true
				}
			}
		case *ssa.Convert:
			if strings.Contains(apath(x.X), "SubjectAlternateNameOID") {
				found = true
			}
		case *ssa.ChangeType:
			if strings.Contains(apath(x.X), "SubjectAlternateNameOID") {
				found = true
			}
		}
	})
	return found
}

// retSig: the constant shape of a returned tuple (constants by value, anything else "dyn").
func retSig(ret *ssa.Return) string {
	var parts []string
	for _, rv := range retVals(ret) {
		if k, ok := rv.(*ssa.Const); ok {
			if k.Value == nil {
				parts = append(parts, "nil")
			} else {
				parts = append(parts, k.Value.ExactString())
			}
		} else {
			parts = append(parts, "dyn")
		}
	}
	return strings.Join(parts, ",")
}

// deadDecoderExit: the exit leaves the loop on the failure edge of an error
// returned by zcrypto's encoding/asn1.Unmarshal applied to the slice the loop
// consumes (rest, err = asn1.Unmarshal(rest, &v); if err != nil { return … }).
func deadDecoderExit(l *natLoop, ex loopExit) bool {
	iff, ok := ex.from.Instrs[len(ex.from.Instrs)-1].(*ssa.If)
	if !ok {
		return false
	}
	bo, ok := iff.Cond.(*ssa.BinOp)
	if !ok || (bo.Op != token.NEQ && bo.Op != token.EQL) {
		return false
	}
	var errv ssa.Value
	switch {
	case isNilConst(bo.Y):
		errv = bo.X
	case isNilConst(bo.X):
		errv = bo.Y
	default:
		return false
	}
	// the exit must be the err != nil edge
	failEdge := 0
	if bo.Op == token.EQL {
		failEdge = 1
	}
	if len(ex.from.Succs) != 2 || ex.from.Succs[failEdge] != ex.to {
		return false
	}
	exr, ok := errv.(*ssa.Extract)
	if !ok {
		return false
	}
	call, ok := exr.Tuple.(*ssa.Call)
	if !ok || !l.blocks[call.Block()] {
		return false
	}
	if staticCalleeName(&call.Call) != "github.com/zmap/zcrypto/encoding/asn1.Unmarshal" || len(call.Call.Args) < 1 {
		return false
	}
	// it decodes into a bare RawValue (any TLV), as the parser's own walk does — decoding
	// into a structured type can fail where the parser succeeded
	if len(call.Call.Args) < 2 {
		return false
	}
	target := call.Call.Args[1]
	if mi, ok := target.(*ssa.MakeInterface); ok {
		target = mi.X
	}
	if !strings.HasSuffix(target.Type().String(), "zcrypto/encoding/asn1.RawValue") {
		return false
	}
	// its input is the consumed slice: a header phi of the loop
	phi, ok := call.Call.Args[0].(*ssa.Phi)
	return ok && phi.Block() == l.header
}

// uniqueSelector: every early exit of the loop is dominated by the true edge
// of <elem>.Id.Equal(<loop-invariant>) inside the loop.
func uniqueSelector(l *natLoop) bool {
	var guards []*ssa.BasicBlock
	for b := range l.blocks {
		iff, ok := b.Instrs[len(b.Instrs)-1].(*ssa.If)
		if !ok {
			continue
		}
		call, ok := iff.Cond.(*ssa.Call)
		if !ok || !strings.HasSuffix(staticCalleeName(&call.Call), "asn1.ObjectIdentifier).Equal") || len(call.Call.Args) != 2 {
			continue
		}
		a0 := apath(call.Call.Args[0])
		if !strings.HasSuffix(a0, ".Id") {
			continue
		}
		// the compared OID must be loop invariant (defined outside the loop)
		inv := true
		if in, ok := call.Call.Args[1].(ssa.Instruction); ok && l.blocks[in.Block()] {
			if ld, ok := call.Call.Args[1].(*ssa.UnOp); !ok || !isGlobalLoad(ld) {
				inv = false
			}
		}
		if inv && len(b.Succs) == 2 && len(b.Succs[0].Preds) == 1 {
			guards = append(guards, b.Succs[0])
		}
	}
	if len(guards) == 0 {
		return false
	}
	for _, ex := range l.earlyExits() {
		ok := false
		for _, g := range guards {
			if g.Dominates(ex.from) {
				ok = true
			}
		}
		if !ok {
			return false
		}
	}
	return true
}

func isGlobalLoad(ld *ssa.UnOp) bool {
	_, ok := ld.X.(*ssa.Global)
	return ok
}

// collectAssigned gathers the statuses assigned to a loop-carried
// status/result variable inside the loop.
func collectAssigned(sf *StatusFlow, f *ssa.Function, l *natLoop, v ssa.Value, self *ssa.Phi, out map[string]bool, seen map[ssa.Value]bool) {
	if v == ssa.Value(self) || seen[v] {
		return
	}
	seen[v] = true
	if phi, ok := v.(*ssa.Phi); ok && l.blocks[phi.Block()] {
		for _, e := range phi.Edges {
			collectAssigned(sf, f, l, e, self, out, seen)
		}
		return
	}
	if in, ok := v.(ssa.Instruction); ok && !l.blocks[in.Block()] {
		return // value from before the loop
	}
	var ss *SS
	if sf.isResultPtr(v.Type()) {
		ss = sf.resultVal(v, f, map[ssa.Value]bool{})
	} else if sf.isStatusT(v.Type()) {
		ss = sf.statusOf(v, f, map[ssa.Value]bool{})
	}
	if ss != nil {
		for _, n := range ss.Names() {
			out[n] = true
		}
		if len(ss.Unknown) > 0 {
			out["?"] = true
		}
	}
}

var _ = types.Typ

// valueDependsOn: v is computed (inside the loop) from target through
// arithmetic, comparisons, conversions, phis and call arguments.
func valueDependsOn(l *natLoop, v, target ssa.Value, seen map[ssa.Value]bool, d int) bool {
	if v == target {
		return true
	}
	if d > 8 || seen[v] {
		return false
	}
	seen[v] = true
	in, ok := v.(ssa.Instruction)
	if !ok || in.Block() == nil || !l.blocks[in.Block()] {
		return false
	}
	for _, op := range in.Operands(nil) {
		if *op != nil && valueDependsOn(l, *op, target, seen, d+1) {
			return true
		}
	}
	return false
}

// c17Carried: order dependence through loop-carried state.
func c17Carried(c *Ctx, r *Report, f *ssa.Function, l *natLoop, id, inScope string, exits []loopExit) {
	var carried []*ssa.Phi
	bad := 0
	for _, in := range l.header.Instrs {
		phi, ok := in.(*ssa.Phi)
		if !ok {
			break
		}
		// the iteration index / consumed slice is not state
		isIdx := false
		for i, e := range phi.Edges {
			if l.blocks[l.header.Preds[i]] {
				if lo, hi, ok := offsetRange(l, phi, e, map[ssa.Value]bool{}); ok && lo >= 1 && hi >= 1 {
					isIdx = true
				}
				if strictSub(l, phi, e, map[ssa.Value]bool{}) {
					isIdx = true
				}
			}
		}
		if !isIdx {
			carried = append(carried, phi)
		}
	}
	for _, p := range carried {
		name := p.Comment
		if name == "" {
			name = p.Name()
		}
		// (a) an early exit taken under a condition that reads the carried variable
		for b := range l.blocks {
			iff, ok := b.Instrs[len(b.Instrs)-1].(*ssa.If)
			if !ok || !valueDependsOn(l, iff.Cond, p, map[ssa.Value]bool{}, 0) {
				continue
			}
			if thresholdOnCounter(l, p, iff) {
				continue // "more than k matching entries": symmetric in the entries
			}
			for _, ex := range exits {
				if b == ex.from || b.Dominates(ex.from) {
					bad++
					r.Bad("carried-state", id+"|guard|"+name+"|"+ex.kind, iff.Cond.Pos(), fmt.Sprintf("inside the loop over %s an early exit (%s) is taken under a condition that reads %s, a variable carried over from earlier entries: whether the exit happens depends on which entries came before (re-ordering the entries changes the status)", inScope, ex.kind, name))
				}
			}
		}
		// (b) an early exit that hands out the carried variable
		for _, ex := range exits {
			for _, ret := range ex.rets {
				for _, rv := range retVals(ret) {
					if valueDependsOn(l, rv, p, map[ssa.Value]bool{}, 0) || rv == ssa.Value(p) {
						bad++
						r.Bad("carried-state", id+"|exit-hands-out|"+name, ret.Pos(), fmt.Sprintf("the loop over %s returns from inside the loop with %s, which was accumulated from earlier entries: entries after the exit point are not seen, so the result depends on the order", inScope, name))
					}
				}
			}
		}
	}
	// (d) seen-sets: a map filled and consulted inside the loop is symmetric in the
	// entries only if an entry is looked up under the very key it is stored under
	ups := map[ssa.Value][]*ssa.MapUpdate{}
	lks := map[ssa.Value][]*ssa.Lookup{}
	for b := range l.blocks {
		for _, in := range b.Instrs {
			switch x := in.(type) {
			case *ssa.MapUpdate:
				ups[x.Map] = append(ups[x.Map], x)
			case *ssa.Lookup:
				if _, isMap := x.X.Type().Underlying().(*types.Map); isMap {
					lks[x.X] = append(lks[x.X], x)
				}
			}
		}
	}
	for m, us := range ups {
		if mi, ok := m.(ssa.Instruction); ok && l.blocks[mi.Block()] {
			continue // a map made afresh for each entry carries nothing over
		}
		for _, lk := range lks[m] {
			// test-and-set: the entry that is looked up is itself recorded in the same
			// iteration (the update is reachable from the lookup without taking the back
			// edge, or precedes it). A loop in which some entries only record and others
			// only look up finds a match in one order and not in the other.
			sameIter := false
			for _, u := range us {
				if reachesWithout(lk.Block(), u.Block(), map[*ssa.BasicBlock]bool{l.header: true}) || reachesWithout(u.Block(), lk.Block(), map[*ssa.BasicBlock]bool{l.header: true}) {
					sameIter = true
				}
			}
			if !sameIter {
				bad++
				r.Bad("carried-state", id+"|seen-set-asymmetric|"+apath(m), lk.Pos(), fmt.Sprintf("inside the loop over %s the map %s is filled by some entries and consulted by others (no iteration does both): whether an entry finds a match depends on whether the matching entry came before it — re-ordering the entries changes the result", inScope, apath(m)))
				continue
			}
			for _, u := range us {
				if lk.Index == u.Key || apath(lk.Index) == apath(u.Key) {
					continue
				}
				bad++
				r.Bad("carried-state", id+"|seen-set|"+apath(m), lk.Pos(), fmt.Sprintf("inside the loop over %s the map %s is consulted under the key %s but filled under the key %s: whether an entry is recognised depends on which entries came before it (e.g. duplicates differing in case are found in one order only)", inScope, apath(m), apath(lk.Index), apath(u.Key)))
			}
		}
	}
	// (c) helpers with more than one constant outcome among the early exits
	sigs := map[string]bool{}
	for _, ex := range exits {
		for _, ret := range ex.rets {
			var parts []string
			for _, rv := range retVals(ret) {
				if k, ok := rv.(*ssa.Const); ok {
					if k.Value == nil {
						parts = append(parts, "nil")
					} else {
						parts = append(parts, k.Value.ExactString())
					}
				} else {
					parts = append(parts, "dyn")
				}
			}
			sigs[strings.Join(parts, ",")] = true
		}
	}
	if len(sigs) > 1 {
		var ss []string
		for k := range sigs {
			ss = append(ss, k)
		}
		sort.Strings(ss)
		bad++
		r.Bad("carried-state", id+"|outcomes|"+strings.Join(ss, "+"), l.header.Instrs[0].Pos(), fmt.Sprintf("the loop over %s can be left early with different constant results %v: which entry comes first decides", inScope, ss))
	}
	if bad == 0 {
		r.OK("carried-state", id, l.header.Instrs[0].Pos(), len(carried) > 0, fmt.Sprintf("%d loop-carried variables, none read by an early-exit condition or handed out by an early exit; early exits have one constant outcome", len(carried)))
	}
}

// thresholdOnCounter: p is an integer counter that never decreases inside the
// loop, and the condition compares it (or it plus a constant) with a constant
// by > / >= / < / <= / == / != and with nothing else — the exit then depends on
// how many entries matched so far, which no re-ordering changes in the end.
func thresholdOnCounter(l *natLoop, p *ssa.Phi, iff *ssa.If) bool {
	if b, ok := p.Type().Underlying().(*types.Basic); !ok || b.Info()&types.IsInteger == 0 {
		return false
	}
	for i, e := range p.Edges {
		if !l.blocks[l.header.Preds[i]] {
			continue
		}
		lo, _, ok := offsetRange(l, p, e, map[ssa.Value]bool{})
		if !ok || lo < 0 {
			return false
		}
	}
	cmp, ok := iff.Cond.(*ssa.BinOp)
	if !ok {
		return false
	}
	side := func(v ssa.Value) bool {
		if v == ssa.Value(p) {
			return true
		}
		_, _, ok := offsetRange(l, p, v, map[ssa.Value]bool{})
		return ok
	}
	isK := func(v ssa.Value) bool { _, ok := v.(*ssa.Const); return ok }
	return (side(cmp.X) && isK(cmp.Y)) || (side(cmp.Y) && isK(cmp.X))
}
