package main

// c16fermat.go — the Fermat clause of C16, decided as a *schema match*: the
// paths of checkPrimeFactorsTooClose (round loop unrolled) are interpreted over
// the polynomial ring Z[n, s, √…] — every big.Int object holds a polynomial,
// Sqrt introduces an uninterpreted non-negative atom — and compared with
// Fermat's method:
//
//	init   a = ⌊√n⌋ + 1,  b2 = a² − n
//	round  the only branch is  b2 == (⌊√b2⌋)²          (perfect-square test)
//	found  returns a non-nil error; the two numbers it reports multiply to n
//	       (using r² = b2, which is exactly the branch condition)
//	step   a ← a + 1, b2 ← a² − n                       (identity in the free
//	       indeterminate s = ⌊√n⌋, hence for every value of a)
//	exit   nil is returned only when i < rounds fails
//
// Nothing is executed and no solver is involved: terms are normalised
// polynomials and the comparisons are syntactic equalities of normal forms.
// With the loop-counter rule (i = 0, 1, …, rounds−1) this gives: every
// a ∈ [⌊√n⌋+1, ⌊√n⌋+rounds] is tested for a² − n being a perfect square, which
// is Fermat's search from ⌈√n⌉ for `rounds` rounds when n is not a square.

import (
	"fmt"
	"math/big"
	"sort"
	"strings"

	"golang.org/x/tools/go/ssa"
)

// poly is a polynomial with integer coefficients over named atoms; a monomial
// key is the sorted, "*"-joined list of its atoms ("" for the constant term).
type poly map[string]*big.Int

func pConst(k int64) poly {
	p := poly{}
	if k != 0 {
		p[""] = big.NewInt(k)
	}
	return p
}

func pAtom(a string) poly { return poly{a: big.NewInt(1)} }

func (p poly) add(q poly, sign int64) poly {
	r := poly{}
	for m, c := range p {
		r[m] = new(big.Int).Set(c)
	}
	for m, c := range q {
		d := new(big.Int).Mul(c, big.NewInt(sign))
		if r[m] == nil {
			r[m] = d
		} else {
			r[m].Add(r[m], d)
		}
		if r[m].Sign() == 0 {
			delete(r, m)
		}
	}
	return r
}

func monoMul(a, b string) string {
	var xs []string
	if a != "" {
		xs = append(xs, strings.Split(a, "*")...)
	}
	if b != "" {
		xs = append(xs, strings.Split(b, "*")...)
	}
	sort.Strings(xs)
	return strings.Join(xs, "*")
}

func (p poly) mul(q poly) poly {
	r := poly{}
	for m1, c1 := range p {
		for m2, c2 := range q {
			m := monoMul(m1, m2)
			d := new(big.Int).Mul(c1, c2)
			if r[m] == nil {
				r[m] = d
			} else {
				r[m].Add(r[m], d)
			}
			if r[m].Sign() == 0 {
				delete(r, m)
			}
		}
	}
	return r
}

func (p poly) String() string {
	var ms []string
	for m := range p {
		ms = append(ms, m)
	}
	sort.Strings(ms)
	var b strings.Builder
	for i, m := range ms {
		if i > 0 {
			b.WriteString(" + ")
		}
		switch {
		case m == "":
			b.WriteString(p[m].String())
		case p[m].Cmp(big.NewInt(1)) == 0:
			b.WriteString(m)
		default:
			b.WriteString(p[m].String() + "·" + m)
		}
	}
	if len(ms) == 0 {
		return "0"
	}
	return b.String()
}

func (p poly) eq(q poly) bool { return p.String() == q.String() }

// substSquare replaces every occurrence of atom·atom by the polynomial sq.
func (p poly) substSquare(atom string, sq poly) poly {
	r := poly{}
	for m, c := range p {
		var rest []string
		n := 0
		if m != "" {
			for _, a := range strings.Split(m, "*") {
				if a == atom {
					n++
				} else {
					rest = append(rest, a)
				}
			}
		}
		term := poly{strings.Join(rest, "*"): new(big.Int).Set(c)}
		for ; n >= 2; n -= 2 {
			term = term.mul(sq)
		}
		if n == 1 {
			term = term.mul(pAtom(atom))
		}
		r = r.add(term, 1)
	}
	return r
}

// isqrt: ⌊√p⌋ as a term. √(t·t) = t for a non-negative atom t (every atom
// except n is a square root, n is a modulus); otherwise a new atom √(p).
func isqrt(p poly) poly {
	if len(p) == 1 {
		for m, c := range p {
			if c.Cmp(big.NewInt(1)) == 0 {
				as := strings.Split(m, "*")
				if len(as) == 2 && as[0] == as[1] && as[0] != "" {
					return pAtom(as[0])
				}
			}
		}
	}
	return pAtom(sqrtAtom(p.String()))
}

// sqrtAtom names the atom ⌊√def⌋ (r1, r2, …; the same definition gets the same name).
var sqrtAtoms = map[string]string{}
var sqrtDefs = map[string]string{}

func sqrtAtom(def string) string {
	if a, ok := sqrtAtoms[def]; ok {
		return a
	}
	a := fmt.Sprintf("r%d", len(sqrtAtoms)+1)
	sqrtAtoms[def] = a
	sqrtDefs[a] = def
	return a
}

// showPoly prints p with the square-root atoms expanded one level.
func showPoly(p poly) string {
	s := p.String()
	var as []string
	for a := range sqrtDefs {
		as = append(as, a)
	}
	sort.Slice(as, func(i, j int) bool { return len(as[i]) > len(as[j]) || (len(as[i]) == len(as[j]) && as[i] > as[j]) })
	for _, a := range as {
		s = strings.ReplaceAll(s, a, "⌊√("+sqrtDefs[a]+")⌋")
	}
	return s
}

const bigIntRecv = "(*math/big.Int)."

type fermatCmp struct{ x, y poly }

type fermatRun struct {
	st      map[string]poly
	cmps    map[string]fermatCmp // result term of a Cmp call → operand values at that moment
	unknown string
	nfresh  int
}

func (fr *fermatRun) key(t *T) string {
	for t != nil && t.Op == "call" && strings.HasPrefix(t.Name, bigIntRecv) && len(t.Args) > 0 {
		t = t.Args[0]
	}
	if t == nil {
		return "?"
	}
	return t.String()
}

func (fr *fermatRun) val(t *T, nParam string) poly {
	k := fr.key(t)
	if v, ok := fr.st[k]; ok {
		return v
	}
	// initial values
	var v poly
	switch {
	case k == nParam:
		v = pAtom("n")
	case strings.HasPrefix(k, "math/big.NewInt("):
		var c int64
		if _, err := fmt.Sscanf(k, "math/big.NewInt(%d)", &c); err != nil {
			fr.nfresh++
			v = pAtom(fmt.Sprintf("?%d", fr.nfresh))
		} else {
			v = pConst(c)
		}
	case strings.HasPrefix(k, "&o") && strings.HasSuffix(k, "<new>"):
		v = pConst(0)
	default:
		fr.nfresh++
		v = pAtom(fmt.Sprintf("?%d:%s", fr.nfresh, k))
	}
	fr.st[k] = v
	return v
}

// step interprets one trace event.
func (fr *fermatRun) step(ev Event, nParam string) {
	if ev.Kind != "call" || !strings.HasPrefix(ev.Name, bigIntRecv) {
		return
	}
	m := strings.TrimPrefix(ev.Name, bigIntRecv)
	a := ev.Args
	switch {
	case m == "Sqrt" && len(a) == 2:
		fr.st[fr.key(a[0])] = isqrt(fr.val(a[1], nParam))
	case m == "Add" && len(a) == 3:
		fr.st[fr.key(a[0])] = fr.val(a[1], nParam).add(fr.val(a[2], nParam), 1)
	case m == "Sub" && len(a) == 3:
		fr.st[fr.key(a[0])] = fr.val(a[1], nParam).add(fr.val(a[2], nParam), -1)
	case m == "Mul" && len(a) == 3:
		fr.st[fr.key(a[0])] = fr.val(a[1], nParam).mul(fr.val(a[2], nParam))
	case m == "Set" && len(a) == 2:
		fr.st[fr.key(a[0])] = fr.val(a[1], nParam)
	case m == "Cmp" && len(a) == 2:
		if ev.Result != nil {
			fr.cmps[ev.Result.String()] = fermatCmp{fr.val(a[0], nParam), fr.val(a[1], nParam)}
		}
	case m == "String" || m == "Text" || m == "BitLen" || m == "Sign" || m == "Bit" || m == "Bits" || m == "Int64" || m == "Uint64" || m == "IsInt64" || m == "CmpAbs" || m == "Bytes":
		// read-only
	default:
		// a big.Int operation outside the modelled set: the receiver becomes opaque
		fr.nfresh++
		fr.st[fr.key(a[0])] = pAtom(fmt.Sprintf("?%d:%s", fr.nfresh, m))
		if fr.unknown == "" {
			fr.unknown = ev.String()
		}
	}
}

func collectBigObjs(t *T, o *Outcome, seen map[string]bool, out *[]*T, depth int) {
	if t == nil || depth > 6 {
		return
	}
	if ty := t.Typ; ty != nil && ty.String() == "*math/big.Int" {
		*out = append(*out, t)
		return
	}
	if t.Op == "slice" || t.Op == "obj" {
		pre := "&" + strings.TrimPrefix(t.String(), "&")
		if t.Op == "slice" && len(t.Args) > 0 {
			pre = "&" + strings.TrimPrefix(t.Args[0].String(), "&")
		}
		var ks []string
		for k := range o.Mem {
			if strings.HasPrefix(k, pre+"[") {
				ks = append(ks, k)
			}
		}
		sort.Strings(ks)
		for _, k := range ks {
			if !seen[k] {
				seen[k] = true
				collectBigObjs(o.Mem[k], o, seen, out, depth+1)
			}
		}
		return
	}
	for _, a := range t.Args {
		collectBigObjs(a, o, seen, out, depth+1)
	}
}

// c16FermatSchema decides the Fermat clause on the current source.
func c16FermatSchema(c *Ctx, r *Report) {
	fn := c.FuncMaybe("lints/community", "checkPrimeFactorsTooClose")
	if fn == nil {
		fault("unresolved anchor: community.checkPrimeFactorsTooClose")
	}
	if len(fn.Params) != 2 {
		r.Unk("fermat-schema", "signature", fn.Pos(), "checkPrimeFactorsTooClose no longer takes (n, rounds)")
		return
	}
	nParam, rounds := fn.Params[0].Name(), fn.Params[1].Name()
	const unroll = 3
	outs, abort := Enumerate(fn, SymOpts{LoopBound: unroll, MaxPaths: 4000, Inline: func(f *ssa.Function) bool {
		return isModFunc(f) && len(f.Blocks) > 0
	}, MaxDepth: 3})
	if abort != "" {
		r.Unk("fermat-schema", "paths", fn.Pos(), abort)
		return
	}
	s := pAtom("s") // ⌊√n⌋, kept as a free indeterminate
	aAt := func(j int) poly { return s.add(pConst(int64(j+1)), 1) }
	b2At := func(j int) poly { a := aAt(j); return a.mul(a).add(pAtom("n"), -1) }

	var initBad, testBad, stepBad, foundBad, exitBad, foreign string
	nFound, nNil, nRoundsSeen, nPaths := 0, 0, 0, 0
	for _, o := range outs {
		if o.Kind == "abort" || o.Kind == "panic" {
			foreign = "a path is not understood: " + o.Kind + " " + o.Why
			continue
		}
		nPaths++
		fr := &fermatRun{st: map[string]poly{}, cmps: map[string]fermatCmp{}}
		// ⌊√n⌋ is written s: pre-seed by interpreting Sqrt(n) specially
		for _, ev := range o.Trace {
			if ev.Kind == "call" && ev.Name == bigIntRecv+"Sqrt" && len(ev.Args) == 2 && fr.val(ev.Args[1], nParam).eq(pAtom("n")) {
				fr.st[fr.key(ev.Args[0])] = s
				continue
			}
			fr.step(ev, nParam)
		}
		if fr.unknown != "" && foreign == "" {
			foreign = "big.Int operation outside the modelled set (Sqrt, Add, Sub, Mul, Set, Cmp): " + fr.unknown
		}
		// walk the conditions
		round := 0    // index of the round whose loop test comes next
		inRound := -1 // round entered and waiting for its perfect-square test
		hit := -1     // round whose test succeeded
		exhausted := false
		for _, cd := range o.Conds {
			t := cd.T
			if t.Op == "bin" && t.Name == "<" && t.Args[1].String() == rounds && t.Args[0].IsConst() {
				if t.Args[0].String() != fmt.Sprint(round) || inRound >= 0 || hit >= 0 || exhausted {
					exitBad = fmt.Sprintf("loop test %s is not the test of round %d", t, round)
				}
				if cd.Val {
					inRound = round
					round++
				} else {
					exhausted = true
				}
				continue
			}
			if t.Op == "bin" && (t.Name == "==" || t.Name == "!=") && t.Args[1].String() == "0" {
				if _, ok := t.Args[0].CallNamed(bigIntRecv + "Cmp"); ok {
					ops, known := fr.cmps[t.Args[0].String()]
					if known && inRound >= 0 && hit < 0 {
						j := inRound
						want := b2At(j)
						rj := isqrt(want)
						sq := rj.mul(rj)
						okTest := (ops.x.eq(want) && ops.y.eq(sq)) || (ops.y.eq(want) && ops.x.eq(sq))
						if !okTest {
							msg := fmt.Sprintf("round %d compares %s with %s (s = ⌊√n⌋); Fermat's method needs b2 = a²−n = %s against (⌊√b2⌋)²", j, showPoly(ops.x), showPoly(ops.y), want)
							switch {
							case j == 0:
								if initBad == "" {
									initBad = msg
								}
							default:
								if stepBad == "" {
									stepBad = msg
								}
							}
						}
						if j+1 > nRoundsSeen {
							nRoundsSeen = j + 1
						}
						equal := cd.Val == (t.Name == "==")
						if equal {
							hit = j
						}
						inRound = -1
						continue
					}
				}
			}
			if foreign == "" {
				foreign = fmt.Sprintf("a round branches on %s, which is neither the loop test nor the perfect-square test b2 == (⌊√b2⌋)² — candidates can be skipped or added", t)
			}
		}
		if o.Kind != "return" || len(o.Results) != 1 {
			continue // cut paths only contribute their prefix
		}
		res := o.Results[0]
		switch {
		case hit >= 0:
			nFound++
			if res.IsNil() {
				foundBad = fmt.Sprintf("round %d finds a perfect square but nil (no finding) is returned", hit)
				break
			}
			// the numbers reported
			var objs []*T
			collectBigObjs(res, o, map[string]bool{}, &objs, 0)
			vals := map[string]poly{}
			for _, ob := range objs {
				vals[fr.key(ob)] = fr.val(ob, nParam)
			}
			if len(vals) == 2 {
				var ps []poly
				var ks []string
				for k := range vals {
					ks = append(ks, k)
				}
				sort.Strings(ks)
				for _, k := range ks {
					ps = append(ps, vals[k])
				}
				rj := isqrt(b2At(hit))
				var ratom string
				for m := range rj {
					ratom = m
				}
				prod := ps[0].mul(ps[1]).substSquare(ratom, b2At(hit))
				if !prod.eq(pAtom("n")) && foundBad == "" {
					foundBad = fmt.Sprintf("round %d reports factors %s and %s whose product is %s, not n (s = ⌊√n⌋)", hit, showPoly(ps[0]), showPoly(ps[1]), showPoly(prod))
				}
			} else if len(vals) != 0 && foundBad == "" {
				foundBad = fmt.Sprintf("the finding reports %d big numbers; expected the two factors", len(vals))
			}
		default:
			if res.IsNil() {
				nNil++
				if !exhausted || inRound >= 0 {
					exitBad = "nil (no finding) is returned before the rounds are exhausted"
				}
			} else if exitBad == "" {
				exitBad = "a finding is returned although no round found a perfect square"
			}
		}
	}
	if nPaths == 0 || nFound == 0 || nNil == 0 {
		foreign = fmt.Sprintf("schema not recognised: %d paths, %d finding paths, %d exhausted paths", nPaths, nFound, nNil)
	}
	if foreign != "" {
		r.Unk("fermat-schema", "shape", fn.Pos(), foreign)
		return
	}
	r.Floor("fermat rounds unrolled", unroll, nRoundsSeen)
	pos := fn.Pos()
	r.Check(initBad == "", "fermat-schema", "init", pos, "a = ⌊√n⌋+1, b2 = a²−n, first test b2 == (⌊√b2⌋)²", initBad)
	r.Check(stepBad == "", "fermat-schema", "step", pos, "a ← a+1, b2 ← a²−n (polynomial identity in the free indeterminate ⌊√n⌋, checked on rounds 1.."+fmt.Sprint(nRoundsSeen-1)+")", stepBad)
	_ = testBad
	r.Check(foundBad == "", "fermat-schema", "found", pos, "perfect square ⇒ non-nil error; reported factors multiply to n under r² = b2", foundBad)
	r.Check(exitBad == "", "fermat-schema", "exit", pos, "nil only after i < rounds fails", exitBad)

	// Execute: Error iff the search returned an error
	var reg *Reg
	for _, x := range BuildCensus(c).Regs {
		if x.NameOK && x.Name == "e_rsa_fermat_factorization" {
			reg = x
		}
	}
	if reg == nil || reg.Err != "" {
		fault("unresolved anchor: lint e_rsa_fermat_factorization")
	}
	eo, eabort := Enumerate(reg.Execute, SymOpts{Inline: func(*ssa.Function) bool { return false }})
	bad := ""
	if eabort != "" {
		bad = eabort
	}
	seen := map[bool]bool{}
	for _, o := range eo {
		if o.Kind != "return" || len(o.Results) != 1 {
			bad = "Execute has a path that is not a plain return"
			continue
		}
		var isErr, decided bool
		for _, cd := range o.Conds {
			t := cd.T
			if t.Op == "bin" && (t.Name == "!=" || t.Name == "==") && t.Args[1].IsNil() {
				if _, ok := t.Args[0].CallNamed("lints/community.checkPrimeFactorsTooClose"); ok {
					isErr = cd.Val == (t.Name == "!=")
					decided = true
					continue
				}
			}
			if ex := stripExtract(t); ex != nil {
				continue // the comma-ok of the key type assertion (C02's pairing rule)
			}
			bad = "Execute branches on " + t.String()
		}
		if !decided {
			bad = "a path of Execute does not depend on the search result"
			continue
		}
		st := o.Field(o.Results[0], "Status")
		want := "3" // Pass
		if isErr {
			want = "6" // Error
		}
		if st == nil || !st.IsConst() || st.String() != want {
			bad = fmt.Sprintf("search result error=%v gives status %v", isErr, st)
		}
		seen[isErr] = true
	}
	if bad == "" && (!seen[true] || !seen[false]) {
		bad = "Execute does not distinguish a found factorisation from none"
	}
	r.Check(bad == "", "fermat-schema", "verdict", reg.Execute.Pos(), "Error iff checkPrimeFactorsTooClose returns an error, else Pass", bad)
}

func stripExtract(t *T) *T {
	if t != nil && t.Op == "extract" {
		return t
	}
	return nil
}

var _ = ssa.Value(nil)
