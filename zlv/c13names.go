package main

import (
	"fmt"
	"go/constant"
	"sort"
	"strings"
	"unicode"

	"golang.org/x/tools/go/ssa"
)

// C13 / C15, rule "name-list-verbatim": what -includeNames / -excludeNames
// hand to the library are the listed entries themselves. The function that
// turns the flag text into FilterOptions.IncludeNames / ExcludeNames (found
// from the stores in setLints, not by name) may only split and trim in ways
// that leave every REGISTERED lint name intact: the checker evaluates each
// separator, cut-set, prefix/suffix and separator predicate it finds against
// the names of the census (today two names contain '-': a splitter that treats
// every non-identifier character as a separator makes them unselectable), and
// refuses any other transformation of the entries (case folding would accept
// names that are not registered; the CLI documents "the names provided must be
// precise").

var unicodePreds = map[string]func(rune) bool{
	"unicode.IsSpace": unicode.IsSpace, "unicode.IsLetter": unicode.IsLetter, "unicode.IsDigit": unicode.IsDigit, "unicode.IsNumber": unicode.IsNumber,
	"unicode.IsPunct": unicode.IsPunct, "unicode.IsUpper": unicode.IsUpper, "unicode.IsLower": unicode.IsLower, "unicode.IsControl": unicode.IsControl,
	"unicode.IsSymbol": unicode.IsSymbol, "unicode.IsPrint": unicode.IsPrint, "unicode.IsGraphic": unicode.IsGraphic,
}

// runePredTrue: the runes of alphabet for which the predicate value may be true
// ("" = decided for all), decided from the predicate's decision table.
func runePredOn(pred ssa.Value, alphabet []rune) (hits []rune, undecided string) {
	var fn *ssa.Function
	switch p := pred.(type) {
	case *ssa.Function:
		fn = p
	case *ssa.MakeClosure:
		if len(p.Bindings) > 0 {
			return nil, "the separator predicate captures variables"
		}
		fn, _ = p.Fn.(*ssa.Function)
	}
	if fn == nil {
		return nil, "the separator predicate is not a function literal or named function"
	}
	if lib := unicodePreds[funcCallName(fn)]; lib != nil {
		for _, ch := range alphabet {
			if lib(ch) {
				hits = append(hits, ch)
			}
		}
		return hits, ""
	}
	if len(fn.Params) != 1 || len(fn.Blocks) == 0 {
		return nil, "the separator predicate " + fname(fn) + " has no analysable body"
	}
	outs, abort := Enumerate(fn, SymOpts{MaxPaths: 5000, Pure: func(n string) bool { return defaultPure(n) || strings.HasPrefix(n, "unicode.") }})
	if abort != "" {
		return nil, "the separator predicate is not a finite decision table: " + abort
	}
	pname := fn.Params[0].Name()
	for _, ch := range alphabet {
		ch := ch
		var oracle Oracle
		oracle = func(t *T) (interface{}, bool) {
			switch t.Op {
			case "param":
				if t.Name == pname {
					return int64(ch), true
				}
			case "conv":
				if len(t.Args) == 1 {
					if v, err := Eval(t.Args[0], oracle); err == nil {
						return v, true
					}
				}
			case "call":
				if lib := unicodePreds[t.Name]; lib != nil && len(t.Args) == 1 {
					if v, err := Eval(t.Args[0], oracle); err == nil {
						if n, ok := v.(int64); ok {
							return lib(rune(n)), true
						}
					}
				}
				if t.Name == "strings.ContainsRune" && len(t.Args) == 2 {
					s, e1 := Eval(t.Args[0], oracle)
					n, e2 := Eval(t.Args[1], oracle)
					if ss, ok := s.(string); ok && e1 == nil && e2 == nil {
						if nn, ok := n.(int64); ok {
							return strings.ContainsRune(ss, rune(nn)), true
						}
					}
				}
			}
			return nil, false
		}
		sel, err := Select(outs, oracle)
		if err != nil {
			return nil, "the separator predicate uses an operation the checker cannot evaluate: " + err.Error()
		}
		if len(sel) != 1 || sel[0].Kind != "return" || len(sel[0].Results) != 1 {
			return nil, fmt.Sprintf("the separator predicate has %d outcomes for %q", len(sel), ch)
		}
		v, err := Eval(sel[0].Results[0], oracle)
		bv, isB := v.(bool)
		if err != nil || !isB {
			return nil, "the separator predicate's result cannot be evaluated: " + sel[0].Results[0].String()
		}
		if bv {
			hits = append(hits, ch)
		}
	}
	return hits, ""
}

func ssaConstStr(v ssa.Value) (string, bool) {
	k, ok := v.(*ssa.Const)
	if !ok || k.Value == nil || k.Value.Kind() != constant.String {
		return "", false
	}
	return constant.StringVal(k.Value), true
}

func c13NameList(c *Ctx, r *Report, cs *Census) {
	const rule = "name-list-verbatim"
	var names []string
	alpha := map[rune]bool{}
	ends := map[rune]bool{}
	for _, reg := range cs.Regs {
		if reg.NameOK {
			names = append(names, reg.Name)
			for _, ch := range reg.Name {
				alpha[ch] = true
			}
			rs := []rune(reg.Name)
			ends[rs[0]], ends[rs[len(rs)-1]] = true, true
		}
	}
	sort.Strings(names)
	var alphabet, endRunes []rune
	for ch := range alpha {
		alphabet = append(alphabet, ch)
	}
	for ch := range ends {
		endRunes = append(endRunes, ch)
	}
	sort.Slice(alphabet, func(i, j int) bool { return alphabet[i] < alphabet[j] })
	sort.Slice(endRunes, func(i, j int) bool { return endRunes[i] < endRunes[j] })
	r.Extra["lint_name_alphabet"] = string(alphabet)
	firstWith := func(f func(string) bool) string {
		for _, n := range names {
			if f(n) {
				return n
			}
		}
		return ""
	}

	set := c.Func("cmd/zlint", "setLints")
	// the values stored into IncludeNames / ExcludeNames
	type src struct {
		field string
		val   ssa.Value
		at    ssa.Instruction
	}
	var srcs []src
	allInstrsDeep(set, func(in ssa.Instruction) {
		st, ok := in.(*ssa.Store)
		if !ok {
			return
		}
		fa, ok := st.Addr.(*ssa.FieldAddr)
		if !ok {
			return
		}
		if f := fieldVar(fa).Name(); f == "IncludeNames" || f == "ExcludeNames" {
			srcs = append(srcs, src{f, st.Val, st})
		}
	})
	// composite literal form: FilterOptions{IncludeNames: f(x)} also arrives as stores through FieldAddr
	r.Floor("name-list flags reaching FilterOptions", 2, len(srcs))
	checked := map[*ssa.Function]bool{}
	nsplit := 0
	var examine func(where string, in ssa.Instruction)
	examine = func(where string, in ssa.Instruction) {
		call, ok := in.(ssa.CallInstruction)
		if !ok {
			return
		}
		cc := call.Common()
		if _, isB := cc.Value.(*ssa.Builtin); isB {
			return
		}
		g := cc.StaticCallee()
		if g == nil {
			r.Unk(rule, where+"|dynamic call", in.Pos(), "the name-list splitter makes a dynamic call: cannot show that registered names pass through unchanged")
			return
		}
		if isModFunc(g) {
			return // walked by allInstrsDeep when newer than the rules; an older module helper is examined on its own below
		}
		name := funcCallName(g)
		key := where + "|" + name
		a := cc.Args
		switch name {
		case "strings.Split", "strings.SplitN", "strings.SplitSeq":
			nsplit++
			sep, ok := ssaConstStr(a[1])
			if !ok {
				r.Unk(rule, key, in.Pos(), "separator is not a constant")
				return
			}
			hit := firstWith(func(n string) bool { return sep == "" || strings.Contains(n, sep) })
			r.Check(hit == "", rule, key+"("+fmt.Sprintf("%q", sep)+")", in.Pos(), fmt.Sprintf("separator %q occurs in none of the %d registered names", sep, len(names)),
				fmt.Sprintf("the list is split at %q, which occurs inside the registered lint name %q: that lint is listed but can no longer be selected by name", sep, hit))
		case "strings.Fields", "strings.FieldsSeq":
			nsplit++
			hit := firstWith(func(n string) bool { return strings.IndexFunc(n, unicode.IsSpace) >= 0 })
			r.Check(hit == "", rule, key, in.Pos(), "no registered name contains white space", "the list is split at white space, which occurs inside the registered name "+hit)
		case "strings.TrimSpace":
			hit := firstWith(func(n string) bool { return strings.TrimSpace(n) != n })
			r.Check(hit == "", rule, key, in.Pos(), "no registered name starts or ends with white space", "entries are trimmed of white space, which the registered name "+hit+" starts or ends with")
		case "strings.Trim", "strings.TrimLeft", "strings.TrimRight":
			cut, ok := ssaConstStr(a[1])
			if !ok {
				r.Unk(rule, key, in.Pos(), "cut-set is not a constant")
				return
			}
			hit := firstWith(func(n string) bool { return strings.Trim(n, cut) != n })
			r.Check(hit == "", rule, key+"("+fmt.Sprintf("%q", cut)+")", in.Pos(), "no registered name starts or ends with a character of the cut-set", fmt.Sprintf("entries are trimmed of %q, which changes the registered name %q", cut, hit))
		case "strings.TrimPrefix", "strings.TrimSuffix", "strings.CutPrefix", "strings.CutSuffix":
			fix, ok := ssaConstStr(a[1])
			if !ok {
				r.Unk(rule, key, in.Pos(), "prefix/suffix is not a constant")
				return
			}
			hit := firstWith(func(n string) bool { return fix != "" && (strings.HasPrefix(n, fix) || strings.HasSuffix(n, fix)) })
			r.Check(hit == "", rule, key+"("+fmt.Sprintf("%q", fix)+")", in.Pos(), "no registered name has that prefix/suffix", fmt.Sprintf("entries lose the prefix/suffix %q, which the registered name %q has", fix, hit))
		case "strings.FieldsFunc", "strings.FieldsFuncSeq", "strings.TrimFunc", "strings.TrimLeftFunc", "strings.TrimRightFunc":
			over := alphabet
			if name != "strings.FieldsFunc" && name != "strings.FieldsFuncSeq" {
				over = endRunes
			} else {
				nsplit++
			}
			hits, und := runePredOn(a[1], over)
			if und != "" {
				r.Unk(rule, key, in.Pos(), und+": cannot show that no registered lint name contains a separator")
				return
			}
			if len(hits) > 0 {
				hit := firstWith(func(n string) bool { return strings.ContainsRune(n, hits[0]) })
				r.Bad(rule, key, in.Pos(), fmt.Sprintf("the separator predicate holds for %q, which occurs in the registered lint name %q (and %d more characters of the name alphabet %q were tested): that lint is listed but can no longer be selected by name", hits[0], hit, len(over)-1, string(over)))
			} else {
				r.OK(rule, key, in.Pos(), true, fmt.Sprintf("the separator predicate is false for every character of the registered names' alphabet %q", string(over)))
			}
		case "strings.HasPrefix", "strings.HasSuffix", "strings.Contains", "strings.ContainsRune", "strings.ContainsAny", "strings.Index", "strings.IndexByte", "strings.IndexRune", "strings.EqualFold", "strings.Compare", "strings.Count",
			"slices.Sort", "sort.Strings", "slices.Compact", "slices.Contains", "slices.Index", "slices.Grow", "slices.Clip", "slices.Collect", "slices.Values":
			// observations and order/duplicate handling: entries themselves are unchanged
		default:
			if strings.HasPrefix(name, "unicode.") {
				return
			}
			r.Bad(rule, key, in.Pos(), "the name-list splitter passes entries through "+name+": the entries handed to the library are no longer the listed names (an altered spelling is accepted or a registered name is rejected); only splitting and trimming that leave registered names intact are recognised")
		}
	}
	for _, s := range srcs {
		call, ok := s.val.(*ssa.Call)
		if !ok {
			if _, isNil := s.val.(*ssa.Const); isNil {
				continue
			}
			r.Unk(rule, s.field, s.at.Pos(), "the value stored into FilterOptions."+s.field+" is not the result of a call: "+apath(s.val))
			continue
		}
		g := call.Call.StaticCallee()
		switch {
		case g != nil && isModFunc(g) && len(g.Blocks) > 0:
			if checked[g] {
				continue
			}
			checked[g] = true
			allInstrsDeep(g, func(in ssa.Instruction) { examine(fname(g), in) })
			// module helpers older than the rules that the splitter calls
			allInstrsDeep(g, func(in ssa.Instruction) {
				if ci, ok := in.(ssa.CallInstruction); ok {
					if h := ci.Common().StaticCallee(); h != nil && isModFunc(h) && !isNewFunc(h) && !checked[h] && len(h.Blocks) > 0 {
						checked[h] = true
						allInstrsDeep(h, func(in2 ssa.Instruction) { examine(fname(h), in2) })
					}
				}
			})
		default:
			examine("cmd/zlint.setLints", call)
		}
	}
	r.Floor("splitting calls examined in the name-list parser", 1, nsplit)
}
