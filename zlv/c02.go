package main

import (
	"bufio"
	"bytes"
	"fmt"
	"go/ast"
	"go/token"
	"go/types"
	"os"
	"os/exec"
	"path/filepath"
	"regexp"
	"sort"
	"strconv"
	"strings"

	"golang.org/x/tools/go/ssa"
	"golang.org/x/tools/go/types/typeutil"
)

func init() { register("C02", runC02) }

type panicSite struct {
	class  string // bounds | assert | panic | divide | nil-deref
	fn     string
	expr   string
	canon  string   // name-independent form of expr used in the ledger key ("" = expr)
	params []string // SSA parameter names occurring in expr, replaced by $i in the key
	pos    token.Pos
	posStr string
	how    string // how it was discharged ("" = not yet)
	extOID string // field-deref: the field is set when this extension is present (pairing with CheckApplies still to be tried)
	detail string
}

func runC02(c *Ctx, tier string) {
	r := NewReport("C02", "other", tier, c)
	r.Explanation = "The full statement (no panic for any byte string the parsers accept) is not statically decidable here: most accesses are safe because of post-conditions of the zcrypto / x-crypto parsers that an analysis of zlint cannot see. What is decided is a LEDGER of panic obligations that is complete, by construction, for the classes it covers in packages zlint, lint, util and lints/*: P1 every index or slice expression whose bounds check the Go compiler's prove pass cannot eliminate (go build -gcflags=-d=ssa/check_bce/debug=1, replayed from a private build cache; each reported position is mapped to its enclosing function and expression); P2 every type assertion without comma-ok; P3 every explicit panic in code reachable from a lint method; P4 every integer division or remainder by a non-constant in such code; P5 every dereference of the result of util.GetExtFromCert (nil when the extension is absent). Each obligation must be discharged by (a) precondition pairing decided from the lint's own CheckApplies decision table — Execute asserts c.PublicKey.(T) only if every applicable path saw the comma-ok assertion to T succeed; GetExtFromCert(c, X) is dereferenced only if every applicable path saw IsExtInCert(c, X) for the same OID —, (b) a dominating nil test of the same value, or (c) a reviewed line of /verif/ledger/C02.txt (key = class|function|expression, one-line argument, typically a parser invariant). An obligation with none of the three is a violation, so dropping `ok &&` from a CheckApplies, removing a length test the compiler relied on, or adding an unguarded x[0] to a new lint is reported with its site. NOT decided: that the ledger's arguments are true (human review against the parser source), panics inside library callees, stack or memory exhaustion."
	r.Rule("P1 bounds (compiler prove pass); P2 unchecked assertions; P3 explicit panics; P4 division; P5 nil-able extension deref; P6 pointer result used although the call's error was discarded; P7 library callee that indexes its argument unconditionally (length requirement derived from the callee's SSA); P9 call of a library function that contains an explicit panic for some arguments (set derived from the callees' SSA; discharged by a reviewed table of callees whose panics no argument can reach, or a ledger line); P8 dereference of a pointer-typed field of a library struct (nil when the parser did not set it): dominating nil test, reviewed always-set table, ParsedDomain/ParseError pairing, or extension pairing; discharge = CheckApplies pairing | dominating guard | reviewed ledger line")
	r.Trusted = []string{"the Go compiler's prove pass (bounds-check elimination)", "go/ssa", "the reviewed arguments in ledger/C02.txt", "zcrypto / x-crypto parser post-conditions quoted there"}
	r.Assumptions = []string{"panics inside library functions called with unusual arguments are outside the ledger", "the ledger's one-line arguments were reviewed by reading; they are not re-proved"}

	cs := BuildCensus(c)
	r.Floor("registrations", 370, len(cs.Regs))
	c02Core(c, r, cs, nil)
	r.Finish()
}

// c02Core evaluates the panic-obligation ledger. With only == nil every site is
// an obligation of the report (C02). With a filter (C01: the functions reachable
// from CRL / OCSP lints, which run without a recovery net) only the selected
// sites are, and the census floors and stale-line notes are left to C02.
func c02Core(c *Ctx, r *Report, cs *Census, only func(s *panicSite) bool) {
	var sites []*panicSite
	sites = append(sites, c02Bounds(c, r)...)
	reach := staticReach(c, cs)
	sites = append(sites, c02SSA(c, cs, reach)...)
	ledger, ledgerLines := loadLedger()
	sort.SliceStable(sites, func(i, j int) bool {
		if sites[i].posStr != sites[j].posStr {
			return lessPos(sites[i].posStr, sites[j].posStr)
		}
		return sites[i].expr < sites[j].expr
	})
	counts := map[string]int{}
	seenKey := map[string]int{}
	crlTypes := c02NoNetKinds(c, cs)
	keys := make([]string, len(sites))
	match := make([]*ledgerLine, len(sites))
	auto := newC02Auto(c)
	for _, s := range sites {
		if s.class == "bounds" && s.how == "" && s.pos.IsValid() {
			s.how = auto.discharge(s)
		}
		// reflection over a constant list of field names, re-derived from the source
		if s.how == "" && s.pos.IsValid() && (s.class == "assert" || s.class == "library-panic") {
			switch x := auto.byPos[s.pos].(type) {
			case *ssa.TypeAssert:
				if why := auto.reflectFieldList(x.X); why != "" {
					parts := strings.SplitN(why, "|", 2)
					if len(parts) == 2 && parts[1] == x.AssertedType.String() {
						s.how = parts[0]
					}
				}
			case *ssa.Call:
				switch staticCalleeName(&x.Call) {
				case "(reflect.Value).Interface":
					if len(x.Call.Args) == 1 {
						if why := auto.reflectFieldByName(x.Call.Args[0], ""); why != "" {
							s.how = strings.SplitN(why, "|", 2)[0]
						}
					}
				case "(reflect.Value).FieldByName":
					if why := auto.reflectFieldByName(x, ""); why != "" {
						s.how = strings.SplitN(why, "|", 2)[0]
					}
				}
			}
		}
	}
	for i, s := range sites {
		counts[s.class]++
		base := s.class + "|" + s.fn + "|" + s.keyExpr()
		seenKey[base]++
		keys[i] = base
		if n := seenKey[base]; n > 1 {
			keys[i] = fmt.Sprintf("%s#%d", base, n)
		}
		if os.Getenv("ZLV_C02_KEYS") != "" {
			fmt.Printf("key\t%s\t%s|%s|%s\n", keys[i], s.class, s.fn, normExpr(s.expr))
		}
		if s.how == "" {
			if l := ledger[keys[i]]; l != nil && !l.used {
				l.used, match[i] = true, l
			}
		}
	}
	// second pass: a reviewed site that moved to another function of the same
	// package (helper extracted, function renamed) keeps its argument as long
	// as the number of sites of that shape in the package does not grow
	for i, s := range sites {
		if s.how != "" || match[i] != nil {
			continue
		}
		var cands []*ledgerLine
		for _, l := range ledger {
			if !l.used && l.class == s.class && l.pkg == keyPkg(s.fn) && l.expr == s.keyExpr() {
				cands = append(cands, l)
			}
		}
		if len(cands) > 0 {
			sort.Slice(cands, func(a, b int) bool { return cands[a].key < cands[b].key })
			cands[0].used, match[i] = true, cands[0]
		}
	}
	for i, s := range sites {
		key := keys[i]
		if only != nil && !only(s) {
			continue
		}
		escape := ""
		if crlTypes[s.fn] {
			escape = " — in a CRL/OCSP lint: the panic would escape LintRevocationListEx / LintOcspResponseEx (no recovery net)"
		}
		switch {
		case s.how != "":
			r.Add(s.class, strings.TrimPrefix(key, s.class+"|"), s.pos, Discharged, true, s.how)
		case match[i] != nil:
			l := match[i]
			arg := l.arg
			if l.key != key {
				arg += " [reviewed as " + l.key + "; matched by package and shape]"
			}
			if l.wit != "" {
				if why := checkWitness(c, cs, l.wit, s, auto); why != "" {
					r.Add(s.class, strings.TrimPrefix(key, s.class+"|"), s.pos, Violated, true, "the reviewed argument for "+s.detail+" relies on a precondition that no longer holds: "+why+" (argument: "+arg+")"+escape)
					continue
				}
				arg += " [witness re-checked: " + l.wit + "]"
			}
			r.Add(s.class, strings.TrimPrefix(key, s.class+"|"), s.pos, Discharged, true, "ledger: "+arg)
		default:
			r.Add(s.class, strings.TrimPrefix(key, s.class+"|"), s.pos, Violated, true, "undischarged panic obligation: "+s.detail+" at "+s.posStr+escape+" — not implied by the lint's CheckApplies, not guarded, and not in the reviewed ledger")
		}
	}
	if only != nil {
		return
	}
	var stale []string
	for k, l := range ledger {
		if !l.used {
			stale = append(stale, k)
		}
	}
	sort.Strings(stale)
	for _, k := range stale {
		fmt.Printf("note: ledger line no longer matches a site (reviewed argument unused): %s\n", k)
	}
	r.Extra["sites_by_class"] = counts
	r.Extra["ledger_lines"] = ledgerLines
	nwit, nauto := 0, map[string]int{}
	for _, l := range ledger {
		if l.wit != "" {
			nwit++
		}
	}
	for _, s := range sites {
		if i := strings.Index(s.how, ":"); i > 0 && i < 40 {
			nauto[s.how[:i]]++
		} else if s.how != "" {
			nauto["other automatic"]++
		}
	}
	r.Extra["ledger_lines_with_witness"] = nwit
	r.Extra["automatic_discharges"] = nauto
	r.Extra["pkix_name_stores_checked"] = auto.nStores
	r.Extra["stale_ledger_lines"] = stale
	r.Floor("unproven bounds checks reported by the compiler", 40, counts["bounds"])
	r.Floor("unchecked type assertions", 10, counts["assert"])
	r.Floor("GetExtFromCert dereferences", 40, counts["nil-deref"])
	for i, s := range sites {
		if i%25 == 0 && len(r.Samples) < 8 {
			r.Sample(map[string]interface{}{"class": s.class, "function": s.fn, "expression": s.expr, "at": s.posStr, "discharged_by": s.how})
		}
	}
}

// normExpr makes an expression usable as a stable key: blanks removed and
// every phi(...) group (loop variables) collapsed.
func normExpr(e string) string {
	e = strings.ReplaceAll(e, " ", "")
	e = strings.ReplaceAll(e, "interface{}", "any") // the two spellings name one type
	for {
		i := strings.Index(e, "phi(")
		if i < 0 {
			break
		}
		depth, j := 0, i+3
		for ; j < len(e); j++ {
			if e[j] == '(' {
				depth++
			} else if e[j] == ')' {
				depth--
				if depth == 0 {
					break
				}
			}
		}
		if j >= len(e) {
			break
		}
		e = e[:i] + "φ" + e[j+1:]
	}
	return e
}

func lessPos(a, b string) bool {
	pa, pb := strings.Split(a, ":"), strings.Split(b, ":")
	if pa[0] != pb[0] {
		return pa[0] < pb[0]
	}
	for i := 1; i < 3 && i < len(pa) && i < len(pb); i++ {
		x, _ := strconv.Atoi(pa[i])
		y, _ := strconv.Atoi(pb[i])
		if x != y {
			return x < y
		}
	}
	return false
}

type ledgerLine struct {
	key, class, fn, pkg, expr string // expr without the #n ordinal
	arg, wit                  string
	used                      bool
}

var keyPkgRe = regexp.MustCompile(`^\(?\*?((?:lints/)?\w+)\.`)

// keyPkg extracts the package from a function name as written in keys:
// "lints/rfc.f", "lints/rfc.(*T).M", "(*lints/rfc.T).M", "(lint.T).M".
func keyPkg(fn string) string {
	if m := keyPkgRe.FindStringSubmatch(fn); m != nil {
		return m[1]
	}
	return fn
}

var ordRe = regexp.MustCompile(`#\d+$`)

func loadLedger() (map[string]*ledgerLine, int) {
	out := map[string]*ledgerLine{}
	f, err := os.Open(filepath.Join(verifDir(), "ledger", "C02.txt"))
	if err != nil {
		return out, 0
	}
	defer f.Close()
	sc := bufio.NewScanner(f)
	sc.Buffer(make([]byte, 1<<20), 1<<20)
	n := 0
	for sc.Scan() {
		line := strings.TrimSpace(sc.Text())
		if line == "" || strings.HasPrefix(line, "#") {
			continue
		}
		i := strings.Index(line, " :: ")
		if i < 0 {
			fault("ledger/C02.txt: malformed line %q", trimStr(line, 80))
		}
		l := &ledgerLine{key: strings.ReplaceAll(strings.TrimSpace(line[:i]), "interface{}", "any"), arg: strings.TrimSpace(line[i+4:])}
		parts := strings.SplitN(l.key, "|", 3)
		if len(parts) != 3 {
			fault("ledger/C02.txt: malformed key %q", trimStr(l.key, 80))
		}
		l.class, l.fn, l.expr = parts[0], parts[1], ordRe.ReplaceAllString(parts[2], "")
		l.pkg = keyPkg(l.fn)
		if j := strings.Index(l.arg, " @@"); j >= 0 {
			l.arg, l.wit = l.arg[:j], strings.TrimSpace(l.arg[j+3:])
		}
		if l.arg == "" {
			fault("ledger/C02.txt: line without an argument: %s", l.key)
		}
		out[l.key] = l
		n++
	}
	return out, n
}

// keyExpr: the expression as it appears in ledger keys — independent of the
// names of local variables and parameters.
func (s *panicSite) keyExpr() string {
	e := s.expr
	if s.canon != "" {
		e = s.canon
	}
	for i, p := range s.params {
		if p != "" {
			e = regexp.MustCompile(`(^|[^\w.])`+regexp.QuoteMeta(p)+`\b`).ReplaceAllString(e, fmt.Sprintf("${1}$$%d", i))
		}
	}
	return normExpr(e)
}

// canonExpr prints an index/slice expression with every local variable and
// parameter replaced by its type, so that renaming a local does not change
// the key; fields, package-level objects, constants and calls keep their names.
func canonExpr(info *types.Info, e ast.Expr) string {
	var pr func(e ast.Expr) string
	pr = func(e ast.Expr) string {
		switch x := e.(type) {
		case *ast.Ident:
			if v, ok := info.Uses[x].(*types.Var); ok && !v.IsField() && v.Parent() != nil && v.Pkg() != nil && v.Parent() != v.Pkg().Scope() {
				return "‹" + shortTypeName(v.Type()) + "›"
			}
			return x.Name
		case *ast.SelectorExpr:
			if id, ok := x.X.(*ast.Ident); ok {
				if _, isPkg := info.Uses[id].(*types.PkgName); isPkg {
					return id.Name + "." + x.Sel.Name
				}
			}
			return pr(x.X) + "." + x.Sel.Name
		case *ast.IndexExpr:
			return pr(x.X) + "[" + pr(x.Index) + "]"
		case *ast.SliceExpr:
			out := pr(x.X) + "["
			if x.Low != nil {
				out += pr(x.Low)
			}
			out += ":"
			if x.High != nil {
				out += pr(x.High)
			}
			if x.Slice3 {
				out += ":"
				if x.Max != nil {
					out += pr(x.Max)
				}
			}
			return out + "]"
		case *ast.CallExpr:
			var as []string
			for _, a := range x.Args {
				as = append(as, pr(a))
			}
			return pr(x.Fun) + "(" + strings.Join(as, ",") + ")"
		case *ast.BinaryExpr:
			return pr(x.X) + x.Op.String() + pr(x.Y)
		case *ast.UnaryExpr:
			return x.Op.String() + pr(x.X)
		case *ast.ParenExpr:
			return "(" + pr(x.X) + ")"
		case *ast.StarExpr:
			return "*" + pr(x.X)
		case *ast.TypeAssertExpr:
			return pr(x.X) + ".(" + types.ExprString(x.Type) + ")"
		}
		return types.ExprString(e)
	}
	return pr(e)
}

func shortTypeName(t types.Type) string {
	return types.TypeString(t, func(p *types.Package) string { return p.Name() })
}

// c02NoNetKinds: functions that are methods of CRL / OCSP lint types.
func c02NoNetKinds(c *Ctx, cs *Census) map[string]bool {
	out := map[string]bool{}
	reach := map[*ssa.Function]bool{}
	var stack []*ssa.Function
	push := func(f *ssa.Function) {
		if f != nil && !reach[f] && isModFunc(f) && len(f.Blocks) > 0 {
			reach[f] = true
			stack = append(stack, f)
		}
	}
	for _, reg := range cs.Regs {
		if reg.Err == "" && (reg.Kind == "crl" || reg.Kind == "ocsp") {
			push(reg.Execute)
			push(reg.CheckApplies)
		}
	}
	// the framework's own CRL / OCSP path (life-cycle, configuration, result loop)
	for _, m := range [][3]string{{"lint", "RevocationListLint", "Execute"}, {"lint", "OcspResponseLint", "Execute"}, {"", "ResultSet", "executeRevocationList"}, {"", "ResultSet", "executeOcspResponse"}} {
		push(c.MethodMaybe(m[0], m[1], m[2]))
	}
	for _, fn := range []string{"LintRevocationListEx", "LintOcspResponseEx"} {
		push(c.FuncMaybe("", fn))
	}
	for len(stack) > 0 {
		f := stack[len(stack)-1]
		stack = stack[:len(stack)-1]
		for _, a := range f.AnonFuncs {
			push(a)
		}
		allInstrs(f, func(in ssa.Instruction) {
			if call, ok := in.(ssa.CallInstruction); ok {
				push(call.Common().StaticCallee())
			}
		})
	}
	for f := range reach {
		n := fname(f)
		out[n] = true
		// the compiler-report sites spell methods as pkg.(*T).M
		if m := methSpellRe.FindStringSubmatch(n); m != nil {
			out[m[2]+"."+"("+m[1]+m[3]+")."+m[4]] = true
		}
	}
	return out
}

var methSpellRe = regexp.MustCompile(`^\((\*?)([\w/]+)\.(\w+)\)\.(.+)$`)

var bceRe = regexp.MustCompile(`^(.+?):(\d+):(\d+): Found (IsInBounds|IsSliceInBounds)`)

// c02Bounds runs the compiler's prove pass and maps unproven bounds checks to
// functions and expressions.
func c02Bounds(c *Ctx, r *Report) []*panicSite {
	cache := os.Getenv("ZLV_BCECACHE")
	if cache == "" {
		cache = filepath.Join(verifDir(), ".cache", "bce")
	}
	// the private cache only ever needs the current tree's objects: start over when it has grown
	var sz int64
	_ = filepath.Walk(cache, func(_ string, fi os.FileInfo, err error) error {
		if err == nil && !fi.IsDir() {
			sz += fi.Size()
		}
		return nil
	})
	if sz > 400<<20 {
		_ = os.RemoveAll(cache)
	}
	_ = os.MkdirAll(cache, 0o755)
	cmd := exec.Command("go", "build", "-gcflags="+modPath+"/...=-d=ssa/check_bce/debug=1", "./lints/...", "./util/...", "./lint/...", ".")
	cmd.Dir = c.V3Dir
	env := []string{}
	for _, e := range os.Environ() {
		if strings.HasPrefix(e, "GOFLAGS=") || strings.HasPrefix(e, "GOWORK=") || strings.HasPrefix(e, "GOCACHE=") {
			continue
		}
		env = append(env, e)
	}
	cmd.Env = append(env, "GOFLAGS=-mod=readonly", "GOWORK=off", "GOPROXY=off", "GOSUMDB=off", "GOTOOLCHAIN=local", "GOCACHE="+cache, "CGO_ENABLED=0")
	if goos, goarch := os.Getenv("ZLV_GOOS"), os.Getenv("ZLV_GOARCH"); goos != "" && goarch != "" {
		cmd.Env = append(cmd.Env, "GOOS="+goos, "GOARCH="+goarch)
	}
	var stderr bytes.Buffer
	cmd.Stderr = &stderr
	cmd.Stdout = &stderr
	if err := cmd.Run(); err != nil {
		fault("compiler prove-pass run failed: %v\n%s", err, trimStr(stderr.String(), 600))
	}
	// index AST nodes by position
	type node struct {
		fn    string
		expr  string
		canon string
		pos   token.Pos
	}
	byPos := map[string]node{}
	for _, p := range c.Mod {
		if !scopePkg(p.PkgPath) {
			continue
		}
		for _, f := range p.Syntax {
			file := f
			ast.Inspect(file, func(n ast.Node) bool {
				var lb token.Pos
				switch x := n.(type) {
				case *ast.IndexExpr:
					lb = x.Lbrack
				case *ast.SliceExpr:
					lb = x.Lbrack
				default:
					return true
				}
				pp := c.Fset.Position(lb)
				rel, _ := filepath.Rel(c.V3Dir, pp.Filename)
				nd := node{fn: enclosingName(p, file, lb), expr: types.ExprString(n.(ast.Expr)), canon: canonExpr(p.TypesInfo, n.(ast.Expr)), pos: lb}
				byPos[fmt.Sprintf("%s:%d:%d", rel, pp.Line, pp.Column)] = nd
				// the compiler sometimes reports the operand's start
				ps := c.Fset.Position(n.Pos())
				k2 := fmt.Sprintf("%s:%d:%d", rel, ps.Line, ps.Column)
				if _, ok := byPos[k2]; !ok {
					byPos[k2] = nd
				}
				return true
			})
		}
	}
	// call expressions by the position of their opening parenthesis: the
	// compiler reports bounds checks of an inlined callee at the call site
	type callNode struct {
		fn, callee string
		mod        bool
		pos        token.Pos
	}
	callAt := map[string]callNode{}
	for _, p := range c.Mod {
		if !scopePkg(p.PkgPath) {
			continue
		}
		for _, f := range p.Syntax {
			file := f
			ast.Inspect(file, func(n ast.Node) bool {
				ce, ok := n.(*ast.CallExpr)
				if !ok {
					return true
				}
				pp := c.Fset.Position(ce.Lparen)
				rel, _ := filepath.Rel(c.V3Dir, pp.Filename)
				cn := callNode{fn: enclosingName(p, file, ce.Lparen), pos: ce.Lparen, callee: types.ExprString(ce.Fun)}
				if fo, ok := typeutil.Callee(p.TypesInfo, ce).(*types.Func); ok {
					cn.callee = strings.ReplaceAll(fo.FullName(), modPath+"/", "")
					cn.mod = isModPkg(fo.Pkg())
				}
				callAt[fmt.Sprintf("%s:%d:%d", rel, pp.Line, pp.Column)] = cn
				return true
			})
		}
	}
	var out []*panicSite
	sc := bufio.NewScanner(&stderr)
	seen := map[string]bool{}
	for sc.Scan() {
		line := sc.Text()
		m := bceRe.FindStringSubmatch(line)
		if m == nil {
			if strings.Contains(line, "Found IsInBounds") || strings.Contains(line, "Found IsSliceInBounds") {
				// compiler-generated code (e.g. equality of array types): no source expression
				if !seen[line] {
					seen[line] = true
					out = append(out, &panicSite{class: "bounds", fn: "<compiler-generated>", expr: strings.SplitN(line, ":", 2)[0], posStr: "-", how: "compiler-generated helper (array equality / hashing), not lint code", detail: line})
				}
			}
			continue
		}
		key := m[1] + ":" + m[2] + ":" + m[3]
		if seen[key+m[4]] {
			continue
		}
		seen[key+m[4]] = true
		nd, ok := byPos[key]
		if filepath.IsAbs(m[1]) || strings.HasPrefix(m[1], "..") {
			// a generic library function instantiated while compiling a module package
			// (slices.Sort, maps.Keys …): library-internal check, outside the ledger's
			// scope like every other library callee
			out = append(out, &panicSite{class: "bounds", fn: "<library generic>", expr: m[1], posStr: "-", how: "bounds check inside a generic library function instantiated into the package (library-internal)", detail: line})
			continue
		}
		if cn, isCall := callAt[key]; !ok && isCall {
			how := "bounds check inside the inlined library function " + cn.callee + " (library-internal, guarded there)"
			if cn.mod {
				how = "bounds check of the inlined module function " + cn.callee + ": the same check is an obligation at its own position in that function"
			}
			out = append(out, &panicSite{class: "bounds", fn: cn.fn, expr: "inlined:" + cn.callee, pos: cn.pos, posStr: "v3/" + key, how: how, detail: "bounds check inside inlined " + cn.callee})
			continue
		}
		if !ok {
			out = append(out, &panicSite{class: "bounds", fn: m[1], expr: "<unmapped " + m[4] + ">", posStr: "v3/" + key, detail: "bounds check the compiler cannot prove (no syntax node at this position)"})
			continue
		}
		out = append(out, &panicSite{class: "bounds", fn: nd.fn, expr: nd.expr, canon: nd.canon, pos: nd.pos, posStr: "v3/" + key, detail: "index/slice " + nd.expr + " in " + nd.fn + " is not proven in range by the compiler"})
	}
	return out
}

// c02SSA collects P2–P5 from the SSA of functions in scope.
func c02SSA(c *Ctx, cs *Census, reach map[*ssa.Function]bool) []*panicSite {
	var out []*panicSite
	// registered lint by Execute function, for precondition pairing
	byExec := map[*ssa.Function]*Reg{}
	for _, reg := range cs.Regs {
		if reg.Err == "" {
			byExec[reg.Execute] = reg
		}
	}
	applies := map[*Reg]*appliesTable{}
	tableOf := func(reg *Reg) *appliesTable {
		if t, ok := applies[reg]; ok {
			return t
		}
		t := buildAppliesTable(reg)
		applies[reg] = t
		return t
	}
	var fns []*ssa.Function
	for _, f := range modFunctions(c) {
		if scopePkg(fnPkgPath(f)) {
			fns = append(fns, f)
		}
	}
	for _, f := range fns {
		reg := byExec[f]
		first := len(out)
		var pnames []string
		for _, p := range f.Params {
			pnames = append(pnames, p.Name())
		}
		// a helper newer than the rules with a single call site is the continuation of its
		// caller: its sites are keyed under the caller, with the helper's parameters
		// standing for the caller's arguments (so a reviewed site that was moved into an
		// extracted helper keeps its key)
		keyFn := fname(f)
		var substituted []*ssa.Parameter
		if isNewFunc(f) && f.Parent() == nil {
			cur := f
			for depth := 0; depth < 3 && isNewFunc(cur); depth++ {
				calls := callersOf(c)[cur]
				if len(calls) != 1 {
					break
				}
				call := calls[0]
				for i, p := range cur.Params {
					if i < len(call.Call.Args) {
						if _, dup := apathSubst[p]; !dup {
							apathSubst[p] = call.Call.Args[i]
							substituted = append(substituted, p)
						}
					}
				}
				cur = call.Parent()
				for cur.Parent() != nil {
					cur = cur.Parent()
				}
			}
			if cur != f && !isNewFunc(cur) {
				keyFn = fname(cur)
				pnames = nil
				for _, p := range cur.Params {
					pnames = append(pnames, p.Name())
				}
			} else {
				for _, p := range substituted {
					delete(apathSubst, p)
				}
				substituted = nil
			}
		}
		allInstrs(f, func(in ssa.Instruction) {
			ps := c.Fset.Position(in.Pos())
			rel, _ := filepath.Rel(c.RepoDir, ps.Filename)
			posStr := fmt.Sprintf("%s:%d:%d", rel, ps.Line, ps.Column)
			switch x := in.(type) {
			case *ssa.TypeAssert:
				if x.CommaOk {
					if s := okIgnoredDeref(f, x, posStr); s != nil {
						out = append(out, s)
					}
					return
				}
				s := &panicSite{class: "assert", fn: fname(f), expr: apath(x.X) + ".(" + shortType(x.AssertedType) + ")", pos: x.Pos(), posStr: posStr,
					detail: "type assertion " + apath(x.X) + ".(" + shortType(x.AssertedType) + ") without comma-ok in " + fname(f)}
				pair := func(rg *Reg, field string) (bool, string) {
					want := shortType(x.AssertedType) + ",ok"
					return tableOf(rg).implies(func(t *T, objName string) bool {
						return t.Op == "extract" && t.Name == "1" && len(t.Args) == 1 && t.Args[0].Op == "assert" && t.Args[0].Name == want && t.Args[0].Args[0].String() == objName+"."+field
					})
				}
				if reg != nil && len(f.Params) > 1 {
					obj := f.Params[1].Name()
					if strings.HasPrefix(apath(x.X), obj+".") {
						field := strings.TrimPrefix(apath(x.X), obj+".")
						if ok, why := pair(reg, field); ok {
							s.how = "precondition pairing: every applicable path of " + fname(reg.CheckApplies) + " saw the comma-ok assertion of ." + field + " to " + shortType(x.AssertedType) + " succeed"
						} else {
							s.detail += " (CheckApplies does not establish it: " + why + ")"
						}
					}
				} else if reg == nil && isNewFunc(f) {
					// a shared body newer than the rules (extracted from several Execute methods):
					// every caller must be the Execute of a lint whose own CheckApplies establishes
					// the assertion for the object it passes on
					for k, p := range f.Params {
						if !strings.HasPrefix(apath(x.X), p.Name()+".") {
							continue
						}
						field := strings.TrimPrefix(apath(x.X), p.Name()+".")
						calls := callersOf(c)[f]
						all := len(calls) > 0
						var names []string
						for _, call := range calls {
							h := call.Parent()
							rg := byExec[h]
							if rg == nil || len(h.Params) < 2 || k >= len(call.Call.Args) || call.Call.Args[k] != ssa.Value(h.Params[1]) {
								all = false
								break
							}
							if ok, _ := pair(rg, field); !ok {
								all = false
								break
							}
							names = append(names, rg.Name)
						}
						if all {
							s.how = "precondition pairing: " + fname(f) + " is called only from the Execute of " + strings.Join(names, ", ") + ", each of whose CheckApplies saw the comma-ok assertion of ." + field + " to " + shortType(x.AssertedType) + " succeed"
						}
					}
				}
				out = append(out, s)
			case *ssa.Panic:
				if !reach[f] {
					return
				}
				out = append(out, &panicSite{class: "panic", fn: fname(f), expr: "panic(" + trimStr(apath(x.X), 40) + ")", pos: x.Pos(), posStr: posStr, detail: "explicit panic reachable from a lint method"})
			case *ssa.UnOp:
				if reach[f] {
					if s := fieldDerefSite(f, x, posStr); s != nil {
						if s.how == "" && s.extOID != "" && reg != nil && appliesOnlyUnderExt(reg.CheckApplies, s.extOID) {
							s.how = "precondition pairing: " + fname(reg.CheckApplies) + " can return true only under a test for the extension " + strings.TrimPrefix(s.extOID, "&") + ", which the parser turns into this field"
						}
						out = append(out, s)
					}
				}
			case *ssa.BinOp:
				if !reach[f] || (x.Op != token.QUO && x.Op != token.REM) {
					return
				}
				if _, isK := x.Y.(*ssa.Const); isK {
					return
				}
				if b, ok := x.Type().Underlying().(*types.Basic); !ok || b.Info()&types.IsInteger == 0 {
					return
				}
				out = append(out, &panicSite{class: "divide", fn: fname(f), expr: apath(x.X) + x.Op.String() + apath(x.Y), pos: x.Pos(), posStr: posStr, detail: "integer division by a value that is not a constant"})
			case *ssa.Call:
				if reach[f] {
					out = append(out, calleeLenSites(f, x, posStr)...)
					out = append(out, libPanicSites(f, x, posStr)...)
				}
				if staticCalleeName(&x.Call) != "util.GetExtFromCert" {
					if s := errIgnoredDeref(f, x, posStr); s != nil {
						out = append(out, s)
					}
					return
				}
				oid := ""
				if len(x.Call.Args) == 2 {
					oid = apath(x.Call.Args[1])
				}
				// is the result dereferenced (field access / load) anywhere?
				derefs := derefsOf(x)
				if len(derefs) == 0 {
					return
				}
				s := &panicSite{class: "nil-deref", fn: fname(f), expr: "GetExtFromCert(" + oid + ")", pos: x.Pos(), posStr: posStr,
					detail: "result of util.GetExtFromCert(" + oid + ") (nil when the extension is absent) is dereferenced in " + fname(f)}
				// (b) every dereference dominated by v != nil
				allGuarded := true
				for _, d := range derefs {
					if !guardedBy(d.Block(), x, token.NEQ) {
						allGuarded = false
					}
				}
				if !allGuarded && len(x.Call.Args) == 2 {
					// (b') dominated by the true edge of util.IsExtInCert(sameObj, sameOID) in this function
					allGuarded = true
					for _, d := range derefs {
						if !dominatedByExtTest(d.Block(), apath(x.Call.Args[0]), oid) {
							allGuarded = false
						}
					}
					if allGuarded {
						s.how = "every dereference is dominated by util.IsExtInCert(" + apath(x.Call.Args[0]) + ", " + oid + ") in the same function"
					}
				}
				if s.how != "" {
				} else if allGuarded {
					s.how = "every dereference is dominated by a nil test of the result"
				} else if reg != nil && len(f.Params) > 1 && len(x.Call.Args) == 2 && apath(x.Call.Args[0]) == f.Params[1].Name() {
					tb := tableOf(reg)
					tb.nilTest = func(v *T, objName string) bool {
						return v.Op == "call" && v.Name == "util.GetExtFromCert" && len(v.Args) == 2 && v.Args[0].String() == objName && v.Args[1].String() == oid
					}
					if ok, why := tb.implies(func(t *T, objName string) bool {
						// IsExtInCert(obj, oid)  or  !(GetExtFromCert(obj, oid) == nil) — the latter arrives as its positive form "== nil" with false polarity, handled by the caller through negation
						if t.Op == "call" && len(t.Args) == 2 && t.Args[0].String() == objName && t.Args[1].String() == oid {
							return t.Name == "util.IsExtInCert"
						}
						return false
					}); ok {
						s.how = "precondition pairing: every applicable path of " + fname(reg.CheckApplies) + " saw util.IsExtInCert(obj, " + oid + ") succeed"
					} else {
						s.detail += " (CheckApplies does not establish IsExtInCert(obj, " + oid + "): " + why + ")"
					}
				}
				out = append(out, s)
			}
		})
		for _, s := range out[first:] {
			s.params = pnames
			if keyFn != fname(f) {
				s.fn = keyFn
			}
		}
		for _, p := range substituted {
			delete(apathSubst, p)
		}
	}
	return out
}

// derefsOf: instructions that dereference pointer value v (field address,
// load, method call with v as pointer receiver that is not nil-safe).
func derefsOf(v ssa.Value) []ssa.Instruction {
	var out []ssa.Instruction
	seen := map[ssa.Value]bool{}
	var visit func(x ssa.Value)
	visit = func(x ssa.Value) {
		if seen[x] || x.Referrers() == nil {
			return
		}
		seen[x] = true
		for _, ref := range *x.Referrers() {
			switch r := ref.(type) {
			case *ssa.FieldAddr:
				if r.X == x {
					out = append(out, r)
				}
			case *ssa.UnOp:
				if r.Op == token.MUL && r.X == x {
					out = append(out, r)
				}
			case *ssa.Phi:
				visit(r)
			}
		}
	}
	visit(v)
	return out
}

// appliesTable: decision table of a lint's CheckApplies.
type appliesTable struct {
	outs    []*Outcome
	abort   string
	obj     string
	nilTest func(v *T, obj string) bool // set per query: recognises the value whose non-nil-ness also establishes the precondition
}

func buildAppliesTable(reg *Reg) *appliesTable {
	fn := reg.CheckApplies
	t := &appliesTable{}
	if len(fn.Params) > 1 {
		t.obj = fn.Params[1].Name()
	}
	t.outs, t.abort = Enumerate(fn, SymOpts{MaxDepth: 2, MaxPaths: 3000, Inline: func(f *ssa.Function) bool {
		return isModFunc(f) && len(f.Blocks) > 0 && f.Pkg == fn.Pkg
	}})
	for _, o := range t.outs {
		if o.Kind != "return" {
			t.abort = "CheckApplies is not loop-free (" + o.Kind + ": " + o.Why + ")"
		}
	}
	return t
}

// implies: on every path on which CheckApplies can return true, the atom
// selected by match was observed true (as a branch condition or as the
// returned value itself).
func (t *appliesTable) implies(match func(atom *T, obj string) bool) (bool, string) {
	if t.abort != "" {
		return false, t.abort
	}
	for _, o := range t.outs {
		if len(o.Results) != 1 {
			return false, "unexpected result arity"
		}
		res := o.Results[0]
		if res.IsConst() && res.K != nil && res.K.ExactString() == "false" {
			continue
		}
		ok := false
		for _, cd := range o.Conds {
			a, pol := cd.T, cd.Val
			for a.Op == "un" && a.Name == "!" {
				a, pol = a.Args[0], !pol
			}
			if pol && match(a, t.obj) {
				ok = true
			}
			if !pol && a.Op == "bin" && a.Name == "==" && a.Args[1].IsNil() && t.nilTest != nil && t.nilTest(a.Args[0], t.obj) {
				ok = true // !(GetExtFromCert(obj, oid) == nil)
			}
		}
		if !ok && match(res, t.obj) {
			ok = true
		}
		if !ok && t.nilTest != nil {
			// return GetExtFromCert(obj, oid) != nil, printed as !(x == nil)
			a, pol := res, true
			for a.Op == "un" && a.Name == "!" {
				a, pol = a.Args[0], !pol
			}
			if a.Op == "bin" && len(a.Args) == 2 && a.Args[1].IsNil() && t.nilTest(a.Args[0], t.obj) && ((a.Name == "!=" && pol) || (a.Name == "==" && !pol)) {
				ok = true
			}
		}
		if !ok {
			return false, "a path returning " + res.String() + " when " + trimStr(o.CondString(), 120) + " does not test it"
		}
	}
	return true, ""
}

// dominatedByExtTest: block b is dominated by the true edge of a test
// util.IsExtInCert(obj, oid) made in the same function.
func dominatedByExtTest(b *ssa.BasicBlock, obj, oid string) bool {
	for d := b; d != nil; d = d.Idom() {
		id := d.Idom()
		if id == nil {
			return false
		}
		iff, ok := id.Instrs[len(id.Instrs)-1].(*ssa.If)
		if !ok {
			continue
		}
		cond := iff.Cond
		edge := 0
		for {
			if u, ok := cond.(*ssa.UnOp); ok && u.Op == token.NOT {
				cond = u.X
				edge = 1 - edge
				continue
			}
			break
		}
		call, ok := cond.(*ssa.Call)
		if !ok || staticCalleeName(&call.Call) != "util.IsExtInCert" || len(call.Call.Args) != 2 {
			continue
		}
		if apath(call.Call.Args[0]) != obj || apath(call.Call.Args[1]) != oid {
			continue
		}
		s := id.Succs[edge]
		if len(s.Preds) == 1 && s.Dominates(b) {
			return true
		}
	}
	return false
}

// checkWitness re-establishes, on the current tree, the machine-checkable part
// of a ledger argument. Forms:
//
//	applies-implies <lint> <regexp>            every applicable path of the lint's CheckApplies observed an atom matching regexp
//	                                           (prefix the regexp with ! for "observed false"); needs a loop-free CheckApplies
//	applies-rejects-when <lint> <regexp>       CheckApplies has a test matching regexp whose true edge returns false directly and
//	                                           whose false edge dominates every other return
//	dominated-by [!]<regexp>                   the site is dominated by the true (with !: false) edge of a branch of its own
//	                                           function whose condition matches regexp (parameters are written as in the source)
//	callers-dominated-by [!]<regexp>           the same, for every call of the site's function (which must not be used as a value)
//	w1 || w2                                   either witness
//	applies-loop-only-rejects <lint> <regexp>  the loop of CheckApplies over the collection matching regexp is left early only by `return false`
//
// The object parameter is written OBJ in the regexps.
func checkWitness(c *Ctx, cs *Census, wit string, site *panicSite, auto *c02Auto) string {
	if alts := strings.Split(wit, " || "); len(alts) > 1 {
		var whys []string
		for _, alt := range alts {
			why := checkWitness(c, cs, strings.TrimSpace(alt), site, auto)
			if why == "" {
				return ""
			}
			whys = append(whys, why)
		}
		return strings.Join(whys, "; and ")
	}
	if conj := strings.Split(wit, " && "); len(conj) > 1 {
		for _, part := range conj {
			if why := checkWitness(c, cs, strings.TrimSpace(part), site, auto); why != "" {
				return why
			}
		}
		return ""
	}
	if strings.HasPrefix(wit, "unreachable-from-lints ") {
		// unreachable-from-lints <pkg> <func>: no CheckApplies / Execute of a registered
		// lint reaches <func> through static calls, closures or function values
		f := strings.Fields(strings.TrimPrefix(wit, "unreachable-from-lints "))
		if len(f) != 2 {
			return "malformed witness: " + wit
		}
		fn := c.FuncMaybe(f[0], f[1])
		if fn == nil {
			return "function " + f[0] + "." + f[1] + " not found"
		}
		if staticReach(c, cs)[fn] {
			return f[0] + "." + f[1] + " is now reachable from a lint method: the panic is live for parser-accepted input"
		}
		return ""
	}
	if strings.HasPrefix(wit, "same-arg-as ") {
		// same-arg-as <callee>: the site is a call whose first argument is the very
		// value (same SSA value or same access path) passed first to a call of
		// <callee> that dominates the site
		want := strings.TrimSpace(strings.TrimPrefix(wit, "same-arg-as "))
		in, _ := auto.byPos[site.pos].(*ssa.Call)
		if in == nil || len(in.Call.Args) == 0 {
			return "the site is not a call with arguments"
		}
		why := "no call of " + want + " dominates the site"
		allInstrs(in.Parent(), func(i2 ssa.Instruction) {
			call, ok := i2.(*ssa.Call)
			if !ok || staticCalleeName(&call.Call) != want || len(call.Call.Args) == 0 {
				return
			}
			if !(call.Block().Dominates(in.Block())) {
				return
			}
			if call.Call.Args[0] == in.Call.Args[0] || apath(call.Call.Args[0]) == apath(in.Call.Args[0]) {
				why = ""
			} else if why != "" {
				why = want + " validated " + apath(call.Call.Args[0]) + " but the site re-parses " + apath(in.Call.Args[0])
			}
		})
		return why
	}
	if strings.HasPrefix(wit, "callee-checks-param ") {
		// callee-checks-param <pkg> <func> <library callee>: <func> calls <library
		// callee> on its own first parameter, unmodified, and returns a non-nil
		// result on every path where that call's error is non-nil
		f := strings.Fields(strings.TrimPrefix(wit, "callee-checks-param "))
		if len(f) != 3 {
			return "malformed witness: " + wit
		}
		fn := c.FuncMaybe(f[0], f[1])
		if fn == nil || len(fn.Params) == 0 {
			return "function " + f[0] + "." + f[1] + " not found"
		}
		found := ""
		allInstrs(fn, func(in ssa.Instruction) {
			call, ok := in.(*ssa.Call)
			if !ok || staticCalleeName(&call.Call) != f[2] {
				return
			}
			if len(call.Call.Args) == 0 || call.Call.Args[0] != ssa.Value(fn.Params[0]) {
				found = f[1] + " calls " + f[2] + " on " + apath(call.Call.Args[0]) + ", not on its parameter as passed in: what it validates is not what the caller re-parses"
				return
			}
			// error extract tested; the non-nil edge returns non-nil
			for _, ref := range *call.Referrers() {
				ex, ok := ref.(*ssa.Extract)
				if !ok || ex.Index != 1 {
					continue
				}
				for _, r2 := range *ex.Referrers() {
					bo, ok := r2.(*ssa.BinOp)
					if !ok || !(isNilConst(bo.X) || isNilConst(bo.Y)) {
						continue
					}
					for _, r3 := range *bo.Referrers() {
						iff, ok := r3.(*ssa.If)
						if !ok {
							continue
						}
						errBlk := iff.Block().Succs[0]
						if bo.Op == token.EQL {
							errBlk = iff.Block().Succs[1]
						}
						if ret, ok := errBlk.Instrs[len(errBlk.Instrs)-1].(*ssa.Return); ok && len(ret.Results) == 1 && !isNilConst(ret.Results[0]) {
							if found == "" {
								found = "ok"
							}
						}
					}
				}
			}
		})
		switch found {
		case "ok":
			return ""
		case "":
			return f[1] + " no longer rejects its parameter when " + f[2] + " fails on it"
		}
		return found
	}
	if strings.HasPrefix(wit, "dominated-by ") {
		return auto.dominatedBy(site, strings.TrimSpace(strings.TrimPrefix(wit, "dominated-by ")))
	}
	if strings.HasPrefix(wit, "callers-dominated-by ") {
		return auto.callersDominatedBy(site, strings.TrimSpace(strings.TrimPrefix(wit, "callers-dominated-by ")))
	}
	f := strings.SplitN(wit, " ", 3)
	if len(f) != 3 {
		return "malformed witness: " + wit
	}
	var reg *Reg
	for _, x := range cs.Regs {
		if x.NameOK && x.Name == f[1] && x.Err == "" {
			reg = x
		}
	}
	if reg == nil {
		return "lint " + f[1] + " not found"
	}
	fn := reg.CheckApplies
	obj := ""
	if len(fn.Params) > 1 {
		obj = fn.Params[1].Name()
	}
	pat := f[2]
	neg := strings.HasPrefix(pat, "!")
	pat = strings.TrimPrefix(pat, "!")
	re, err := regexp.Compile(pat)
	if err != nil {
		return "bad regexp in witness: " + err.Error()
	}
	norm := func(s string) string {
		return regexp.MustCompile(`\b`+regexp.QuoteMeta(obj)+`\b`).ReplaceAllString(s, "OBJ")
	}
	switch f[0] {
	case "applies-implies":
		tb := buildAppliesTable(reg)
		if tb.abort != "" {
			return "CheckApplies of " + f[1] + " is not a loop-free table (" + tb.abort + ")"
		}
		for _, o := range tb.outs {
			res := o.Results[0]
			if res.IsConst() && res.K != nil && res.K.ExactString() == "false" {
				continue
			}
			ok := false
			for _, cd := range o.Conds {
				a, pol := cd.T, cd.Val
				for a.Op == "un" && a.Name == "!" {
					a, pol = a.Args[0], !pol
				}
				if re.MatchString(norm(a.String())) && pol == !neg {
					ok = true
				}
			}
			if !neg && re.MatchString(norm(res.String())) {
				ok = true
			}
			if !ok {
				return "CheckApplies of " + f[1] + " can apply without having established " + f[2] + " (path: " + trimStr(o.CondString(), 100) + ")"
			}
		}
		return ""
	case "applies-rejects-when":
		for _, b := range fn.Blocks {
			iff, ok := b.Instrs[len(b.Instrs)-1].(*ssa.If)
			if !ok || !re.MatchString(norm(apath(iff.Cond))) {
				continue
			}
			rej, cont := b.Succs[0], b.Succs[1]
			if neg {
				rej, cont = cont, rej
			}
			ret, ok := rej.Instrs[len(rej.Instrs)-1].(*ssa.Return)
			if !ok || len(ret.Results) != 1 {
				continue
			}
			k, isK := ret.Results[0].(*ssa.Const)
			if !isK || k.Value == nil || k.Value.ExactString() != "false" {
				continue
			}
			all := true
			for _, r2 := range realReturns(fn) {
				if r2 != ret && !cont.Dominates(r2.Block()) {
					all = false
				}
			}
			if all {
				return ""
			}
		}
		return "CheckApplies of " + f[1] + " no longer returns false up front when " + f[2]
	case "applies-loop-only-rejects":
		for _, l := range naturalLoops(fn) {
			hit := false
			for _, it := range l.iterated() {
				if re.MatchString(norm(it)) {
					hit = true
				}
			}
			if !hit {
				continue
			}
			for _, ex := range l.earlyExits() {
				if ex.kind != "return" {
					return "the loop of CheckApplies of " + f[1] + " over " + f[2] + " can be left by break: later elements are not validated"
				}
				for _, ret := range ex.rets {
					k, isK := ret.Results[0].(*ssa.Const)
					if !isK || k.Value == nil || k.Value.ExactString() != "false" {
						return "the loop of CheckApplies of " + f[1] + " over " + f[2] + " can return something other than false from inside: later elements are not validated"
					}
				}
			}
			return ""
		}
		return "CheckApplies of " + f[1] + " has no loop over " + f[2]
	}
	return "unknown witness kind " + f[0]
}

// errIgnoredDeref: P6 — `v, _ := f(...)` (or the error simply never looked at)
// where v is a pointer that is then dereferenced or used as a method receiver:
// when f fails v is nil and the use panics. Discharged only by a nil test of v
// dominating every use, or by a reviewed ledger line.
func errIgnoredDeref(f *ssa.Function, x *ssa.Call, posStr string) *panicSite {
	tup, ok := x.Type().(*types.Tuple)
	if !ok || tup.Len() < 2 {
		return nil
	}
	last := tup.At(tup.Len() - 1).Type()
	if n, ok := last.(*types.Named); !ok || n.Obj().Name() != "error" || n.Obj().Pkg() != nil {
		return nil
	}
	if _, isPtr := tup.At(0).Type().Underlying().(*types.Pointer); !isPtr {
		return nil
	}
	var ptr *ssa.Extract
	errUsed := false
	for _, ref := range *x.Referrers() {
		ex, ok := ref.(*ssa.Extract)
		if !ok {
			continue
		}
		if ex.Index == 0 {
			ptr = ex
		}
		if ex.Index == tup.Len()-1 && len(*ex.Referrers()) > 0 {
			errUsed = true
		}
	}
	if errUsed || ptr == nil {
		return nil
	}
	// uses of the pointer that need it non-nil
	var uses []ssa.Instruction
	uses = append(uses, derefsOf(ptr)...)
	for _, ref := range *ptr.Referrers() {
		if call, ok := ref.(ssa.CallInstruction); ok {
			cc := call.Common()
			if !cc.IsInvoke() && len(cc.Args) > 0 && cc.Args[0] == ssa.Value(ptr) {
				if callee := cc.StaticCallee(); callee != nil && callee.Signature.Recv() != nil {
					uses = append(uses, call)
				}
			}
		}
	}
	if len(uses) == 0 {
		return nil
	}
	name := staticCalleeName(&x.Call)
	if name == "" {
		name = "a dynamic call"
	}
	s := &panicSite{class: "err-ignored", fn: fname(f), expr: name + "→deref", pos: x.Pos(), posStr: posStr,
		detail: "the error of " + name + " is discarded and its pointer result (nil on failure) is dereferenced / used as a method receiver in " + fname(f)}
	guarded := true
	for _, u := range uses {
		if !guardedBy(u.Block(), ptr, token.NEQ) {
			guarded = false
		}
	}
	if guarded {
		s.how = "every use is dominated by a nil test of the result"
	}
	return s
}

// callersOf: static call sites of every function, over the module's functions.
var callersMemo map[*ssa.Function][]*ssa.Call
var callersCtx *Ctx

func callersOf(c *Ctx) map[*ssa.Function][]*ssa.Call {
	if callersCtx == c && callersMemo != nil {
		return callersMemo
	}
	callersCtx, callersMemo = c, map[*ssa.Function][]*ssa.Call{}
	for _, f := range modFunctions(c) {
		allInstrs(f, func(in ssa.Instruction) {
			if call, ok := in.(*ssa.Call); ok {
				if g := call.Call.StaticCallee(); g != nil {
					callersMemo[g] = append(callersMemo[g], call)
				}
			}
		})
	}
	return callersMemo
}

// okIgnoredDeref: P6' — `p, _ := v.(*T)` (comma-ok assertion whose ok is never
// looked at) where p, nil when the assertion fails, is then dereferenced or used
// as a method receiver. Discharged only by a nil test of p dominating every use.
func okIgnoredDeref(f *ssa.Function, x *ssa.TypeAssert, posStr string) *panicSite {
	if !x.CommaOk {
		return nil
	}
	if _, isPtr := x.AssertedType.Underlying().(*types.Pointer); !isPtr {
		return nil
	}
	var ptr *ssa.Extract
	okUsed := false
	for _, ref := range *x.Referrers() {
		ex, ok := ref.(*ssa.Extract)
		if !ok {
			continue
		}
		if ex.Index == 0 {
			ptr = ex
		}
		if ex.Index == 1 && len(*ex.Referrers()) > 0 {
			okUsed = true
		}
	}
	if okUsed || ptr == nil {
		return nil
	}
	var uses []ssa.Instruction
	uses = append(uses, derefsOf(ptr)...)
	for _, ref := range *ptr.Referrers() {
		if call, ok := ref.(ssa.CallInstruction); ok {
			cc := call.Common()
			if !cc.IsInvoke() && len(cc.Args) > 0 && cc.Args[0] == ssa.Value(ptr) {
				if callee := cc.StaticCallee(); callee != nil && callee.Signature.Recv() != nil {
					uses = append(uses, call)
				}
			}
		}
	}
	if len(uses) == 0 {
		return nil
	}
	s := &panicSite{class: "err-ignored", fn: fname(f), expr: apath(x.X) + ".(" + shortType(x.AssertedType) + "),_→deref", pos: x.Pos(), posStr: posStr,
		detail: "the ok of the assertion " + apath(x.X) + ".(" + shortType(x.AssertedType) + ") is discarded and its pointer result (nil when the assertion fails) is dereferenced / used as a method receiver in " + fname(f)}
	guarded := true
	for _, u := range uses {
		if !guardedBy(u.Block(), ptr, token.NEQ) {
			guarded = false
		}
	}
	if guarded {
		s.how = "every use is dominated by a nil test of the result"
	}
	return s
}
