package main

import (
	"fmt"
	"go/token"
	"go/types"
	"os"
	"sort"
	"strings"

	"golang.org/x/tools/go/ssa"
)

// c09ZcryptoTaint re-derives, from zcrypto's source as loaded, WHICH members of
// x509.Certificate depend on the signature bits, instead of trusting a list:
// a forward taint over the SSA of x509.parseCertificate whose sources are the
// two components of the decoded certificate that contain the signature value
// (in.SignatureValue, in.Raw). A field of the Certificate under construction
// is signature-derived when a tainted value is stored into (something reachable
// from) it, when the store is control-dependent on a tainted branch, or when a
// callee that is handed the certificate writes it in a tainted context.
// Every derived field must be covered by the access policy of c09Members.
func c09ZcryptoTaint(c *Ctx, r *Report) map[string]bool {
	p := c.All[zx509]
	if p == nil {
		fault("unresolved anchor: package %s", zx509)
	}
	sp := c.Prog.Package(p.Types)
	f := sp.Func("parseCertificate")
	if f == nil || len(f.Params) == 0 || len(f.Blocks) == 0 {
		r.Unk("sig-derived-fields", "x509.parseCertificate", token.NoPos, "zcrypto's x509.parseCertificate(in *certificate) not found: the set of signature-derived Certificate members cannot be re-derived")
		return nil
	}
	in := f.Params[0]
	T := map[ssa.Value]bool{}  // tainted values
	TA := map[ssa.Value]bool{} // addresses whose content is tainted
	F := map[string]bool{}     // tainted root fields of Certificate
	why := map[string]string{} // first reason per field
	CB := map[*ssa.BasicBlock]bool{}
	tif := map[*ssa.BasicBlock]bool{} // blocks ending in a tainted If
	srcs := 0
	rw := &certRW{c: c, memo: map[*ssa.Function]*rwSum{}}

	taintField := func(name, reason string, pos token.Pos) bool {
		if name == "" || F[name] {
			return false
		}
		F[name] = true
		why[name] = reason + " (" + c.Pos(pos) + ")"
		return true
	}
	changed := true
	mark := func(v ssa.Value) {
		if !T[v] {
			T[v] = true
			changed = true
			if os.Getenv("ZLV_DEBUG_TAINT") != "" {
				fmt.Fprintf(os.Stderr, "mark %s = %s at %s\n", v.Name(), v.String(), c.Pos(v.Pos()))
			}
		}
	}
	markA := func(v ssa.Value) {
		if !TA[v] {
			TA[v] = true
			changed = true
		}
	}
	for iter := 0; changed && iter < 50; iter++ {
		changed = false
		for _, b := range f.Blocks {
			ctl := CB[b]
			for _, ins := range b.Instrs {
				switch x := ins.(type) {
				case *ssa.FieldAddr:
					if x.X == ssa.Value(in) {
						n := fieldVar(x).Name()
						if n == "SignatureValue" || n == "Raw" {
							if !TA[x] {
								srcs++
							}
							markA(x)
						}
					}
					if TA[x.X] {
						markA(x)
					}
					if isCertPtr(x.X.Type()) && F[fieldVar(x).Name()] {
						markA(x)
					}
				case *ssa.IndexAddr:
					if TA[x.X] || T[x.X] || T[x.Index] {
						markA(x)
					}
				case *ssa.UnOp:
					if x.Op == token.MUL {
						if TA[x.X] || T[x.X] {
							mark(x)
						}
					} else if T[x.X] {
						mark(x)
					}
				case *ssa.Store:
					if T[x.Val] || ctl {
						reason := "a value computed from the signature is stored"
						if !T[x.Val] {
							reason = "stored under a branch decided by the signature"
						}
						if root := certRootField(x.Addr); root != "" {
							if taintField(root, reason, x.Pos()) {
								changed = true
							}
						} else if T[x.Val] {
							markA(stripAddr(x.Addr))
							markA(x.Addr)
						}
					}
				case *ssa.MapUpdate:
					if T[x.Key] || T[x.Value] || ctl {
						if root := certRootField(x.Map); root != "" {
							if taintField(root, "map entry written from / under the signature", x.Pos()) {
								changed = true
							}
						}
					}
				case *ssa.If:
					if T[x.Cond] || ctl {
						tif[b] = true
						if os.Getenv("ZLV_DEBUG_TAINT") != "" && !ctl {
							fmt.Fprintf(os.Stderr, "tainted if %s at %s cond=%s\n", x.Cond.Name(), c.Pos(x.Cond.Pos()), x.Cond.String())
						}
						for _, s := range b.Succs {
							if len(s.Preds) != 1 {
								continue
							}
							for _, d := range f.Blocks {
								if s.Dominates(d) && !CB[d] {
									CB[d] = true
									changed = true
								}
							}
						}
					}
				case *ssa.Phi:
					for _, e := range x.Edges {
						if T[e] {
							mark(x)
						}
					}
					// selected by a tainted branch: among the edges that arrive from the region
					// of a tainted If, two different values
					for a := range tif {
						var first ssa.Value
						for i, e := range x.Edges {
							if !a.Dominates(b.Preds[i]) {
								continue
							}
							if first == nil {
								first = e
							} else if first != e {
								mark(x)
							}
						}
					}
				default:
					v, isVal := ins.(ssa.Value)
					tainted := false
					for _, op := range ins.Operands(nil) {
						if *op != nil && (T[*op] || TA[*op]) {
							tainted = true
						}
					}
					if call, ok := ins.(ssa.CallInstruction); ok {
						cc := call.Common()
						if callee := cc.StaticCallee(); callee != nil && strings.HasPrefix(fnPkgPath(callee), "github.com/zmap/zcrypto") {
							// a callee that is handed (part of) the certificate
							for _, a := range cc.Args {
								if !isCertPtr(a.Type()) {
									continue
								}
								s := rw.sum(callee, 0)
								readsTainted := false
								for n := range s.R {
									if F[n] {
										readsTainted = true
									}
								}
								if readsTainted {
									tainted = true
								}
								if tainted || ctl {
									for n := range s.W {
										if taintField(n, "written by "+fname(callee)+", called with signature-derived data", ins.Pos()) {
											changed = true
										}
									}
								}
							}
						}
						// out-parameters: a tainted call may write through its pointer arguments
						if tainted {
							for _, a := range cc.Args {
								if _, isPtr := a.Type().Underlying().(*types.Pointer); isPtr && !isCertPtr(a.Type()) {
									if root := certRootField(a); root != "" {
										if taintField(root, "passed by address to a call on signature-derived data", ins.Pos()) {
											changed = true
										}
									} else if al, ok := stripAddr(a).(*ssa.Alloc); ok && !al.Heap {
										markA(al)
									}
								}
							}
						}
					}
					if isVal && tainted {
						mark(v)
					}
				}
			}
		}
	}
	if srcs == 0 {
		r.Unk("sig-derived-fields", "x509.parseCertificate|sources", f.Pos(), "parseCertificate no longer reads in.SignatureValue / in.Raw: the signature's way into the Certificate is not understood")
		return nil
	}
	names := make([]string, 0, len(F))
	for n := range F {
		names = append(names, n)
	}
	sort.Strings(names)
	policy := map[string]bool{"Signature": true, "SelfSigned": true, "Raw": true}
	for n := range c09Forbidden {
		policy[n] = true
	}
	for _, n := range names {
		r.Check(policy[n], "sig-derived-fields", "x509.Certificate."+n, f.Pos(), "signature-derived ("+why[n]+"); covered by the access policy", fmt.Sprintf("zcrypto's parseCertificate derives Certificate.%s from the signature value (%s) but the access policy does not restrict its readers", n, why[n]))
	}
	for _, need := range []string{"Signature", "Raw", "SelfSigned"} {
		if !F[need] {
			r.Unk("sig-derived-fields", "x509.Certificate."+need+"|not-derived", f.Pos(), "the taint pass no longer finds Certificate."+need+" to be signature-derived: the model of parseCertificate is out of date")
		}
	}
	r.Sample(map[string]interface{}{"rule": "sig-derived-fields", "function": fname(f), "sources": []string{"in.SignatureValue", "in.Raw"}, "derived_fields": names, "why": why})
	return F
}

// certRootField: addr designates memory reachable from field X of a
// *x509.Certificate (through field/index/slice/load steps): returns X.
func certRootField(addr ssa.Value) string {
	for d := 0; d < 12; d++ {
		switch x := addr.(type) {
		case *ssa.FieldAddr:
			if isCertPtr(x.X.Type()) {
				return fieldVar(x).Name()
			}
			addr = x.X
		case *ssa.IndexAddr:
			addr = x.X
		case *ssa.UnOp:
			if x.Op != token.MUL {
				return ""
			}
			addr = x.X
		case *ssa.Slice:
			addr = x.X
		case *ssa.ChangeType:
			addr = x.X
		case *ssa.Convert:
			addr = x.X
		default:
			return ""
		}
	}
	return ""
}

func stripAddr(addr ssa.Value) ssa.Value {
	for d := 0; d < 12; d++ {
		switch x := addr.(type) {
		case *ssa.FieldAddr:
			addr = x.X
		case *ssa.IndexAddr:
			addr = x.X
		default:
			return addr
		}
	}
	return addr
}

// read / write summaries of zcrypto functions on Certificate root fields,
// transitive over static calls inside zcrypto.
type rwSum struct{ R, W map[string]bool }

type certRW struct {
	c    *Ctx
	memo map[*ssa.Function]*rwSum
}

func (rw *certRW) sum(f *ssa.Function, depth int) *rwSum {
	if s, ok := rw.memo[f]; ok {
		return s
	}
	s := &rwSum{R: map[string]bool{}, W: map[string]bool{}}
	rw.memo[f] = s
	if depth > 8 || len(f.Blocks) == 0 {
		return s
	}
	var fns []*ssa.Function
	fns = append(fns, f)
	fns = append(fns, f.AnonFuncs...)
	for _, g := range fns {
		allInstrs(g, func(in ssa.Instruction) {
			switch x := in.(type) {
			case *ssa.FieldAddr:
				if !isCertPtr(x.X.Type()) {
					return
				}
				n := fieldVar(x).Name()
				for _, ref := range *x.Referrers() {
					if st, ok := ref.(*ssa.Store); ok && st.Addr == ssa.Value(x) {
						s.W[n] = true
					} else if _, ok := ref.(*ssa.DebugRef); !ok {
						s.R[n] = true // loaded, or its address handed on
					}
				}
			case *ssa.Store:
				if root := certRootField(x.Addr); root != "" {
					s.W[root] = true
				}
			case *ssa.MapUpdate:
				if root := certRootField(x.Map); root != "" {
					s.W[root] = true
				}
			case ssa.CallInstruction:
				callee := x.Common().StaticCallee()
				if callee == nil || !strings.HasPrefix(fnPkgPath(callee), "github.com/zmap/zcrypto") {
					return
				}
				passes := false
				for _, a := range x.Common().Args {
					if isCertPtr(a.Type()) {
						passes = true
					}
				}
				if passes {
					cs := rw.sum(callee, depth+1)
					for n := range cs.R {
						s.R[n] = true
					}
					for n := range cs.W {
						s.W[n] = true
					}
				}
			}
		})
	}
	return s
}

// c09CalleeReads: a zcrypto function that lint code hands the certificate to
// must not read a signature-derived member (re-derived set F).
func c09CalleeReads(c *Ctx, r *Report, F map[string]bool) {
	if F == nil {
		return
	}
	rw := &certRW{c: c, memo: map[*ssa.Function]*rwSum{}}
	n := 0
	seen := map[string]bool{}
	for _, f := range modFunctions(c) {
		if !scopePkg(fnPkgPath(f)) {
			continue
		}
		allInstrs(f, func(in ssa.Instruction) {
			call, ok := in.(ssa.CallInstruction)
			if !ok {
				return
			}
			callee := call.Common().StaticCallee()
			if callee == nil || !strings.HasPrefix(fnPkgPath(callee), "github.com/zmap/zcrypto") {
				return
			}
			passes := false
			for _, a := range call.Common().Args {
				if isCertPtr(a.Type()) {
					passes = true
				}
			}
			if !passes {
				return
			}
			n++
			s := rw.sum(callee, 0)
			var hit []string
			for m := range s.R {
				if F[m] {
					hit = append(hit, m)
				}
			}
			sort.Strings(hit)
			id := fname(f) + "|" + fname(callee)
			if seen[id] {
				return
			}
			seen[id] = true
			r.Check(len(hit) == 0, "callee-reads", id, in.Pos(), "zcrypto callee reads no signature-derived member", fmt.Sprintf("%s hands the certificate to %s, which reads the signature-derived member(s) %s", fname(f), fname(callee), strings.Join(hit, ", ")))
		})
	}
	r.Floor("calls handing the certificate to zcrypto", 5, n)
}
