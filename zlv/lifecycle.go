package main

// lifecycle.go — the framework life-cycle decision table (shared by C03, C04,
// C01, C11): decision tables of (*CertificateLint).execute,
// (*RevocationListLint).Execute and (*OcspResponseLint).Execute extracted by
// E4 and compared, on a finite abstract domain, with the specification
//   scope gate → constructor → MaybeConfigure → CheckApplies → window → Execute.

import (
	"fmt"
	"go/constant"
	"go/token"
	"go/types"
	"sort"
	"strings"

	"golang.org/x/tools/go/ssa"
)

type lcKind struct {
	Name   string // cert | crl | ocsp
	Recv   string // type name in package lint
	Method string
	Target string // field of the linted object the window is measured on
	Gated  bool
}

var lcKinds = []lcKind{
	{"cert", "CertificateLint", "execute", "NotBefore", true},
	{"crl", "RevocationListLint", "Execute", "ThisUpdate", false},
	{"ocsp", "OcspResponseLint", "Execute", "NextUpdate", false},
}

// scope gates required by the property: source constant name → predicate
var lcGates = map[string]struct{ Pred, Arg string }{
	"CABFBaselineRequirements":      {"util.IsServerAuthCert", ""},
	"CABFSMIMEBaselineRequirements": {"util.IsEmailProtectionCert", ""},
	"CABFCSBaselineRequirements":    {"util.IsCodeSigning", ".PolicyIdentifiers"},
}

type lcCase struct {
	Src      string // value of l.Source
	SrcName  string // constant name or "<other>"
	Scope    map[string]bool
	CfgErr   bool
	Applies  bool
	E, I, Tt int64 // instants; 0 is the zero time
}

func (cs lcCase) effective() bool {
	return (cs.E == 0 || cs.Tt >= cs.E) && (cs.I == 0 || cs.Tt < cs.I)
}

type lcResult struct {
	Class  string // aggregated obligation key
	OK     bool
	Undec  bool
	Detail string
	Sample map[string]interface{}
}

// declared LintSource constants: name → value
func lintSources(c *Ctx) map[string]string {
	out := map[string]string{}
	srcT := c.Named("lint", "LintSource")
	scope := c.Pkg("lint").Types.Scope()
	for _, n := range scope.Names() {
		k, ok := scope.Lookup(n).(*types.Const)
		if !ok || !types.Identical(k.Type(), srcT) || k.Val().Kind() != constant.String {
			continue
		}
		out[n] = constant.StringVal(k.Val())
	}
	if len(out) < 10 {
		fault("unresolved anchor: only %d LintSource constants found", len(out))
	}
	return out
}

func lcInline(f *ssa.Function) bool {
	if !isModFunc(f) || len(f.Blocks) == 0 {
		return false
	}
	pkg := ""
	if f.Pkg != nil {
		pkg = relPkg(f.Pkg.Pkg.Path())
	} else if f.Parent() != nil && f.Parent().Pkg != nil {
		pkg = relPkg(f.Parent().Pkg.Pkg.Path())
	}
	n := f.Name()
	switch pkg {
	case "lint":
		// the configuration step is an oracle of the table, not part of it
		return n != "MaybeConfigure" && n != "Configure" && n != "deserializeConfigInto"
	case "util":
		// only the instant-comparison helpers are part of the window logic
		return n == "OnOrAfter" || n == "BeforeOrOn"
	}
	return false
}

// lifecycleTable enumerates the decision table of one kind's life-cycle function.
func lifecycleTable(c *Ctx, k lcKind) (*ssa.Function, []*Outcome, string) {
	fn := c.Method("lint", k.Recv, k.Method)
	outs, abort := Enumerate(fn, SymOpts{MaxDepth: 4, Inline: lcInline, MaxPaths: 5000})
	return fn, outs, abort
}

// lcCheckAll evaluates the table on every abstract case and returns one
// aggregated result per (source, gate state, configuration outcome,
// applicability, window position).
func lcCheckAll(c *Ctx, k lcKind) (results []lcResult, fn *ssa.Function, npaths int, ncases int, tableSamples []interface{}) {
	fn, outs, abort := lifecycleTable(c, k)
	npaths = len(outs)
	if abort != "" {
		return []lcResult{{Class: k.Name + "|table", Undec: true, Detail: "decision table not extracted: " + abort}}, fn, npaths, 0, nil
	}
	for _, o := range outs {
		if o.Kind == "abort" {
			return []lcResult{{Class: k.Name + "|table", Undec: true, Detail: "path not understood: " + o.Why}}, fn, npaths, 0, nil
		}
	}
	for i, o := range outs {
		if i < 3 {
			tableSamples = append(tableSamples, o.Summary())
		}
	}
	recv, obj := fn.Params[0].Name(), fn.Params[1].Name()
	cfg := fn.Params[2].Name()
	srcs := lintSources(c)
	var srcNames []string
	for n := range srcs {
		srcNames = append(srcNames, n)
	}
	sort.Strings(srcNames)
	srcNames = append(srcNames, "<other>")
	preds := []string{"util.IsServerAuthCert", "util.IsEmailProtectionCert", "util.IsCodeSigning"}
	agg := map[string]*lcResult{}
	var order []string
	inst := []int64{0, 1, 2, 3}
	for _, sn := range srcNames {
		sv := srcs[sn]
		if sn == "<other>" {
			sv = "some-future-source"
		}
		nscope := 8
		if !k.Gated {
			nscope = 1
		}
		for sc := 0; sc < nscope; sc++ {
			scope := map[string]bool{}
			for i, p := range preds {
				scope[p] = sc&(1<<uint(i)) != 0
			}
			for _, cfgErr := range []bool{false, true} {
				for _, applies := range []bool{true, false} {
					for _, e := range inst {
						for _, iv := range inst {
							for _, tt := range []int64{-1, 0, 1, 2, 3} {
								cs := lcCase{Src: sv, SrcName: sn, Scope: scope, CfgErr: cfgErr, Applies: applies, E: e, I: iv, Tt: tt}
								ncases++
								gate := "ungated"
								if g, ok := lcGates[sn]; ok && k.Gated {
									gate = fmt.Sprintf("%s=%v", g.Pred, scope[g.Pred])
								}
								class := fmt.Sprintf("%s|src=%s|%s|cfgerr=%v|applies=%v|inwindow=%v", k.Name, sn, gate, cfgErr, applies, cs.effective())
								res, ok := agg[class]
								if !ok {
									res = &lcResult{Class: class, OK: true}
									agg[class] = res
									order = append(order, class)
								}
								if !res.OK || res.Undec {
									continue
								}
								bad, undec, sample := lcEvalCase(k, outs, cs, recv, obj, cfg)
								if undec != "" {
									res.Undec, res.OK, res.Detail = true, false, undec
								} else if bad != "" {
									res.OK, res.Detail = false, bad+fmt.Sprintf(" [case: source=%s scope=%v cfgerr=%v applies=%v effective=%d ineffective=%d target=%d (0 = zero time)]", sn, scope, cfgErr, applies, e, iv, tt)
								}
								if res.Sample == nil {
									res.Sample = sample
								}
							}
						}
					}
				}
			}
		}
	}
	for _, cl := range order {
		results = append(results, *agg[cl])
	}
	return results, fn, npaths, ncases, tableSamples
}

type errVal struct{} // a non-nil error

// lcEvalCase selects the path of the table taken under the case and compares
// outcome and call trace with the specification.
func lcEvalCase(k lcKind, outs []*Outcome, cs lcCase, recv, obj, cfg string) (bad, undec string, sample map[string]interface{}) {
	ctorStr := "dyn:" + recv + ".Lint()"
	var oracleErr string
	timeVal := func(t *T) (int64, bool) {
		switch t.String() {
		case recv + ".LintMetadata.EffectiveDate":
			return cs.E, true
		case recv + ".LintMetadata.IneffectiveDate":
			return cs.I, true
		case obj + "." + k.Target:
			return cs.Tt, true
		}
		return 0, false
	}
	oracle := func(t *T) (interface{}, bool) {
		s := t.String()
		if s == recv+".LintMetadata.Source" {
			return cs.Src, true
		}
		if t.Op == "call" {
			switch t.Name {
			case "(time.Time).IsZero", "(time.Time).Before", "(time.Time).After", "(time.Time).Equal", "(time.Time).Compare":
				var vs []int64
				for _, a := range t.Args {
					v, ok := timeVal(a)
					if !ok {
						oracleErr = fmt.Sprintf("window compares %s, which is not the lint's effective/ineffective date or the object's %s", a, k.Target)
						return nil, false
					}
					vs = append(vs, v)
				}
				switch t.Name {
				case "(time.Time).IsZero":
					return vs[0] == 0, true
				case "(time.Time).Before":
					return vs[0] < vs[1], true
				case "(time.Time).After":
					return vs[0] > vs[1], true
				case "(time.Time).Compare":
					return cmp3(vs[0], vs[1]), true
				default:
					return vs[0] == vs[1], true
				}
			case "util.IsServerAuthCert", "util.IsEmailProtectionCert", "util.IsCodeSigning":
				want := obj + lcGateArg(t.Name)
				if len(t.Args) != 1 || t.Args[0].String() != want {
					oracleErr = fmt.Sprintf("scope predicate %s applied to %v instead of %s", t.Name, t.Args, want)
					return nil, false
				}
				return cs.Scope[t.Name], true
			case "(lint.Configuration).MaybeConfigure":
				if cs.CfgErr {
					return errVal{}, true
				}
				return nil, true
			case "invoke:CheckApplies":
				return cs.Applies, true
			}
		}
		return nil, false
	}
	sel, err := Select(outs, oracle)
	if err != nil {
		if oracleErr != "" {
			return oracleErr, "", nil
		}
		return "", "life-cycle table contains a condition the analysis does not model: " + err.Error(), nil
	}
	if len(sel) != 1 {
		return "", fmt.Sprintf("%d paths of the table match one abstract case (expected exactly 1)", len(sel)), nil
	}
	o := sel[0]
	sample = o.Summary()
	// expected
	gated := false
	if g, ok := lcGates[cs.SrcName]; ok && k.Gated {
		gated = !cs.Scope[g.Pred]
	}
	type step struct{ name string }
	var want []string
	wantStatus := int64(-1) // -1: pass-through of Execute
	switch {
	case gated:
		wantStatus = 1
	case cs.CfgErr:
		want = []string{"ctor", "configure"}
		wantStatus = 7
	case !cs.Applies:
		want = []string{"ctor", "configure", "applies"}
		wantStatus = 1
	case !cs.effective():
		want = []string{"ctor", "configure", "applies"}
		wantStatus = 2
	default:
		want = []string{"ctor", "configure", "applies", "execute"}
	}
	var got []string
	var cfgCall, execCall *T
	for _, ev := range o.Trace {
		switch ev.Kind {
		case "store", "mapupdate":
			return fmt.Sprintf("life-cycle writes to %s, which is not a fresh local (%s)", ev.Name, ev), "", sample
		}
		switch {
		case ev.Name == "dyn:"+recv+".Lint":
			if len(ev.Args) != 0 {
				return "constructor called with arguments", "", sample
			}
			got = append(got, "ctor")
		case ev.Name == "(lint.Configuration).MaybeConfigure":
			if len(ev.Args) != 3 || ev.Args[0].String() != cfg || ev.Args[1].String() != ctorStr || ev.Args[2].String() != recv+".LintMetadata.Name" {
				return fmt.Sprintf("MaybeConfigure must be applied to (config, the new instance, the lint's name); found %v", ev.Args), "", sample
			}
			cfgCall = ev.Result
			got = append(got, "configure")
		case ev.Name == "invoke:CheckApplies":
			if len(ev.Args) != 2 || ev.Args[0].String() != ctorStr || ev.Args[1].String() != obj {
				return fmt.Sprintf("CheckApplies must be called on the configured instance with the linted object; found %v", ev.Args), "", sample
			}
			got = append(got, "applies")
		case ev.Name == "invoke:Execute":
			if len(ev.Args) != 2 || ev.Args[0].String() != ctorStr || ev.Args[1].String() != obj {
				return fmt.Sprintf("Execute must be called on the configured instance with the linted object; found %v", ev.Args), "", sample
			}
			execCall = ev.Result
			got = append(got, "execute")
		case ev.Name == "invoke:Error":
			// err.Error() on the configuration error
		case strings.HasPrefix(ev.Name, "util.Is"):
			// scope predicates (pure)
		case ev.Name == "invoke:Configure" || strings.HasPrefix(ev.Name, "dyn:"):
			return "unexpected dynamic call in the life-cycle: " + ev.String(), "", sample
		default:
			return "unexpected call in the life-cycle: " + ev.String(), "", sample
		}
	}
	if strings.Join(got, ",") != strings.Join(want, ",") {
		return fmt.Sprintf("life-cycle calls are [%s], the specification requires [%s]", strings.Join(got, " → "), strings.Join(want, " → ")), "", sample
	}
	if o.Kind != "return" || len(o.Results) != 1 {
		return "life-cycle does not return one result (" + o.Kind + " " + o.Why + ")", "", sample
	}
	res := o.Results[0]
	if wantStatus < 0 {
		if execCall == nil || res != execCall {
			return "the value returned is not the very result of the rule body's Execute: " + res.String(), "", sample
		}
		return "", "", sample
	}
	if res.Op != "obj" {
		return fmt.Sprintf("expected a literal %s result, the life-cycle returns %s", statusNames[wantStatus], res), "", sample
	}
	st := o.Field(res, "Status")
	if st == nil || !st.IsConst() || st.K == nil {
		return fmt.Sprintf("expected status %s, found %v", statusNames[wantStatus], st), "", sample
	}
	if n, _ := constant.Int64Val(constant.ToInt(st.K)); n != wantStatus {
		nm := fmt.Sprint(n)
		if n >= 0 && int(n) < len(statusNames) {
			nm = statusNames[n]
		}
		return fmt.Sprintf("expected status %s, the life-cycle returns %s", statusNames[wantStatus], nm), "", sample
	}
	if wantStatus == 7 {
		d := o.Field(res, "Details")
		if d == nil || cfgCall == nil || d.Op != "call" || d.Name != "invoke:Error" || len(d.Args) != 1 || d.Args[0] != cfgCall {
			return fmt.Sprintf("a configuration error must be reported with the error's own text; Details is %v", d), "", sample
		}
	}
	return "", "", sample
}

func lcGateArg(pred string) string {
	for _, g := range lcGates {
		if g.Pred == pred {
			return g.Arg
		}
	}
	return ""
}

// lcReport runs the life-cycle check for every kind and files the aggregated
// obligations under the given rule name. filter selects the classes of
// interest (nil: all).
func lcReport(c *Ctx, r *Report, rule string, filter func(class string) bool) {
	total := 0
	for _, k := range lcKinds {
		results, fn, npaths, ncases, samples := lcCheckAll(c, k)
		total += ncases
		r.Extra["lifecycle_paths_"+k.Name] = npaths
		r.Extra["lifecycle_cases_"+k.Name] = ncases
		for _, s := range samples {
			if len(r.Samples) < 10 {
				r.Sample(map[string]interface{}{"table_of": fname(fn), "path": s})
			}
		}
		for _, res := range results {
			if filter != nil && !filter(res.Class) {
				continue
			}
			switch {
			case res.Undec:
				r.Unk(rule, res.Class, fn.Pos(), res.Detail)
			case !res.OK:
				r.Bad(rule, res.Class, fn.Pos(), res.Detail)
			default:
				r.OK(rule, res.Class, fn.Pos(), true, "")
			}
		}
	}
	r.Extra["lifecycle_abstract_cases"] = total
}

var _ = token.NoPos
