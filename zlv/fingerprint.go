package main

// fingerprint.go — engine E8: a position- and name-free fingerprint of a
// function's behaviour: resolved callees with their constant arguments,
// comparisons against constants, fields of the linted object that are read,
// statuses produced, loops. Same-package helpers are folded in.

import (
	"fmt"
	"go/constant"
	"go/token"
	"go/types"
	"sort"
	"strings"

	"golang.org/x/tools/go/ssa"
)

type Fingerprint map[string]int

func (fp Fingerprint) add(s string) { fp[s]++ }

func (fp Fingerprint) Lines() []string {
	var out []string
	for k, n := range fp {
		out = append(out, fmt.Sprintf("%s ×%d", k, n))
	}
	sort.Strings(out)
	return out
}

// fingerprintOf computes the fingerprint of fn, inlining helpers declared in
// the same package (depth ≤ 3). Helpers of other module packages (util, the
// shared time helpers) count as one callee.
func fingerprintOf(fn *ssa.Function) Fingerprint {
	fp := Fingerprint{}
	fpInto(fp, fn, fn.Pkg, 0, map[*ssa.Function]bool{})
	return fp
}

func constStr(k *ssa.Const) string {
	if k.Value == nil {
		return "nil"
	}
	if k.Value.Kind() == constant.String {
		return fmt.Sprintf("%q", constant.StringVal(k.Value))
	}
	return k.Value.ExactString()
}

// fpBind: while a helper is folded in, its function-typed parameters stand for
// the function values the caller passed (anyName(c, pred) with pred a function of
// the package or a literal): a call of the parameter is a call of that function.
var fpBind = map[*ssa.Parameter]ssa.Value{}

func fpInto(fp Fingerprint, fn *ssa.Function, home *ssa.Package, depth int, seen map[*ssa.Function]bool) {
	if fn == nil || seen[fn] || len(fn.Blocks) == 0 {
		return
	}
	seen[fn] = true
	// loops
	for _, b := range fn.Blocks {
		for _, s := range b.Succs {
			if s.Dominates(b) {
				fp.add("loop")
			}
		}
	}
	objParam := ssa.Value(nil)
	if len(fn.Params) > 1 && fn.Signature.Recv() != nil {
		objParam = fn.Params[1]
	} else if len(fn.Params) > 0 {
		objParam = fn.Params[0]
	}
	allInstrs(fn, func(in ssa.Instruction) {
		switch x := in.(type) {
		case *ssa.Call:
			cc := &x.Call
			if b, ok := cc.Value.(*ssa.Builtin); ok {
				if b.Name() == "len" || b.Name() == "append" || b.Name() == "cap" {
					return
				}
				fp.add("builtin " + b.Name())
				return
			}
			callee := cc.StaticCallee()
			if callee == nil && !cc.IsInvoke() {
				// a call through a function-typed parameter bound by the caller
				if p, ok := cc.Value.(*ssa.Parameter); ok {
					switch bv := fpBind[p].(type) {
					case *ssa.Function:
						callee = bv
					case *ssa.MakeClosure:
						callee, _ = bv.Fn.(*ssa.Function)
					}
					if callee != nil && (callee.Pkg == home || callee.Parent() != nil) && depth < 4 {
						delete(seen, callee) // may be folded once per use
						fpInto(fp, callee, home, depth+1, seen)
						return
					}
				}
			}
			if callee != nil && callee.Pkg == home && depth < 3 && callee.Signature.Recv() == nil || (callee != nil && callee.Pkg == home && depth < 3 && isModFunc(callee) && callee != fn) {
				var bound []*ssa.Parameter
				for i, a := range cc.Args {
					if i < len(callee.Params) {
						switch a.(type) {
						case *ssa.Function, *ssa.MakeClosure:
							if _, dup := fpBind[callee.Params[i]]; !dup {
								fpBind[callee.Params[i]] = a
								bound = append(bound, callee.Params[i])
							}
						}
					}
				}
				if len(bound) > 0 {
					delete(seen, callee) // the helper's behaviour depends on what it is given
				}
				fpInto(fp, callee, home, depth+1, seen)
				for _, p := range bound {
					delete(fpBind, p)
				}
				// constants passed to the helper still matter
				for _, a := range cc.Args {
					if k, ok := a.(*ssa.Const); ok && k.Value != nil {
						fp.add("helper-arg " + constStr(k))
					}
				}
				return
			}
			// the search helpers of package slices are the very loops they replace:
			// Contains/Index(xs, K) ≡ one loop comparing each element with K;
			// ContainsFunc/IndexFunc(xs, f) ≡ one loop applying f
			if callee != nil && fnPkgPath(callee) == "slices" {
				base := callee.Name()
				if o := callee.Origin(); o != nil {
					base = o.Name()
				}
				switch base {
				case "Contains", "Index":
					if len(cc.Args) == 2 {
						fp.add("loop")
						if base == "Contains" && returnedDirectly(x) {
							fp.add("return true")
							fp.add("return false")
						}
						if k, ok := cc.Args[1].(*ssa.Const); ok && k.Value != nil {
							fp.add("cmp == " + constStr(k))
						}
						return
					}
				case "ContainsFunc", "IndexFunc":
					if len(cc.Args) == 2 {
						fp.add("loop")
						if base == "ContainsFunc" && returnedDirectly(x) {
							fp.add("return true")
							fp.add("return false")
						}
						switch p := cc.Args[1].(type) {
						case *ssa.Function:
							if p.Pkg == home || p.Parent() != nil {
								fpInto(fp, p, home, depth+1, seen)
							} else {
								fp.add("call " + funcCallName(p) + "()")
							}
						case *ssa.MakeClosure:
							fpInto(fp, p.Fn.(*ssa.Function), home, depth+1, seen)
						}
						return
					}
				}
			}
			name := staticCalleeName(cc)
			if name == "" {
				name = "dynamic"
			}
			var ks []string
			for _, a := range cc.Args {
				if k, ok := a.(*ssa.Const); ok && k.Value != nil {
					ks = append(ks, constStr(k))
				} else if g := globalName(a); g != "" {
					ks = append(ks, g)
				}
			}
			// text built only for a result's Details does not take part in the verdict
			if (strings.HasPrefix(name, "fmt.Sprint") || name == "strings.Join" || strings.HasPrefix(name, "strconv.")) && onlyFeedsDetails(x, 0) {
				return
			}
			fp.add("call " + name + "(" + strings.Join(ks, ",") + ")")
		case *ssa.BinOp:
			switch x.Op {
			case token.MUL, token.QUO, token.REM, token.SHL, token.SHR, token.AND, token.OR, token.XOR, token.ADD, token.SUB:
				// arithmetic with a constant operand (thresholds such as 398 * dayLength)
				for _, o := range []ssa.Value{x.X, x.Y} {
					if k, ok := o.(*ssa.Const); ok && k.Value != nil && k.Value.Kind() == constant.Int {
						if _, isPhi := x.X.(*ssa.Phi); isPhi && (x.Op == token.ADD) {
							continue // loop counters
						}
						fp.add("arith " + x.Op.String() + " " + constStr(k))
					}
				}
			case token.EQL, token.NEQ, token.LSS, token.LEQ, token.GTR, token.GEQ:
				kx, okx := x.X.(*ssa.Const)
				ky, oky := x.Y.(*ssa.Const)
				op := x.Op
				var k *ssa.Const
				if oky {
					k = ky
				} else if okx {
					k = kx
					// mirror
					switch op {
					case token.LSS:
						op = token.GTR
					case token.GTR:
						op = token.LSS
					case token.LEQ:
						op = token.GEQ
					case token.GEQ:
						op = token.LEQ
					}
				}
				if k != nil {
					if k.IsNil() {
						return // nil tests are plumbing
					}
					// normalise <= k to < k+1 etc. for integers
					if k.Value != nil && k.Value.Kind() == constant.Int {
						n, _ := constant.Int64Val(k.Value)
						switch op {
						case token.LEQ:
							fp.add(fmt.Sprintf("cmp < %d", n+1))
							return
						case token.GTR:
							fp.add(fmt.Sprintf("cmp >= %d", n+1))
							return
						case token.NEQ:
							fp.add(fmt.Sprintf("cmp == %d", n)) // polarity is control flow
							return
						}
					}
					if op == token.NEQ {
						op = token.EQL
					}
					fp.add("cmp " + op.String() + " " + constStr(k))
				}
			}
		case *ssa.FieldAddr:
			// fields of the linted object
			if objParam != nil && rootIs(x.X, objParam) {
				p := strings.TrimPrefix(apath(x), "&")
				p = strings.TrimPrefix(p, objParam.Name()+".")
				fp.add("field " + p)
			}
		case *ssa.Store:
			if fa, ok := x.Addr.(*ssa.FieldAddr); ok && fieldVar(fa).Name() == "Status" {
				if k, ok := x.Val.(*ssa.Const); ok && k.Value != nil {
					n, _ := constant.Int64Val(constant.ToInt(k.Value))
					if n >= 0 && int(n) < len(statusNames) {
						// which statuses a function can produce, not how many return statements spell them
						fp["status "+statusNames[n]] = 1
					}
				}
			}
		case *ssa.Return:
			for _, rv := range x.Results {
				if k, ok := rv.(*ssa.Const); ok && k.Value != nil && k.Value.Kind() == constant.Bool {
					fp.add("return " + k.Value.ExactString())
				}
			}
		case *ssa.Lookup:
			if g := globalName(x.X); g != "" {
				fp.add("lookup " + g)
			}
		case *ssa.TypeAssert:
			fp.add("assert " + shortType(x.AssertedType))
		}
	})
}

func globalName(v ssa.Value) string {
	if ld, ok := v.(*ssa.UnOp); ok && ld.Op == token.MUL {
		if g, ok := ld.X.(*ssa.Global); ok {
			return relPkg(g.Pkg.Pkg.Path()) + "." + g.Name()
		}
	}
	if g, ok := v.(*ssa.Global); ok {
		return "&" + relPkg(g.Pkg.Pkg.Path()) + "." + g.Name()
	}
	return ""
}

func rootIs(v ssa.Value, root ssa.Value) bool {
	for i := 0; i < 10; i++ {
		if v == root {
			return true
		}
		switch x := v.(type) {
		case *ssa.FieldAddr:
			v = x.X
		case *ssa.UnOp:
			v = x.X
		case *ssa.IndexAddr:
			v = x.X
		default:
			return false
		}
	}
	return false
}

var _ = types.Typ

// returnedDirectly: the call's value is what the enclosing function returns
// (return slices.Contains(…)), so it stands for a loop ending in return true /
// return false.
func returnedDirectly(call *ssa.Call) bool {
	if call.Referrers() == nil {
		return false
	}
	for _, ref := range *call.Referrers() {
		if _, ok := ref.(*ssa.Return); ok {
			return true
		}
	}
	return false
}

// onlyFeedsDetails: every use of v (through string concatenation and further
// formatting calls) ends in a store to a field named Details.
func onlyFeedsDetails(v ssa.Value, depth int) bool {
	if depth > 4 || v.Referrers() == nil || len(*v.Referrers()) == 0 {
		return false
	}
	for _, ref := range *v.Referrers() {
		switch x := ref.(type) {
		case *ssa.DebugRef:
		case *ssa.Store:
			fa, ok := x.Addr.(*ssa.FieldAddr)
			if !ok || x.Val != v || fieldVar(fa).Name() != "Details" {
				return false
			}
		case *ssa.BinOp:
			if x.Op != token.ADD || !onlyFeedsDetails(x, depth+1) {
				return false
			}
		case *ssa.MakeInterface:
			if !onlyFeedsDetails(x, depth+1) {
				return false
			}
		default:
			return false
		}
	}
	return true
}
