package main

import (
	"fmt"
	"go/ast"
	"go/constant"
	"go/token"
	"go/types"
	"regexp"
	"strings"
	"time"

	"golang.org/x/tools/go/ssa"
)

func init() { register("C18", runC18) }

const tldLayout = "2006-01-02"

func runC18(c *Ctx, tier string) {
	r := NewReport("C18", "other", tier, c)
	r.Explanation = "(1) table: every entry of the generated util.tldMap literal is read from the syntax tree: key equals the entry's GTLD, is lower-case and non-empty; DelegationDate parses under the layout constant (which must be 2006-01-02); RemovalDate is empty or parses and is not before the delegation date — decided by arithmetic in the checker for all ~1570 entries, and the map is never written outside its declaration; (2) valid-table: the decision table of GTLDPeriod.Valid (atoms: time.Parse of the two date fields with the layout constant, Before/After on `when`, RemovalDate == \"\") evaluated on all orderings of (when, delegation, removal|none) equals: error ⇔ when < delegation ∨ (removal set ∧ when > removal); (3) lookup: HasValidTLD looks up the last element of strings.Split(strings.ToLower(domain), \".\") in tldMap, false when absent or Valid(when) != nil; IsInTLDMap lower-cases and consults only presence; (4) lint: the decision table of e_dnsname_not_valid_tld (loop unrolled twice, only the index carried) reports Error iff the non-empty, non-IP common name or some DNS name fails HasValidTLD(name, NotBefore), Pass otherwise, and applies to subscriber certificates with a name; (5) generator: validateGTLDs parses both dates with the same layout and its error reaches renderGTLDMap's caller before the template is rendered. Trusted: strings.Split/ToLower, time.Parse."
	r.Rule("tld-table; valid-table; lookup; tld-lint; generator")
	r.Trusted = []string{"time.Parse with layout 2006-01-02", "strings.ToLower/Split", "time.Time.Before/After", "go/ssa"}

	c18Table(c, r)
	c18Valid(c, r)
	c18Lookup(c, r)
	c18Lint(c, r)
	c18Generator(c, r)
	// premise of every per-lint rule of this property: the verdict is computed on the
	// object as parsed and on immutable tables — no lint method (any lint may run
	// earlier in the same pass) writes memory reachable from the linted object or a
	// package-level variable (C05 rules 1-2)
	{
		csP := BuildCensus(c)
		c05Effects(c, r, csP, NewEffects(c))
	}
	cnIsIPTable(c, r)
	r.Finish()
}

func c18Table(c *Ctx, r *Report) {
	util := c.Pkg("util")
	v, _ := util.Types.Scope().Lookup("tldMap").(*types.Var)
	if v == nil {
		fault("unresolved anchor: util.tldMap")
	}
	lay, _ := util.Types.Scope().Lookup("GTLDPeriodDateFormat").(*types.Const)
	layout := ""
	if lay != nil && lay.Val().Kind() == constant.String {
		layout = constant.StringVal(lay.Val())
	}
	r.Check(layout == tldLayout, "tld-table", "layout", v.Pos(), layout, fmt.Sprintf("GTLDPeriodDateFormat is %q; the table's dates are written as %s", layout, tldLayout))
	init := varInit(util, v)
	lit, ok := init.(*ast.CompositeLit)
	if !ok {
		r.Unk("tld-table", "tldMap", v.Pos(), "initialiser is not a composite literal")
		return
	}
	r.Check(countAssignments(c, v) == 0 && !mapWritten(c, "util.tldMap"), "tld-table", "immutable", v.Pos(), "never written after its declaration", "util.tldMap is modified at run time")
	n, sampled := 0, 0
	seen := map[string]bool{}
	for _, el := range lit.Elts {
		kv, ok := el.(*ast.KeyValueExpr)
		if !ok {
			r.Unk("tld-table", "entry", el.Pos(), "entry without key")
			continue
		}
		key, ok := constString(util.TypesInfo, kv.Key)
		if !ok {
			r.Unk("tld-table", "entry", el.Pos(), "key is not a constant string")
			continue
		}
		n++
		val, ok := kv.Value.(*ast.CompositeLit)
		if !ok {
			r.Unk("tld-table", key, el.Pos(), "value is not a literal")
			continue
		}
		f := map[string]string{}
		okf := true
		for _, fe := range val.Elts {
			fkv, ok := fe.(*ast.KeyValueExpr)
			if !ok {
				okf = false
				continue
			}
			s, ok := constString(util.TypesInfo, fkv.Value)
			if !ok {
				okf = false
				continue
			}
			f[fkv.Key.(*ast.Ident).Name] = s
		}
		if !okf {
			r.Unk("tld-table", key, el.Pos(), "entry fields are not constant strings")
			continue
		}
		bad := ""
		switch {
		case key == "":
			bad = "empty key"
		case seen[key]:
			bad = "duplicate key"
		case key != strings.ToLower(key):
			bad = "key is not lower-case: lookups lower-case the label and would never find it"
		case f["GTLD"] != key:
			bad = fmt.Sprintf("entry is keyed %q but describes gTLD %q", key, f["GTLD"])
		}
		seen[key] = true
		var del, rem time.Time
		var err error
		if bad == "" {
			if del, err = time.Parse(tldLayout, f["DelegationDate"]); err != nil {
				bad = fmt.Sprintf("DelegationDate %q does not parse (Valid discards the error: the TLD would be valid since year 1)", f["DelegationDate"])
			}
		}
		if bad == "" && f["RemovalDate"] != "" {
			if rem, err = time.Parse(tldLayout, f["RemovalDate"]); err != nil {
				bad = fmt.Sprintf("RemovalDate %q does not parse (Valid discards the error: the TLD would be invalid for every date after year 1)", f["RemovalDate"])
			} else if rem.Before(del) {
				bad = fmt.Sprintf("RemovalDate %s is before DelegationDate %s: the TLD is never valid", f["RemovalDate"], f["DelegationDate"])
			}
		}
		if bad != "" {
			r.Bad("tld-table", key, el.Pos(), bad)
		} else {
			r.OK("tld-table", key, el.Pos(), f["RemovalDate"] != "", "")
			if sampled < 2 && f["RemovalDate"] != "" {
				sampled++
				r.Sample(map[string]interface{}{"tld": key, "delegation": f["DelegationDate"], "removal": f["RemovalDate"], "at": c.Pos(el.Pos())})
			}
		}
	}
	r.Floor("tld table entries", 1500, n)
	r.Extra["tld_entries"] = n
}

// mapWritten: some function stores into / deletes from the named global map.
func mapWritten(c *Ctx, name string) bool {
	found := false
	for _, f := range modFunctions(c) {
		if f.Name() == "init" && f.Synthetic != "" {
			continue
		}
		allInstrs(f, func(in ssa.Instruction) {
			switch x := in.(type) {
			case *ssa.MapUpdate:
				if apath(x.Map) == name {
					found = true
				}
			case *ssa.Call:
				if b, ok := x.Call.Value.(*ssa.Builtin); ok && (b.Name() == "delete" || b.Name() == "clear") && len(x.Call.Args) > 0 && apath(x.Call.Args[0]) == name {
					found = true
				}
			}
		})
	}
	return found
}

func c18Valid(c *Ctx, r *Report) {
	fn := c.Method("util", "GTLDPeriod", "Valid")
	outs, abort := Enumerate(fn, SymOpts{Inline: func(*ssa.Function) bool { return false }})
	if abort != "" {
		r.Unk("valid-table", "GTLDPeriod.Valid", fn.Pos(), abort)
		return
	}
	p, when := fn.Params[0].Name(), fn.Params[1].Name()
	for i, o := range outs {
		if i < 3 {
			r.Sample(map[string]interface{}{"table_of": "GTLDPeriod.Valid", "path": o.Summary()})
		}
	}
	n := 0
	for d := int64(1); d <= 3; d++ {
		for rm := int64(0); rm <= 3; rm++ { // 0: no removal date
			for w := int64(0); w <= 4; w++ {
				n++
				key := fmt.Sprintf("delegation=%d,removal=%d,when=%d", d, rm, w)
				badLayout := ""
				tv := func(t *T) (int64, bool) {
					if t.String() == when {
						return w, true
					}
					// extract:0(time.Parse(layout, p.X))
					if t.Op == "extract" && t.Name == "0" && len(t.Args) == 1 {
						if args, ok := t.Args[0].CallNamed("time.Parse"); ok && len(args) == 2 {
							if args[0].String() != fmt.Sprintf("%q", tldLayout) {
								badLayout = args[0].String()
							}
							switch args[1].String() {
							case p + ".DelegationDate":
								return d, true
							case p + ".RemovalDate":
								return rm, true
							}
						}
					}
					return 0, false
				}
				oracle := func(t *T) (interface{}, bool) {
					if t.String() == p+".RemovalDate" {
						if rm == 0 {
							return "", true
						}
						return "2020-01-01", true
					}
					if t.Op == "call" && (t.Name == "(time.Time).Before" || t.Name == "(time.Time).After" || t.Name == "(time.Time).Equal" || t.Name == "(time.Time).Compare") && len(t.Args) == 2 {
						a, ok1 := tv(t.Args[0])
						b, ok2 := tv(t.Args[1])
						if ok1 && ok2 {
							switch t.Name {
							case "(time.Time).Before":
								return a < b, true
							case "(time.Time).After":
								return a > b, true
							case "(time.Time).Equal":
								return a == b, true
							}
							return cmp3(int64(a), int64(b)), true
						}
					}
					return nil, false
				}
				sel, err := Select(outs, oracle)
				if err != nil || len(sel) != 1 || sel[0].Kind != "return" || len(sel[0].Results) != 1 {
					r.Unk("valid-table", key, fn.Pos(), fmt.Sprintf("table not evaluable: %v (%d paths)", err, len(sel)))
					continue
				}
				gotErr := !sel[0].Results[0].IsNil()
				want := w < d || (rm != 0 && w > rm)
				if badLayout != "" {
					r.Bad("valid-table", key, fn.Pos(), "dates are parsed with layout "+badLayout+" instead of GTLDPeriodDateFormat")
					continue
				}
				r.Check(gotErr == want, "valid-table", key, fn.Pos(), fmt.Sprint(want),
					fmt.Sprintf("GTLDPeriod.Valid with delegation=%d removal=%d (0 = none) when=%d reports invalid=%v; the table rule requires %v", d, rm, w, gotErr, want))
			}
		}
	}
	r.Floor("valid-table cases", 60, n)
}

func c18Lookup(c *Ctx, r *Report) {
	noInline := func(*ssa.Function) bool { return false }
	// HasValidTLD
	fn := c.Func("util", "HasValidTLD")
	outs, abort := Enumerate(fn, SymOpts{Inline: noInline})
	dom, when := fn.Params[0].Name(), fn.Params[1].Name()
	// equivalent ways of taking the lower-cased right-most label
	split := fmt.Sprintf(`strings.Split(strings.ToLower(%s), ".")`, dom)
	splitRaw := fmt.Sprintf(`strings.Split(%s, ".")`, dom)
	lower := fmt.Sprintf("strings.ToLower(%s)", dom)
	keyForms := []string{
		fmt.Sprintf("%s[(builtin:len(%s) - 1)]", split, split),
		fmt.Sprintf("strings.ToLower(%s[(builtin:len(%s) - 1)])", splitRaw, splitRaw),
		fmt.Sprintf(`slice(%s, (strings.LastIndex(%s, ".") + 1), _, _)`, lower, lower),
		fmt.Sprintf(`strings.ToLower(slice(%s, (strings.LastIndex(%s, ".") + 1), _, _))`, dom, dom),
	}
	wantKey := keyForms[0]
	for _, kf := range keyForms {
		for _, o := range outs {
			if strings.Contains(o.CondString(), "lookup:commaok(util.tldMap, "+kf+")") {
				wantKey = kf
			}
		}
	}
	// the same, recognised structurally: whatever key the table is consulted with must be
	// the part after the last "." of the lower-cased domain (LastIndex / LastIndexByte,
	// lower-casing before or after cutting)
	qd := regexp.QuoteMeta(dom)
	ql := regexp.QuoteMeta(lower)
	dot := `(?:"\."|46)`
	labelRe := regexp.MustCompile(`^(?:slice\(` + ql + `, \(strings\.LastIndex(?:Byte)?\(` + ql + `, ` + dot + `\) \+ 1\), _, _\)|strings\.ToLower\(slice\(` + qd + `, \(strings\.LastIndex(?:Byte)?\(` + qd + `, ` + dot + `\) \+ 1\), _, _\)\))$`)
	var findKey func(t *T) string
	findKey = func(t *T) string {
		if t == nil {
			return ""
		}
		if t.Op == "lookup" && len(t.Args) == 2 && t.Args[0].String() == "util.tldMap" {
			return t.Args[1].String()
		}
		for _, a := range t.Args {
			if k := findKey(a); k != "" {
				return k
			}
		}
		return ""
	}
	for _, o := range outs {
		for _, cd := range o.Conds {
			if k := findKey(cd.T); k != "" && labelRe.MatchString(k) {
				wantKey = k
			}
		}
	}
	lookup := "lookup:commaok(util.tldMap, " + wantKey + ")"
	bad := abort
	for _, present := range []bool{true, false} {
		for _, valid := range []bool{true, false} {
			if bad != "" {
				break
			}
			oracle := func(t *T) (interface{}, bool) {
				s := t.String()
				if s == "extract:1("+lookup+")" {
					return present, true
				}
				if t.Op == "call" && t.Name == "(util.GTLDPeriod).Valid" && len(t.Args) == 2 && t.Args[0].String() == "extract:0("+lookup+")" && t.Args[1].String() == when {
					if valid {
						return nil, true
					}
					return errVal{}, true
				}
				return nil, false
			}
			sel, err := Select(outs, oracle)
			if err != nil {
				bad = "HasValidTLD does not look up the lower-cased right-most label of the domain in tldMap and test Valid(when): " + err.Error()
				break
			}
			if len(sel) != 1 || sel[0].Kind != "return" {
				bad = fmt.Sprintf("%d paths match", len(sel))
				break
			}
			v, err := Eval(sel[0].Results[0], oracle)
			if err != nil {
				bad = err.Error()
				break
			}
			if v != (present && valid) {
				bad = fmt.Sprintf("HasValidTLD returns %v when the label is present=%v and valid-at-when=%v", v, present, valid)
			}
		}
	}
	r.Check(bad == "", "lookup", "HasValidTLD", fn.Pos(), "right-most lower-cased label ∈ tldMap ∧ Valid(when) == nil", bad)

	// IsInTLDMap
	fn2 := c.Func("util", "IsInTLDMap")
	outs2, abort2 := Enumerate(fn2, SymOpts{Inline: noInline})
	lab := fn2.Params[0].Name()
	lk := fmt.Sprintf("extract:1(lookup:commaok(util.tldMap, strings.ToLower(%s)))", lab)
	bad = abort2
	for _, present := range []bool{true, false} {
		if bad != "" {
			break
		}
		oracle := func(t *T) (interface{}, bool) {
			if t.String() == lk {
				return present, true
			}
			return nil, false
		}
		sel, err := Select(outs2, oracle)
		if err != nil || len(sel) != 1 || sel[0].Kind != "return" {
			bad = fmt.Sprintf("IsInTLDMap does not test presence of strings.ToLower(label) in tldMap alone: %v", err)
			break
		}
		v, err := Eval(sel[0].Results[0], oracle)
		if err != nil || v != present {
			bad = fmt.Sprintf("IsInTLDMap returns %v for present=%v (%v)", v, present, err)
		}
		for _, ev := range sel[0].Trace {
			if strings.Contains(ev.Name, "Valid") {
				bad = "IsInTLDMap consults dates (" + ev.Name + "): the 'was ever a TLD' test must ignore them"
			}
		}
	}
	r.Check(bad == "", "lookup", "IsInTLDMap", fn2.Pos(), "presence of the lower-cased label, dates ignored", bad)
}

func c18Lint(c *Ctx, r *Report) {
	cs := BuildCensus(c)
	var reg *Reg
	for _, x := range cs.Regs {
		if x.NameOK && x.Name == "e_dnsname_not_valid_tld" {
			reg = x
		}
	}
	if reg == nil || reg.Err != "" {
		fault("unresolved anchor: lint e_dnsname_not_valid_tld")
	}
	noInline := func(*ssa.Function) bool { return false }
	fn := reg.Execute
	outs, abort := Enumerate(fn, SymOpts{Inline: noInline, LoopBound: 3, Lists: true})
	if abort != "" {
		r.Unk("tld-lint", "Execute", fn.Pos(), abort)
		return
	}
	if why := onlyIndexCarried(fn, 0, nil); why != "" {
		r.Unk("tld-lint", "Execute|loop-shape", fn.Pos(), why)
		return
	}
	cp := fn.Params[1].Name()
	type cn struct {
		empty, ip, valid bool
	}
	cns := []cn{{true, false, false}, {false, true, false}, {false, false, true}, {false, false, false}}
	lists := [][]bool{{}, {true}, {false}, {true, true}, {true, false}, {false, true}, {false, false}}
	n := 0
	for _, cnc := range cns {
		for _, dl := range lists {
			n++
			key := fmt.Sprintf("cn(empty=%v,ip=%v,valid=%v)|dns=%v", cnc.empty, cnc.ip, cnc.valid, dl)
			why := ""
			oracle := func(t *T) (interface{}, bool) {
				s := t.String()
				if s == cp+".Subject.CommonName" {
					if cnc.empty {
						return "", true
					}
					return "name.example", true
				}
				if t.Op == "call" {
					switch t.Name {
					case "builtin:len":
						if t.Args[0].String() == cp+".DNSNames" {
							return int64(len(dl)), true
						}
					case "util.CommonNameIsIP":
						if t.Args[0].String() == cp {
							return cnc.ip, true
						}
					case "util.HasValidTLD":
						if len(t.Args) == 2 {
							if t.Args[1].String() != cp+".NotBefore" {
								why = "TLD validity is tested at " + t.Args[1].String() + " instead of the certificate's NotBefore"
								return nil, false
							}
							a := t.Args[0].String()
							if a == cp+".Subject.CommonName" {
								return cnc.valid, true
							}
							var i int
							if _, err := fmt.Sscanf(a, cp+".DNSNames[%d]", &i); err == nil && i < len(dl) {
								return dl[i], true
							}
						}
					}
				}
				return nil, false
			}
			sel, err := Select(outs, oracle)
			if err != nil {
				if why == "" {
					why = "lint contains a condition the analysis does not model: " + err.Error()
					r.Unk("tld-lint", key, fn.Pos(), why)
				} else {
					r.Bad("tld-lint", key, fn.Pos(), why)
				}
				continue
			}
			var rets []*Outcome
			for _, o := range sel {
				if o.Kind == "return" {
					rets = append(rets, o)
				}
			}
			if len(rets) != 1 {
				r.Unk("tld-lint", key, fn.Pos(), fmt.Sprintf("%d paths match", len(rets)))
				continue
			}
			st := rets[0].Field(rets[0].Results[0], "Status")
			want := int64(3)
			if !cnc.empty && !cnc.ip && !cnc.valid {
				want = 6
			}
			for _, v := range dl {
				if !v {
					want = 6
				}
			}
			got := int64(-1)
			if st != nil && st.IsConst() && st.K != nil {
				got, _ = constant.Int64Val(constant.ToInt(st.K))
			}
			r.Check(got == want, "tld-lint", key, fn.Pos(), statusNames[want],
				fmt.Sprintf("e_dnsname_not_valid_tld yields status %d for %s; the rule requires %s", got, key, statusNames[want]))
		}
	}
	r.Floor("tld-lint cases", 28, n)
	// applicability: subscriber certificate with at least one name
	ca := reg.CheckApplies
	co, ab := Enumerate(ca, SymOpts{Inline: noInline})
	bad := ab
	p := ca.Params[1].Name()
	for _, sub := range []bool{true, false} {
		for _, names := range []bool{true, false} {
			if bad != "" {
				break
			}
			oracle := func(t *T) (interface{}, bool) {
				if t.Op == "call" && len(t.Args) == 1 && t.Args[0].String() == p {
					switch t.Name {
					case "util.IsSubscriberCert":
						return sub, true
					case "util.DNSNamesExist":
						return names, true
					}
				}
				return nil, false
			}
			sel, err := Select(co, oracle)
			if err != nil || len(sel) != 1 {
				bad = fmt.Sprintf("CheckApplies is not a function of IsSubscriberCert and DNSNamesExist: %v", err)
				break
			}
			v, err := Eval(sel[0].Results[0], oracle)
			if err != nil || v != (sub && names) {
				bad = fmt.Sprintf("CheckApplies = %v for subscriber=%v, has-names=%v", v, sub, names)
			}
		}
	}
	r.Check(bad == "", "tld-lint", "CheckApplies", ca.Pos(), "subscriber ∧ has a name", bad)
	// DNSNamesExist: CN != "" ∨ len(DNSNames) > 0
	de := c.Func("util", "DNSNamesExist")
	do, ab2 := Enumerate(de, SymOpts{Inline: noInline})
	bad = ab2
	dp := de.Params[0].Name()
	for _, hasCN := range []bool{true, false} {
		for _, nd := range []int64{0, 1, 2} {
			if bad != "" {
				break
			}
			oracle := func(t *T) (interface{}, bool) {
				if t.String() == dp+".Subject.CommonName" {
					if hasCN {
						return "x", true
					}
					return "", true
				}
				if t.Op == "call" && t.Name == "builtin:len" && t.Args[0].String() == dp+".DNSNames" {
					return nd, true
				}
				return nil, false
			}
			sel, err := Select(do, oracle)
			if err != nil || len(sel) != 1 {
				bad = fmt.Sprintf("DNSNamesExist not evaluable: %v", err)
				break
			}
			v, err := Eval(sel[0].Results[0], oracle)
			if err != nil || v != (hasCN || nd > 0) {
				bad = fmt.Sprintf("DNSNamesExist = %v for commonName set=%v, %d DNS names", v, hasCN, nd)
			}
		}
	}
	r.Check(bad == "", "tld-lint", "DNSNamesExist", de.Pos(), "common name ≠ \"\" ∨ some DNS name", bad)
}

func c18Generator(c *Ctx, r *Report) {
	fn := c.FuncMaybe("cmd/zlint-gtld-update", "validateGTLDs")
	if fn == nil {
		fault("unresolved anchor: cmd/zlint-gtld-update.validateGTLDs")
	}
	// both fields parsed with the layout constant
	fields := map[string]bool{}
	allInstrsDeep(fn, func(in ssa.Instruction) {
		call, ok := in.(ssa.CallInstruction)
		if !ok || staticCalleeName(call.Common()) != "time.Parse" {
			return
		}
		a := call.Common().Args
		if k, ok := a[0].(*ssa.Const); ok && k.Value != nil && constant.StringVal(k.Value) == tldLayout {
			fields[lastField(apath(a[1]))] = true
		}
	})
	r.Check(fields["DelegationDate"] && fields["RemovalDate"], "generator", "validateGTLDs parses both dates", fn.Pos(), "", "the generator no longer parses DelegationDate and RemovalDate with the table's layout before writing the map")
	// decision table of one iteration: delegation parse error ⇒ error; removal non-empty ∧ parse error ⇒ error
	outs, abort := Enumerate(fn, SymOpts{Inline: func(*ssa.Function) bool { return false }, LoopBound: 1})
	bad := abort
	ent := fn.Params[0].Name()
	for _, delErr := range []bool{false, true} {
		for _, remSet := range []bool{false, true} {
			for _, remErr := range []bool{false, true} {
				if bad != "" {
					break
				}
				oracle := func(t *T) (interface{}, bool) {
					s := t.String()
					if t.Op == "call" && t.Name == "builtin:len" {
						return int64(1), true
					}
					if strings.HasSuffix(s, ".RemovalDate") && strings.HasPrefix(s, ent+"[0]") {
						if remSet {
							return "2020-13-45", true
						}
						return "", true
					}
					if t.Op == "extract" && t.Name == "1" {
						if args, ok := t.Args[0].CallNamed("time.Parse"); ok {
							isErr := false
							switch lastField(args[1].String()) {
							case "DelegationDate":
								isErr = delErr
							case "RemovalDate":
								isErr = remErr
							}
							if isErr {
								return errVal{}, true
							}
							return nil, true
						}
					}
					return nil, false
				}
				sel, err := Select(outs, oracle)
				if err != nil {
					bad = "validateGTLDs not evaluable: " + err.Error()
					break
				}
				var rets []*Outcome
				for _, o := range sel {
					if o.Kind == "return" {
						rets = append(rets, o)
					}
				}
				if len(rets) != 1 {
					bad = fmt.Sprintf("%d paths match", len(rets))
					break
				}
				gotErr := !rets[0].Results[0].IsNil()
				want := delErr || (remSet && remErr)
				if gotErr != want {
					bad = fmt.Sprintf("validateGTLDs returns error=%v for an entry with delegation-parse-error=%v removal-set=%v removal-parse-error=%v", gotErr, delErr, remSet, remErr)
				}
			}
		}
	}
	r.Check(bad == "", "generator", "validateGTLDs table", fn.Pos(), "unparseable delegation or non-empty unparseable removal ⇒ error", bad)
	// renderGTLDMap: the Execute of the template is dominated by the nil-test of validateGTLDs' error
	rg := c.Func("cmd/zlint-gtld-update", "renderGTLDMap")
	okDom := false
	for _, vc := range callsTo(rg, "cmd/zlint-gtld-update.validateGTLDs") {
		cv := vc.(*ssa.Call)
		execs := 0
		guarded := 0
		allInstrs(rg, func(in ssa.Instruction) {
			if call, ok := in.(ssa.CallInstruction); ok && strings.HasSuffix(staticCalleeName(call.Common()), "template.Template).Execute") {
				execs++
				if guardedBy(in.Block(), cv, token.EQL) {
					guarded++
				}
			}
		})
		okDom = execs > 0 && execs == guarded
	}
	if !okDom {
		// the same on the decision table (helpers newer than the rules inlined): on every
		// path that renders the template, validateGTLDs was called before and its error
		// was seen to be nil
		outs, abort := Enumerate(rg, SymOpts{Inline: func(*ssa.Function) bool { return false }, LoopBound: 1, MaxPaths: 200000})
		if abort == "" {
			renders, good := 0, 0
			for _, o := range outs {
				execAt, valAt := -1, -1
				var valRes *T
				for i, ev := range o.Trace {
					if ev.Kind == "call" && strings.HasSuffix(ev.Name, "template.Template).Execute") && execAt < 0 {
						execAt = i
					}
					if ev.Kind == "call" && ev.Name == "cmd/zlint-gtld-update.validateGTLDs" && valAt < 0 {
						valAt, valRes = i, ev.Result
					}
				}
				if execAt < 0 {
					continue
				}
				renders++
				if valAt < 0 || valAt > execAt || valRes == nil {
					continue
				}
				for _, cd := range o.Conds {
					if cd.Val && cd.T.Op == "bin" && cd.T.Name == "==" && len(cd.T.Args) == 2 && cd.T.Args[0] == valRes && cd.T.Args[1].IsNil() {
						good++
						break
					}
				}
			}
			okDom = renders > 0 && renders == good
		}
	}
	r.Check(okDom, "generator", "renderGTLDMap", rg.Pos(), "template rendered only after validation succeeded", "the gTLD map template can be rendered although validateGTLDs failed (or is no longer called)")
}

// cnIsIPTable: util.CommonNameIsIP(c) is "net.ParseIP(c.Subject.CommonName) != nil"
// and nothing else. The lints that skip an IP common name (TLD validity) or judge
// it as an address (reserved IP) rely on exactly the textual forms net.ParseIP
// accepts; another parser (netip.ParseAddr accepts zones, a pre-filter may reject
// upper-case hex) changes which names are treated as host names.
func cnIsIPTable(c *Ctx, r *Report) {
	fn := c.Func("util", "CommonNameIsIP")
	outs, abort := Enumerate(fn, SymOpts{})
	bad := abort
	cp := fn.Params[0].Name()
	parse := "net.ParseIP(" + cp + ".Subject.CommonName)"
	for _, isIP := range []bool{true, false} {
		if bad != "" {
			break
		}
		oracle := func(t *T) (interface{}, bool) {
			if t.String() == parse {
				if isIP {
					return errVal{}, true
				}
				return nil, true
			}
			return nil, false
		}
		sel, err := Select(outs, oracle)
		if err != nil || len(sel) != 1 || sel[0].Kind != "return" || len(sel[0].Results) != 1 {
			bad = fmt.Sprintf("CommonNameIsIP is not a function of net.ParseIP(c.Subject.CommonName) alone: %v", err)
			break
		}
		v, err := Eval(sel[0].Results[0], oracle)
		if err != nil || v != isIP {
			bad = fmt.Sprintf("CommonNameIsIP returns %v when net.ParseIP(common name) is non-nil=%v (%v)", v, isIP, err)
		}
	}
	r.Check(bad == "", "cn-is-ip", "util.CommonNameIsIP", fn.Pos(), "net.ParseIP(c.Subject.CommonName) != nil", bad)
}
