package main

// newfuncs.go — "functions introduced after the rules were written are
// transparent". ledger/known_functions.txt lists every function and method of
// the module on the reference tree (names only). A module function that is not
// in the list cannot be one of the named anchors a rule speaks about, so
//   - the decision-table engine always inlines it (helper extraction does not
//     turn a decided table into an "unknown atom"), and
//   - who-may rules (field writers, API users) attribute what it does to its
//     callers: a new helper may do what every function calling it may do.
// The list is a census of names used only to decide inlining/attribution; it
// never raises an alarm by itself, and removing a listed function only makes
// the anchor resolver report the anchor as gone.

import (
	"bufio"
	"go/types"
	"os"
	"path/filepath"
	"sort"
	"strings"

	"golang.org/x/tools/go/ssa"
)

var knownFuncs map[string]bool

// knownSigs: reference name → receiver|params|results of the reference tree
// (ledger/known_signatures.txt); used only to tell several renamed siblings apart.
var knownSigs = map[string]string{}

func loadKnownFuncs() {
	if knownFuncs != nil {
		return
	}
	knownFuncs = map[string]bool{}
	f, err := os.Open(filepath.Join(verifDir(), "ledger", "known_functions.txt"))
	if err != nil {
		fault("ledger/known_functions.txt: %v", err)
	}
	defer f.Close()
	sc := bufio.NewScanner(f)
	sc.Buffer(make([]byte, 1<<20), 1<<20)
	for sc.Scan() {
		l := strings.TrimSpace(sc.Text())
		if l != "" && !strings.HasPrefix(l, "#") {
			knownFuncs[l] = true
		}
	}
	if len(knownFuncs) < 1000 {
		fault("ledger/known_functions.txt lists only %d functions", len(knownFuncs))
	}
	if g, err := os.Open(filepath.Join(verifDir(), "ledger", "known_signatures.txt")); err == nil {
		defer g.Close()
		sc := bufio.NewScanner(g)
		sc.Buffer(make([]byte, 1<<20), 1<<20)
		for sc.Scan() {
			if parts := strings.SplitN(sc.Text(), "\t", 2); len(parts) == 2 && !strings.HasPrefix(parts[0], "#") {
				knownSigs[parts[0]] = parts[1]
			}
		}
	}
}

// outermost returns the declared function an anonymous function is nested in.
func outermost(f *ssa.Function) *ssa.Function {
	for f.Parent() != nil {
		f = f.Parent()
	}
	return f
}

// isNewFunc: a module function with a body that the reference tree did not have.
func isNewFunc(f *ssa.Function) bool {
	if f == nil || len(f.Blocks) == 0 || !isModFunc(f) {
		return false
	}
	loadKnownFuncs()
	o := outermost(f)
	if aliasRecvName(o) != "" && knownFuncs[fname(o)] {
		return false // an instantiated method that a type alias keeps under its reference name
	}
	if org := o.Origin(); org != nil && org != o {
		o = org // an instantiation of a generic function is as new as the generic
	}
	if o.Synthetic != "" {
		return false
	}
	return !knownFuncs[fname(o)]
}

// isTransparentLib: small search helpers of the standard library whose bodies
// are the very loops they replace; the decision-table engine looks through them
// (slices.Contains(xs, v) is the loop "for _, x := range xs { if x == v … }").
func isTransparentLib(f *ssa.Function) bool {
	if f == nil || len(f.Blocks) == 0 {
		return false
	}
	if fnPkgPath(f) != "slices" {
		return false
	}
	n := f.Name()
	if i := strings.Index(n, "["); i >= 0 {
		n = n[:i]
	}
	switch n {
	case "Contains", "ContainsFunc", "Index", "IndexFunc":
		return true
	}
	return false
}

// dumpFuncs prints the census of declared module functions (for the ledger).
func dumpFuncs(c *Ctx) {
	var names []string
	seen := map[string]bool{}
	for _, f := range modFunctions(c) {
		if f.Parent() != nil || f.Synthetic != "" {
			continue
		}
		n := fname(f)
		if !seen[n] {
			seen[n] = true
			names = append(names, n)
		}
	}
	sort.Strings(names)
	if os.Getenv("ZLV_DUMP_SIGS") != "" {
		sigs := map[string]string{}
		for _, f := range modFunctions(c) {
			if f.Parent() == nil && f.Synthetic == "" {
				sigs[fname(f)] = sigKey(f)
			}
		}
		for _, n := range names {
			println(n + "\t" + sigs[n])
		}
		return
	}
	for _, n := range names {
		println(n)
	}
}

// ownerFuncs: the known functions on whose behalf f runs — f itself when it is
// a known function; for a new function, the owners of every function that
// calls it (it must only be called statically, never used as a value).
// ok=false when the callers cannot be enumerated.
func ownerFuncs(c *Ctx, f *ssa.Function) (owners []*ssa.Function, ok bool) {
	seen := map[*ssa.Function]bool{}
	set := map[*ssa.Function]bool{}
	ok = true
	var visit func(g *ssa.Function, d int)
	visit = func(g *ssa.Function, d int) {
		g = outermost(g)
		if seen[g] {
			return
		}
		seen[g] = true
		if !isNewFunc(g) || d > 6 {
			set[g] = true
			return
		}
		n := 0
		for _, h := range modFunctions(c) {
			allInstrs(h, func(in ssa.Instruction) {
				for _, op := range in.Operands(nil) {
					if *op != ssa.Value(g) {
						continue
					}
					call, isCall := in.(ssa.CallInstruction)
					if !isCall || call.Common().Value != ssa.Value(g) {
						ok = false // used as a value
						continue
					}
					n++
					visit(h, d+1)
				}
			})
		}
		if n == 0 {
			set[g] = true // nobody calls it: it answers for itself
		}
	}
	visit(f, 0)
	for g := range set {
		owners = append(owners, g)
	}
	sort.Slice(owners, func(i, j int) bool { return fname(owners[i]) < fname(owners[j]) })
	return owners, ok
}

// actsFor: f is one of the named functions, or a function newer than the rules
// all of whose (transitive) callers are.
func actsFor(c *Ctx, f *ssa.Function, names map[string]bool, pkgPath string) bool {
	owners, ok := ownerFuncs(c, f)
	if !ok || len(owners) == 0 {
		return false
	}
	for _, o := range owners {
		nm := o.Name()
		if a := aliasedBase(o); a != "" {
			nm = a
		}
		if !names[nm] {
			return false
		}
		if pkgPath != "" && (o.Pkg == nil || o.Pkg.Pkg.Path() != pkgPath) {
			return false
		}
	}
	return true
}

var funcsByName map[string]*ssa.Function

// funcByName resolves the display name (fname) of a module function.
func funcByName(c *Ctx, name string) *ssa.Function {
	if funcsByName == nil {
		funcsByName = map[string]*ssa.Function{}
		for _, f := range modFunctions(c) {
			funcsByName[fname(f)] = f
		}
	}
	return funcsByName[name]
}

// ---------------------------------------------------------------------------
// renamed anchors. When a function of the reference tree is gone and exactly
// one function newer than the rules exists in the same package with the same
// receiver type and the same signature, the new one is taken to be the old one
// under a new name: it is resolved where the old name is asked for and printed
// under the old name, so that rules written against the reference names keep
// deciding it. A wrong pairing cannot hide anything: the rules then judge the
// paired function by the anchor's specification.

var (
	renameNewToOld map[*ssa.Function]string // new function → reference base name
	renameOldToNew map[string]*ssa.Function // reference fname → new function
	renameCtx      *Ctx
)

func sigKey(f *ssa.Function) string {
	recv := ""
	if r := f.Signature.Recv(); r != nil {
		recv = r.Type().String()
	}
	tup := func(t *types.Tuple) string {
		var ps []string
		for i := 0; i < t.Len(); i++ {
			ps = append(ps, t.At(i).Type().String())
		}
		return "(" + strings.Join(ps, ", ") + ")"
	}
	return recv + "|" + tup(f.Signature.Params()) + "|" + tup(f.Signature.Results())
}

func buildRenames(c *Ctx) {
	if renameCtx == c {
		return
	}
	renameCtx = c
	renameNewToOld = map[*ssa.Function]string{}
	renameOldToNew = map[string]*ssa.Function{}
	loadKnownFuncs()
	present := map[string]bool{}
	byPkg := map[string][]*ssa.Function{} // new declared functions per package
	for _, f := range modFunctions(c) {
		if f.Parent() != nil || f.Synthetic != "" || f.Pkg == nil {
			continue
		}
		present[fname(f)] = true
		if !knownFuncs[fnameRaw(f)] {
			byPkg[f.Pkg.Pkg.Path()] = append(byPkg[f.Pkg.Pkg.Path()], f)
		}
	}
	// reference names that are gone, with the package and "shape" recoverable from the name
	for old := range knownFuncs {
		if present[old] {
			continue
		}
		// candidates: new functions whose printed name differs from old only in the final identifier
		i := strings.LastIndex(old, ".")
		if i < 0 {
			continue
		}
		prefix := old[:i+1]
		var cands []*ssa.Function
		for _, fs := range byPkg {
			for _, f := range fs {
				n := fnameRaw(f)
				if j := strings.LastIndex(n, "."); j >= 0 && n[:j+1] == prefix {
					cands = append(cands, f)
				}
			}
		}
		if len(cands) > 1 {
			// several siblings were renamed at once: tell them apart by signature
			if want := knownSigs[old]; want != "" {
				var same []*ssa.Function
				for _, f := range cands {
					if sigKey(f) == want {
						same = append(same, f)
					}
				}
				cands = same
			}
		}
		if len(cands) != 1 {
			continue
		}
		renameOldToNew[old] = cands[0]
	}
	// a new function may stand for one old name only
	count := map[*ssa.Function]int{}
	for _, f := range renameOldToNew {
		count[f]++
	}
	for old, f := range renameOldToNew {
		if count[f] != 1 {
			delete(renameOldToNew, old)
			continue
		}
		renameNewToOld[f] = old[strings.LastIndex(old, ".")+1:]
	}
}

// fnameRaw is fname without rename aliasing.
func fnameRaw(f *ssa.Function) string {
	s := f.String()
	s = strings.ReplaceAll(s, modPath+"/", "")
	s = strings.ReplaceAll(s, modPath, "zlint")
	return s
}

// aliasedBase: the reference name of a renamed anchor ("" if f is not one).
func aliasedBase(f *ssa.Function) string {
	if renameNewToOld == nil || f == nil {
		return ""
	}
	return renameNewToOld[f]
}
