package main

import (
	"fmt"
	"go/token"
	"go/types"
	"strings"

	"golang.org/x/tools/go/ssa"
)

func init() { register("C11", runC11) }

func runC11(c *Ctx, tier string) {
	r := NewReport("C11", "other", tier, c)
	r.Explanation = "(1) lifecycle: in all three life-cycle tables MaybeConfigure(new instance, lint name) precedes CheckApplies and a configuration error yields Fatal carrying the error's own text with no lint method called — for certificate, CRL and OCSP lints alike (decision tables evaluated on source × scope × configuration outcome × applicability × window); (2) deserialise-table: the decision table of Configuration.deserializeConfigInto over section ∈ {absent, a table, any other TOML value} × Unmarshal outcome: absent leaves the target untouched (only higher-scoped references are resolved), a non-table yields an error and Unmarshal is not called, an Unmarshal error is returned, success continues with resolveHigherScopedReferences; Configure returns nil iff that returns nil and otherwise an error naming the namespace; MaybeConfigure is a no-op for lints that are not Configurable and otherwise configures exactly the value returned by the instance's Configure(); (3) no-panic: none of the functions reachable from MaybeConfigure in package lint contains a type assertion without comma-ok on a value obtained from the TOML tree, an explicit panic, or an index without guard (the remaining single-result assertions are listed with their guard); (4) locality: every Configure() method of a registered lint returns its own receiver (or a pointer into it) and every constructor returns a fresh instance, so options cannot leak between runs or registries; Filter hands the configuration to the new registry on every path; (5) example: defaultConfiguration ranges over the lintsByName tables of all three kinds and emits a section for every instance that is Configurable. Does not decide TOML validity of the generated example, go-toml's own type errors, or that an option changes the lint's behaviour. (0) no carry-over between runs: the interprocedural MOD summaries (C05 rules 1-2) show that no lint method writes a package-level variable or the linted object, so a run under one configuration cannot influence a later run under another."
	r.Rule("no-global-write; object-read-only; lifecycle; deserialise-table; configure-wrap; maybe-configure; no-panic; configure-returns-receiver; fresh-instance; filter-config; example-coverage")
	r.Trusted = []string{"go/ssa", "go-toml Get/Unmarshal (type errors are returned, not panics)", "reflect-based resolution of higher-scoped configurations"}

	lcReport(c, r, "lifecycle", func(class string) bool { return true })
	c11Deserialise(c, r)
	c11NoPanic(c, r)
	cs := BuildCensus(c)
	r.Floor("registrations", 370, len(cs.Regs))
	c11Configurables(c, r, cs)
	// "from the next run on" / "nothing else changes": a run under one configuration
	// leaves no trace for later runs — no lint method writes package-level state or
	// the linted object (C05 rules 1-2; a memo keyed by anything but the full
	// configuration would carry one run's settings into the next)
	c05Effects(c, r, cs, NewEffects(c))
	freshInstances(c, r, cs)
	filterChecks(c, r, true)
	c08Empty(c, r) // when Filter may hand back the registry it was given instead of a copy
	c11Example(c, r)
	r.Finish()
}

func c11Deserialise(c *Ctx, r *Report) {
	noInline := func(*ssa.Function) bool { return false }
	fn := c.Method("lint", "Configuration", "deserializeConfigInto")
	outs, abort := Enumerate(fn, SymOpts{Inline: noInline})
	cfg, target, ns := fn.Params[0].Name(), fn.Params[1].Name(), fn.Params[2].Name()
	get := fmt.Sprintf("(*github.com/pelletier/go-toml.Tree).Get(%s.tree, %s)", cfg, ns)
	for i, o := range outs {
		if i < 4 {
			r.Sample(map[string]interface{}{"table_of": "Configuration.deserializeConfigInto", "path": o.Summary()})
		}
	}
	type cse struct {
		id           string
		section      string // nil | tree | other
		unmarshalErr bool
	}
	for _, cs := range []cse{{"section-absent", "nil", false}, {"section-is-table", "tree", false}, {"section-is-table-unmarshal-error", "tree", true}, {"section-not-a-table", "other", false}} {
		if abort != "" {
			r.Unk("deserialise-table", cs.id, fn.Pos(), abort)
			continue
		}
		oracle := func(t *T) (interface{}, bool) {
			s := t.String()
			if s == get {
				if cs.section == "nil" {
					return nil, true
				}
				return marker{cs.section}, true
			}
			if t.Op == "extract" && t.Name == "1" && len(t.Args) == 1 && t.Args[0].Op == "assert" && strings.Contains(t.Args[0].Name, "go-toml.Tree") && t.Args[0].Args[0].String() == get {
				return cs.section == "tree", true
			}
			if t.Op == "call" && t.Name == "(*github.com/pelletier/go-toml.Tree).Unmarshal" {
				if cs.unmarshalErr {
					return errVal{}, true
				}
				return nil, true
			}
			return nil, false
		}
		sel, err := Select(outs, oracle)
		if err != nil || len(sel) != 1 || len(sel[0].Results) != 1 {
			r.Unk("deserialise-table", cs.id, fn.Pos(), fmt.Sprintf("table not evaluable: %v (%d paths)", err, len(sel)))
			continue
		}
		o := sel[0]
		bad := ""
		if o.Kind == "panic" {
			bad = "panics: " + o.Why
		}
		var unmarshal, resolve *Event
		for i := range o.Trace {
			ev := &o.Trace[i]
			switch {
			case ev.Name == "(*github.com/pelletier/go-toml.Tree).Unmarshal":
				unmarshal = ev
			case ev.Name == "(lint.Configuration).resolveHigherScopedReferences":
				resolve = ev
			case ev.Kind == "store" || ev.Kind == "mapupdate":
				bad = "writes " + ev.String()
			}
		}
		res := o.Results[0]
		if bad == "" {
			switch cs.id {
			case "section-absent":
				if unmarshal != nil || resolve == nil || res != resolve.Result {
					bad = "a missing section must leave the lint's defaults untouched (no Unmarshal) and only resolve higher-scoped references"
				}
			case "section-is-table":
				if unmarshal == nil || len(unmarshal.Args) != 2 || unmarshal.Args[1].String() != target || resolve == nil || res != resolve.Result {
					bad = "a table section must be unmarshalled into the target and then higher-scoped references resolved"
				}
			case "section-is-table-unmarshal-error":
				if unmarshal == nil || res != unmarshal.Result || resolve != nil {
					bad = "an Unmarshal error must be returned as it is"
				}
			case "section-not-a-table":
				if unmarshal != nil || res.IsNil() || resolve != nil || (res.Op == "call" && strings.Contains(res.Name, "resolveHigher")) {
					bad = "a section that is not a table (scalar, array, …) must yield a configuration error; instead the lint would silently run with its defaults or panic (result: " + res.String() + ")"
				}
			}
		}
		r.Check(bad == "", "deserialise-table", cs.id, fn.Pos(), "", bad)
	}
	// Configure: nil iff deserializeConfigInto returns nil; error text mentions the namespace
	cf := c.Method("lint", "Configuration", "Configure")
	co, ab := Enumerate(cf, SymOpts{Inline: noInline})
	for _, isErr := range []bool{false, true} {
		id := fmt.Sprintf("inner-error=%v", isErr)
		if ab != "" {
			r.Unk("configure-wrap", id, cf.Pos(), ab)
			continue
		}
		oracle := func(t *T) (interface{}, bool) {
			if t.Op == "call" && t.Name == "(lint.Configuration).deserializeConfigInto" {
				if isErr {
					return errVal{}, true
				}
				return nil, true
			}
			return nil, false
		}
		sel, err := Select(co, oracle)
		if err != nil || len(sel) != 1 || len(sel[0].Results) != 1 {
			r.Unk("configure-wrap", id, cf.Pos(), fmt.Sprintf("not evaluable: %v", err))
			continue
		}
		res := sel[0].Results[0]
		gotErr := !res.IsNil()
		if res.Op == "call" && res.Name == "(lint.Configuration).deserializeConfigInto" {
			gotErr = isErr
		}
		bad := ""
		if gotErr != isErr {
			bad = fmt.Sprintf("Configure returns error=%v when deserialisation returns error=%v", gotErr, isErr)
		}
		// arguments forwarded unchanged
		for _, ev := range sel[0].Trace {
			if ev.Name == "(lint.Configuration).deserializeConfigInto" && (len(ev.Args) != 3 || ev.Args[1].String() != cf.Params[1].Name() || ev.Args[2].String() != cf.Params[2].Name()) {
				bad = "Configure does not deserialise the given namespace into the given target"
			}
		}
		r.Check(bad == "", "configure-wrap", id, cf.Pos(), "", bad)
	}
	// MaybeConfigure
	mf := c.Method("lint", "Configuration", "MaybeConfigure")
	mo, ab2 := Enumerate(mf, SymOpts{Inline: noInline})
	lintP, nsP := mf.Params[1].Name(), mf.Params[2].Name()
	for _, configurable := range []bool{false, true} {
		id := fmt.Sprintf("configurable=%v", configurable)
		if ab2 != "" {
			r.Unk("maybe-configure", id, mf.Pos(), ab2)
			continue
		}
		assertT := "assert:lint.Configurable,ok(" + lintP + ")"
		oracle := func(t *T) (interface{}, bool) {
			if t.String() == "extract:1("+assertT+")" {
				return configurable, true
			}
			return nil, false
		}
		sel, err := Select(mo, oracle)
		if err != nil || len(sel) != 1 || len(sel[0].Results) != 1 {
			r.Unk("maybe-configure", id, mf.Pos(), fmt.Sprintf("not evaluable: %v", err))
			continue
		}
		o := sel[0]
		bad := ""
		if !configurable {
			if !o.Results[0].IsNil() || len(o.Trace) != 0 {
				bad = "a lint that is not Configurable must be left alone (nil, no calls)"
			}
		} else {
			var conf, cfg *Event
			for i := range o.Trace {
				ev := &o.Trace[i]
				if ev.Name == "invoke:Configure" {
					conf = ev
				}
				if ev.Name == "(lint.Configuration).Configure" {
					cfg = ev
				}
			}
			if conf == nil || cfg == nil || len(conf.Args) != 1 || conf.Args[0].String() != "extract:0("+assertT+")" ||
				len(cfg.Args) != 3 || cfg.Args[1] != conf.Result || cfg.Args[2].String() != nsP || o.Results[0] != cfg.Result {
				bad = "MaybeConfigure must return Configure(<the instance's own Configure() value>, namespace)"
			}
		}
		r.Check(bad == "", "maybe-configure", id, mf.Pos(), "", bad)
	}
}

// c11NoPanic: panic sources in the configuration path.
func c11NoPanic(c *Ctx, r *Report) {
	// reviewed single-result assertions: function → asserted type → guard
	reviewed := map[string]string{
		"(lint.Configuration).resolveHigherScopedReferences|lint.GlobalConfiguration": "guarded by the comma-ok assertion of the same field two lines above (initializePtr only replaces a nil pointer by a new value of the same type)",
	}
	names := []string{"MaybeConfigure", "Configure", "deserializeConfigInto", "resolveHigherScopedReferences"}
	n := 0
	for _, name := range names {
		fn := c.Method("lint", "Configuration", name)
		// (helpers newer than the rules that these functions call are part of the path)
		allInstrsDeep(fn, func(in ssa.Instruction) {
			switch x := in.(type) {
			case *ssa.TypeAssert:
				n++
				if x.CommaOk {
					if s := okIgnoredDeref(x.Parent(), x, c.Pos(x.Pos())); s != nil && s.how == "" {
						r.Bad("no-panic", fname(x.Parent())+"|assert "+shortType(x.AssertedType)+" (ok discarded)", x.Pos(), s.detail+": a configuration entry of another kind (a scalar where a table is expected) makes the result nil and the use panics")
						return
					}
					r.OK("no-panic", fname(x.Parent())+"|assert "+shortType(x.AssertedType)+" (comma-ok)", x.Pos(), false, "")
					return
				}
				key := fname(fn) + "|" + shortType(x.AssertedType)
				if why, ok := reviewed[key]; ok {
					r.OK("no-panic", key, x.Pos(), true, "reviewed: "+why)
					return
				}
				r.Bad("no-panic", key, x.Pos(), fmt.Sprintf("%s asserts %s to %s without comma-ok: a configuration value of another type panics (escaping LintRevocationListEx / LintOcspResponseEx, and reported as a misleading 'panicked' fatal for certificate lints)", fname(fn), apath(x.X), shortType(x.AssertedType)))
			case *ssa.Panic:
				n++
				r.Bad("no-panic", fname(fn)+"|panic", x.Pos(), "explicit panic in the configuration path")
			}
		})
	}
	r.Floor("assertions in the configuration path", 3, n)
}

func c11Configurables(c *Ctx, r *Report, cs *Census) {
	n := 0
	for _, reg := range cs.Regs {
		if reg.Err != "" || reg.Configure == nil {
			continue
		}
		n++
		fn := reg.Configure
		ok := true
		why := ""
		recv := fn.Params[0].Name()
		for _, ret := range realReturns(fn) {
			rv := retVals(ret)
			if len(rv) != 1 {
				ok = false
				continue
			}
			p := strings.TrimPrefix(apath(rv[0]), "&")
			if !(p == recv || strings.HasPrefix(p, recv+".")) {
				ok = false
				why = "returns " + apath(rv[0])
			}
			// "a pointer into its own instance": the receiver itself or the address of one of
			// its fields. A pointer LOADED from a field may point anywhere (a package-level
			// settings struct shared by all instances): it must have been set by the lint's
			// constructor to memory allocated in that call.
			v := rv[0]
			for {
				if mi, isMI := v.(*ssa.MakeInterface); isMI {
					v = mi.X
					continue
				}
				if ct, isCT := v.(*ssa.ChangeType); isCT {
					v = ct.X
					continue
				}
				break
			}
			if ld, isLoad := v.(*ssa.UnOp); isLoad && ld.Op == token.MUL {
				if fa, isFA := ld.X.(*ssa.FieldAddr); isFA {
					fld := fieldVar(fa).Name()
					if !ctorSetsFieldFresh(reg.Ctor, fld) {
						ok = false
						why = "returns the pointer held in field " + fld + ", which the constructor does not set to memory allocated for this instance"
					}
				}
			}
		}
		r.Check(ok, "configure-returns-receiver", reg.ID(), fn.Pos(), "returns its own receiver", "Configure() of "+reg.ID()+" does not return (a pointer into) its own instance ("+why+"): options would be written into state shared between runs and registries")
	}
	r.Floor("configurable lints", 4, n)
	// every registered type implementing Configurable has been counted
	conf := c.Named("lint", "Configurable").Underlying().(*types.Interface)
	m := 0
	for _, reg := range cs.Regs {
		if reg.Concrete != nil && types.Implements(reg.Concrete, conf) {
			m++
		}
	}
	r.Check(m == n, "configure-returns-receiver", "<census>", 0, fmt.Sprintf("%d configurable lints", n), fmt.Sprintf("%d registered types implement Configurable but %d Configure methods were resolved", m, n))
}

// c11Example: defaultConfiguration covers the three kinds.
func c11Example(c *Ctx, r *Report) {
	fn := c.Method("lint", "registryImpl", "defaultConfiguration")
	kinds := map[string]bool{}
	allInstrs(fn, func(in ssa.Instruction) {
		rg, ok := in.(*ssa.Range)
		if !ok {
			return
		}
		p := apath(rg.X)
		if !strings.HasSuffix(p, ".lintsByName") {
			return
		}
		// inside the loop: instance := lint.Lint(); if Configurable → configurables[name] = strip(instance.Configure())
		// (the map may sit in a struct embedded in the lookup: r.<kind>.<embedded>.lintsByName)
		parts := strings.Split(p, ".")
		if len(parts) >= 3 {
			kinds[parts[0]+"."+parts[1]+".lintsByName"] = true
		}
	})
	for _, k := range lookupKinds {
		want := fn.Params[0].Name() + "." + k.regField + ".lintsByName"
		r.Check(kinds[want], "example-coverage", k.regField, fn.Pos(), "ranged over", "the generated example configuration no longer covers "+k.regField+": configurable lints of that kind get no section")
	}
	// each loop stores stripGlobalsFromExample(Configure()) under the lint's name
	nput := 0
	allInstrsDeep(fn, func(in ssa.Instruction) {
		mu, ok := in.(*ssa.MapUpdate)
		if !ok {
			return
		}
		v := apath(mu.Value)
		if strings.HasPrefix(v, "lint.stripGlobalsFromExample(") && strings.Contains(v, ".Lint().(lint.Configurable)") && strings.Contains(v, ".Configure(") && strings.HasPrefix(apath(mu.Key), "next(range("+fn.Params[0].Name()+".") {
			nput++
		}
	})
	r.Check(nput >= 3, "example-coverage", "sections", fn.Pos(), fmt.Sprintf("%d section stores", nput), fmt.Sprintf("only %d of the 3 per-kind loops store a section built from Configure() of a NEW INSTANCE (lint.Lint()) under the lint's name", nput))
}

// ctorSetsFieldFresh: every store the constructor makes into field fld of the
// instance it returns stores the address of an object allocated in that call.
func ctorSetsFieldFresh(ctor *ssa.Function, fld string) bool {
	if ctor == nil || len(ctor.Blocks) == 0 {
		return false
	}
	n, ok := 0, true
	allInstrsDeep(ctor, func(in ssa.Instruction) {
		st, isSt := in.(*ssa.Store)
		if !isSt {
			return
		}
		fa, isFA := st.Addr.(*ssa.FieldAddr)
		if !isFA || fieldVar(fa).Name() != fld {
			return
		}
		n++
		v := st.Val
		if a, isAlloc := v.(*ssa.Alloc); isAlloc && a.Heap {
			return
		}
		ok = false
	})
	return n > 0 && ok
}
