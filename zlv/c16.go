package main

import (
	"fmt"
	"go/ast"
	"go/constant"
	"go/token"
	"go/types"
	"golang.org/x/tools/go/packages"
	"math/big"
	"strings"

	"golang.org/x/tools/go/ssa"
	"golang.org/x/tools/go/types/typeutil"
)

func init() { register("C16", runC16) }

type rsaKey struct {
	isRSA bool
	N     *big.Int
	E     int64
}

// c16Spec: lint name → expected status as a function of the key.
// statuses: 1 NA, 3 Pass, 5 Warn, 6 Error, 7 Fatal
var c16Spec = map[string]func(k rsaKey) int64{
	"e_rsa_mod_less_than_2048_bits":              func(k rsaKey) int64 { return errIf(k.N.BitLen() < 2048) },
	"e_mp_modulus_must_be_2048_bits_or_more":     func(k rsaKey) int64 { return errIf(k.N.BitLen() < 2048) },
	"e_old_root_ca_rsa_mod_less_than_2048_bits":  func(k rsaKey) int64 { return errIf(k.N.BitLen() < 2048) },
	"e_old_sub_ca_rsa_mod_less_than_1024_bits":   func(k rsaKey) int64 { return errIf(k.N.BitLen() < 1024) },
	"e_old_sub_cert_rsa_mod_less_than_1024_bits": func(k rsaKey) int64 { return errIf(k.N.BitLen() < 1024) },
	"e_cs_rsa_key_size":                          func(k rsaKey) int64 { return errIf(k.N.BitLen() < 3072) },
	"e_mp_modulus_must_be_divisible_by_8":        func(k rsaKey) int64 { return errIf(k.N.BitLen()%8 != 0) },
	"w_rsa_mod_not_odd":                          func(k rsaKey) int64 { return warnIf(k.N.Bit(0) == 0) },
	"w_rsa_mod_factors_smaller_than_752":         func(k rsaKey) int64 { return warnIf(hasSmallFactor(k.N)) },
	"e_rsa_public_exponent_not_odd":              func(k rsaKey) int64 { return errIf(k.E%2 != 1) },
	"e_rsa_public_exponent_too_small":            func(k rsaKey) int64 { return errIf(k.E < 3) },
	"e_mp_exponent_cannot_be_one":                func(k rsaKey) int64 { return errIf(k.E == 1) },
	"w_rsa_public_exponent_not_in_range":         func(k rsaKey) int64 { return warnIf(k.E < 65537) }, // E < 2^256 always holds for an int exponent
}

// what a lint does when the key object is not an RSA key (only for lints
// that test it themselves)
var c16NotRSA = map[string]int64{
	"e_mp_modulus_must_be_2048_bits_or_more": 7, "e_mp_modulus_must_be_divisible_by_8": 7, "e_mp_exponent_cannot_be_one": 7,
	"e_cs_rsa_key_size": 1,
}

func errIf(b bool) int64 {
	if b {
		return 6
	}
	return 3
}
func warnIf(b bool) int64 {
	if b {
		return 5
	}
	return 3
}

func sieve(n int) []int64 {
	comp := make([]bool, n)
	var out []int64
	for i := 2; i < n; i++ {
		if !comp[i] {
			out = append(out, int64(i))
			for j := i * i; j < n; j += i {
				comp[j] = true
			}
		}
	}
	return out
}

var primesBelow752 = sieve(752)

func hasSmallFactor(n *big.Int) bool {
	m := new(big.Int)
	for _, p := range primesBelow752 {
		if m.Mod(n, big.NewInt(p)).Sign() == 0 {
			return true
		}
	}
	return false
}

func runC16(c *Ctx, tier string) {
	r := NewReport("C16", "other", tier, c)
	r.Explanation = "(1) prime-table: the literals of util.bigIntPrimes are read from the syntax tree and must be exactly the primes below 752 (sieve in the checker), without duplicates; util.zero is big.NewInt(0); neither is written outside its declaration. (2) trial-division: the decision table of PrimeNoSmallerThan752 (loop unrolled twice; per iteration DivMod(q, dividend, primes[i], m) followed by m.Cmp(zero) == 0 ⇒ false; true after the loop) — with the table clause this gives: false iff some prime below 752 divides the argument. (3) threshold tables: for each of the 13 key-quality lints the decision table of Execute is extracted with big.Int operations as atoms (BitLen, Mod, Cmp, NewInt) and evaluated by the checker's own arithmetic on moduli of bit length 1, 8, 1016..1025, 2040..2049, 2056, 3064..3073, 4096 (odd and even, with and without small factors, small moduli 0..40) and exponents -3..5, 65535..65538, 2^31-1, 2^62; operator, constant, polarity and status must all agree with the stated predicate (e.g. BitLen(N) < 2048 ⇒ Error). The exponent-range lint's upper bound is the constructor's Exp(2,256). Because the code touches N and E only through these atoms the evaluation points (both sides of every constant met) decide all inputs. (4) fermat-rounds: the round loop of checkPrimeFactorsTooClose runs i = 0..rounds-1 with rounds = the configured field. (5) fermat-schema: the function's paths (loop unrolled 3×, module callees inlined) are interpreted over polynomials in n and s = ⌊√n⌋ (big.Int Sqrt/Add/Sub/Mul/Set/Cmp modelled; Sqrt of a non-square is an opaque non-negative atom) and must match Fermat's method: init a = s+1, b2 = a²−n; the only branch of round j is b2 == (⌊√b2⌋)² with b2 = (s+1+j)²−n (for j ≥ 1 this is the step a←a+1, b2←a²−n, a polynomial identity in the free indeterminate s and therefore valid for every round); a hit returns a non-nil error and the two big numbers it reports multiply to n after substituting r² = b2 (the branch condition); nil is returned only after i < rounds fails; Execute maps error ⇒ Error, nil ⇒ Pass. Any other branch or big.Int mutation inside the function is reported as undecided. NOT decided: big.Int's own correctness and the number theory of Fermat's method itself (that (p+q)/2 − ⌈√n⌉ < rounds for 'close' primes is arithmetic about the inputs, not about the code)."
	r.Rule("prime-table; trial-division; threshold-table (13 lints); exp-upper-bound; fermat-rounds; fermat-schema (init, step, found, exit, verdict)")
	r.Trusted = []string{"math/big", "go/ssa", "the checker's own transcription of each stated predicate (DESIGN §8)"}
	r.Assumptions = []string{"math/big is trusted; the Fermat clause is decided as agreement of the code with the algorithm schema, not by running it; applicability pairing of the type assertions belongs to C02"}

	c16Primes(c, r)
	c16TrialDivision(c, r)
	c16Thresholds(c, r)
	c16Fermat(c, r)
	c16FermatSchema(c, r)
	// what the caller sees is what Execute returned: the life-cycle functions pass the
	// rule body's result through unchanged (status and details — the factors reported by
	// the Fermat lint included)
	lcReport(c, r, "lifecycle", nil)
	// premise of every per-lint rule of this property: the verdict is computed on the
	// object as parsed and on immutable tables — no lint method (any lint may run
	// earlier in the same pass) writes memory reachable from the linted object or a
	// package-level variable (C05 rules 1-2)
	{
		csP := BuildCensus(c)
		c05Effects(c, r, csP, NewEffects(c))
	}
	r.Finish()
}

func c16Primes(c *Ctx, r *Report) {
	util := c.Pkg("util")
	v, _ := util.Types.Scope().Lookup("bigIntPrimes").(*types.Var)
	if v == nil {
		fault("unresolved anchor: util.bigIntPrimes")
	}
	lit, ok := varInit(util, v).(*ast.CompositeLit)
	seen := map[int64]bool{}
	if !ok {
		// built from a table of plain integers: var bigIntPrimes = func() []*big.Int {
		// for _, p := range smallPrimes { out = append(out, big.NewInt(int64(p))) } … }()
		nums, why := primesFromBuilder(util, varInit(util, v))
		if why != "" {
			r.Unk("prime-table", "bigIntPrimes", v.Pos(), "initialiser is neither a literal of big.NewInt(<constant>) entries nor a loop turning a literal integer table into such entries: "+why)
			return
		}
		for _, n := range nums {
			if seen[n] {
				r.Bad("prime-table", fmt.Sprintf("dup-%d", n), v.Pos(), fmt.Sprintf("%d listed twice", n))
			}
			seen[n] = true
		}
		lit = &ast.CompositeLit{}
	}
	for _, el := range lit.Elts {
		call, ok := el.(*ast.CallExpr)
		var n int64
		if ok {
			fn, _ := typeutil.Callee(util.TypesInfo, call).(*types.Func)
			if fn == nil || fn.FullName() != "math/big.NewInt" || len(call.Args) != 1 {
				ok = false
			} else {
				n, ok = constInt(util.TypesInfo, call.Args[0])
			}
		}
		if !ok {
			r.Unk("prime-table", "entry", el.Pos(), "entry is not big.NewInt(<constant>)")
			continue
		}
		if seen[n] {
			r.Bad("prime-table", fmt.Sprintf("dup-%d", n), el.Pos(), fmt.Sprintf("%d listed twice", n))
		}
		seen[n] = true
	}
	want := map[int64]bool{}
	for _, p := range primesBelow752 {
		want[p] = true
		r.Check(seen[p], "prime-table", fmt.Sprintf("prime-%d", p), v.Pos(), "", fmt.Sprintf("prime %d (< 752) is missing from the trial-division table: moduli divisible by it pass the small-factor lint", p))
	}
	for n := range seen {
		if !want[n] {
			r.Bad("prime-table", fmt.Sprintf("extra-%d", n), v.Pos(), fmt.Sprintf("%d is in the table but is not a prime below 752", n))
		}
	}
	r.Floor("prime table entries", 133, len(seen))
	r.Check(countAssignments(c, v) == 0 && !sliceWritten(c, "util.bigIntPrimes"), "prime-table", "immutable", v.Pos(), "", "util.bigIntPrimes is modified at run time")
	z, _ := util.Types.Scope().Lookup("zero").(*types.Var)
	okZero := false
	if z != nil {
		if call, ok := varInit(util, z).(*ast.CallExpr); ok && len(call.Args) == 1 {
			if fn, _ := typeutil.Callee(util.TypesInfo, call).(*types.Func); fn != nil && fn.FullName() == "math/big.NewInt" {
				if n, ok := constInt(util.TypesInfo, call.Args[0]); ok && n == 0 {
					okZero = countAssignments(c, z) == 0
				}
			}
		}
	}
	if z == nil {
		// no package-level zero any more: the remainder test must then use a form that
		// needs none (Sign() == 0, BitLen() == 0, Cmp(big.NewInt(0))) — trial-division decides
		r.OK("prime-table", "zero", v.Pos(), false, "no util.zero variable")
	} else {
		r.Check(okZero, "prime-table", "zero", v.Pos(), "util.zero = big.NewInt(0)", "util.zero is not big.NewInt(0) (or is reassigned): the remainder test compares against something else")
	}
}

// sliceWritten: an element store into the named global slice somewhere.
func sliceWritten(c *Ctx, name string) bool {
	found := false
	for _, f := range modFunctions(c) {
		if f.Name() == "init" && f.Synthetic != "" {
			continue
		}
		allInstrs(f, func(in ssa.Instruction) {
			if st, ok := in.(*ssa.Store); ok {
				if ia, ok := st.Addr.(*ssa.IndexAddr); ok && apath(ia.X) == name {
					found = true
				}
			}
		})
	}
	return found
}

func c16TrialDivision(c *Ctx, r *Report) {
	fn := c.Func("util", "PrimeNoSmallerThan752")
	outs, abort := Enumerate(fn, SymOpts{Inline: func(*ssa.Function) bool { return false }, LoopBound: 2})
	id := "PrimeNoSmallerThan752"
	if abort != "" {
		r.Unk("trial-division", id, fn.Pos(), abort)
		return
	}
	if why := onlyIndexCarried(fn, 0, nil); why != "" {
		r.Unk("trial-division", id+"|loop-shape", fn.Pos(), why)
		return
	}
	dividend := fn.Params[0].Name()
	bad := ""
	complete := 0
	for _, o := range outs {
		if o.Kind == "abort" || o.Kind == "panic" {
			bad = "path not understood: " + o.Why
			continue
		}
		// collect the remainder computations in order: DivMod(q, n, p, m) leaves n mod p in
		// m; Mod / Rem(z, n, p) leave it in z (also the call's value)
		var mods []*T   // the object holding the i-th remainder
		var modRes []*T // the call's own value (for Mod/Rem chains: new(big.Int).Mod(n, p).Sign())
		for _, ev := range o.Trace {
			switch {
			case ev.Kind == "call" && ev.Name == "(*math/big.Int).DivMod":
				i := len(mods)
				if len(ev.Args) != 4 || ev.Args[1].String() != dividend || ev.Args[2].String() != fmt.Sprintf("util.bigIntPrimes[%d]", i) {
					bad = fmt.Sprintf("iteration %d divides %v (expected DivMod(q, %s, bigIntPrimes[%d], m))", i, ev.Args, dividend, i)
				}
				mods = append(mods, ev.Args[3])
				modRes = append(modRes, nil)
			case ev.Kind == "call" && (ev.Name == "(*math/big.Int).Mod" || ev.Name == "(*math/big.Int).Rem"):
				i := len(mods)
				if len(ev.Args) != 3 || ev.Args[1].String() != dividend || ev.Args[2].String() != fmt.Sprintf("util.bigIntPrimes[%d]", i) {
					bad = fmt.Sprintf("iteration %d computes %v (expected Mod(%s, bigIntPrimes[%d]))", i, ev.Args, dividend, i)
				}
				mods = append(mods, ev.Args[0])
				modRes = append(modRes, ev.Result)
			case ev.Kind == "call" && (ev.Name == "math/big.NewInt" || ev.Name == "(*math/big.Int).Cmp" || ev.Name == "(*math/big.Int).Sign" || ev.Name == "(*math/big.Int).BitLen"):
			default:
				bad = "unexpected effect: " + ev.String()
			}
		}
		isRem := func(t *T, k int) bool {
			return k < len(mods) && (t == mods[k] || (modRes[k] != nil && t == modRes[k]) || t.String() == mods[k].String())
		}
		isZeroBig := func(t *T) bool {
			s := t.String()
			return s == "util.zero" || s == "math/big.NewInt(0)" || strings.HasPrefix(s, "math/big.NewInt#") && strings.HasSuffix(s, "(0)")
		}
		// conditions: loop tests and (Cmp#k(m, zero) == 0)
		k := 0
		lastHit := false
		for _, cd := range o.Conds {
			t := cd.T
			if t.Op == "bin" && t.Name == "<" && len(t.Args) == 2 && t.Args[0].IsConst() && t.Args[1].String() == "builtin:len(util.bigIntPrimes)" {
				continue // the loop's own test: index < number of table entries
			}
			if t.Op == "bin" && t.Name == "==" && t.Args[1].String() == "0" {
				// remainder == 0, spelt m.Cmp(zero) == 0, m.Sign() == 0 or m.BitLen() == 0
				hit := false
				if args, ok := t.Args[0].CallNamed("(*math/big.Int).Cmp"); ok && len(args) == 2 && isRem(args[0], k) && isZeroBig(args[1]) {
					hit = true
				}
				for _, m := range []string{"(*math/big.Int).Sign", "(*math/big.Int).BitLen"} {
					if args, ok := t.Args[0].CallNamed(m); ok && len(args) == 1 && isRem(args[0], k) {
						hit = true
					}
				}
				if hit {
					k++
					lastHit = cd.Val
					if cd.Val && cd != o.Conds[len(o.Conds)-1] {
						bad = "a zero remainder does not end the search"
					}
					continue
				}
			}
			bad = "trial division branches on " + t.String()
		}
		if o.Kind == "return" && len(o.Results) == 1 {
			complete++
			v := o.Results[0]
			if !v.IsConst() || v.K == nil || v.K.Kind() != constant.Bool {
				bad = "result is not a boolean constant per path"
			} else if constant.BoolVal(v.K) == lastHit {
				bad = fmt.Sprintf("returns %v when the last remainder tested was zero=%v", constant.BoolVal(v.K), lastHit)
			}
			if k != len(mods) {
				bad = "some remainder is computed but not tested"
			}
		}
	}
	if complete == 0 {
		bad = "no complete path"
	}
	r.Check(bad == "", "trial-division", id, fn.Pos(), fmt.Sprintf("%d paths: false iff some table entry divides the argument", len(outs)), bad)
}

// c16Keys: evaluation points.
func c16Keys() []rsaKey {
	var ns []*big.Int
	for i := int64(0); i <= 40; i++ {
		ns = append(ns, big.NewInt(i))
	}
	for _, b := range []int{8, 1016, 1017, 1023, 1024, 1025, 1032, 2040, 2041, 2047, 2048, 2049, 2055, 2056, 3064, 3071, 3072, 3073, 3080, 4096} {
		top := new(big.Int).Lsh(big.NewInt(1), uint(b-1))
		ns = append(ns, top, new(big.Int).Add(top, big.NewInt(1)))
		// all-ones (largest value of that length)
		ns = append(ns, new(big.Int).Sub(new(big.Int).Lsh(big.NewInt(1), uint(b)), big.NewInt(1)))
	}
	for _, p := range []int64{751, 757, 751 * 757, 757 * 761, 743 * 761, 2 * 757, 3 * 5 * 7} {
		ns = append(ns, big.NewInt(p))
	}
	es := []int64{-3, -1, 0, 1, 2, 3, 4, 5, 65535, 65536, 65537, 65538, 1<<31 - 1, 1 << 62}
	var out []rsaKey
	for _, n := range ns {
		out = append(out, rsaKey{true, n, 65537})
	}
	for _, e := range es {
		out = append(out, rsaKey{true, big.NewInt(35), e})
	}
	out = append(out, rsaKey{false, big.NewInt(0), 0})
	return out
}

func c16Thresholds(c *Ctx, r *Report) {
	cs := BuildCensus(c)
	byName := map[string]*Reg{}
	for _, reg := range cs.Regs {
		if reg.NameOK {
			byName[reg.Name] = reg
		}
	}
	keys := c16Keys()
	two256 := new(big.Int).Lsh(big.NewInt(1), 256)
	n := 0
	for name, spec := range c16Spec {
		reg := byName[name]
		if reg == nil || reg.Err != "" {
			fault("unresolved anchor: lint %s", name)
		}
		n++
		fn := reg.Execute
		outs, abort := Enumerate(fn, SymOpts{MaxDepth: 2, Inline: func(f *ssa.Function) bool {
			return isModFunc(f) && len(f.Blocks) > 0 && f.Pkg == fn.Pkg
		}})
		if abort != "" {
			r.Unk("threshold-table", name, fn.Pos(), abort)
			continue
		}
		loops := false
		for _, o := range outs {
			if o.Kind == "abort" {
				loops = true
			}
		}
		if loops {
			r.Unk("threshold-table", name, fn.Pos(), "Execute is not loop-free: not a threshold table")
			continue
		}
		if name == "w_rsa_public_exponent_not_in_range" {
			c16UpperBound(c, r, reg)
		}
		cp := fn.Params[1].Name()
		bad, undec := "", ""
		for _, k := range keys {
			if !k.isRSA {
				if _, tests := c16NotRSA[name]; !tests {
					continue // the lint asserts the type; applicability pairing is C02's rule
				}
			}
			var bigEval func(t *T) (*big.Int, bool)
			bigEval = func(t *T) (*big.Int, bool) {
				s := t.String()
				if strings.HasSuffix(s, ".N") && strings.Contains(s, cp+".PublicKey") {
					return k.N, true
				}
				if strings.HasSuffix(s, ".upperBound") {
					return two256, true
				}
				if t.Op == "call" {
					switch t.Name {
					case "math/big.NewInt":
						if len(t.Args) == 1 {
							if v, err := Eval(t.Args[0], func(x *T) (interface{}, bool) { return c16Leaf(x, cp, k) }); err == nil {
								if iv, ok := v.(int64); ok {
									return big.NewInt(iv), true
								}
							}
						}
					case "(*math/big.Int).Mod":
						if len(t.Args) == 3 {
							x, ok1 := bigEval(t.Args[1])
							y, ok2 := bigEval(t.Args[2])
							if ok1 && ok2 && y.Sign() != 0 {
								return new(big.Int).Mod(x, y), true
							}
						}
					}
				}
				return nil, false
			}
			oracle := func(t *T) (interface{}, bool) {
				if v, ok := c16Leaf(t, cp, k); ok {
					return v, true
				}
				if t.Op == "call" {
					switch t.Name {
					case "(*math/big.Int).BitLen":
						if x, ok := bigEval(t.Args[0]); ok {
							return int64(x.BitLen()), true
						}
					case "(*math/big.Int).Cmp":
						x, ok1 := bigEval(t.Args[0])
						y, ok2 := bigEval(t.Args[1])
						if ok1 && ok2 {
							return int64(x.Cmp(y)), true
						}
					case "(*math/big.Int).Bit":
						if x, ok := bigEval(t.Args[0]); ok {
							if i, err := Eval(t.Args[1], func(x *T) (interface{}, bool) { return c16Leaf(x, cp, k) }); err == nil {
								return int64(x.Bit(int(i.(int64)))), true
							}
						}
					case "util.PrimeNoSmallerThan752":
						if x, ok := bigEval(t.Args[0]); ok {
							return !hasSmallFactor(x), true
						}
					}
				}
				return nil, false
			}
			sel, err := Select(outs, oracle)
			if err != nil {
				undec = "Execute contains a condition the analysis does not model: " + err.Error()
				break
			}
			if len(sel) != 1 || sel[0].Kind != "return" || len(sel[0].Results) != 1 {
				undec = fmt.Sprintf("%d paths match one key", len(sel))
				break
			}
			st := sel[0].Field(sel[0].Results[0], "Status")
			got := int64(-1)
			if st != nil && st.IsConst() && st.K != nil {
				got, _ = constant.Int64Val(constant.ToInt(st.K))
			}
			want := spec(k)
			if !k.isRSA {
				want = c16NotRSA[name]
			}
			if got != want {
				gn := fmt.Sprint(got)
				if got >= 0 && got < 8 {
					gn = statusNames[got]
				}
				bad = fmt.Sprintf("%s returns %s for a key with modulus of %d bits (N mod 2 = %d, N = %s…) and exponent %d (RSA key object: %v); its stated predicate requires %s", name, gn, k.N.BitLen(), k.N.Bit(0), trimStr(k.N.String(), 12), k.E, k.isRSA, statusNames[want])
				break
			}
		}
		switch {
		case undec != "":
			r.Unk("threshold-table", name, fn.Pos(), undec)
		case bad != "":
			r.Bad("threshold-table", name, fn.Pos(), bad)
		default:
			r.OK("threshold-table", name, fn.Pos(), true, fmt.Sprintf("%d paths × %d keys", len(outs), len(keys)))
			if len(r.Samples) < 4 {
				r.Sample(map[string]interface{}{"lint": name, "table": outs[0].Summary()})
			}
		}
	}
	r.Floor("threshold lints", 13, n)
	r.Extra["evaluation_keys"] = len(keys)
}

func c16Leaf(t *T, cp string, k rsaKey) (interface{}, bool) {
	s := t.String()
	if strings.HasSuffix(s, ".E") && strings.Contains(s, cp+".PublicKey") {
		return k.E, true
	}
	if t.Op == "conv" && len(t.Args) == 1 {
		if v, ok := c16Leaf(t.Args[0], cp, k); ok {
			return v, true
		}
	}
	if t.Op == "extract" && t.Name == "1" && len(t.Args) == 1 && t.Args[0].Op == "assert" && strings.Contains(t.Args[0].Name, "rsa.PublicKey") {
		return k.isRSA, true
	}
	return nil, false
}

// c16UpperBound: the constructor sets upperBound := new(big.Int).Exp(2, 256, nil).
func c16UpperBound(c *Ctx, r *Report, reg *Reg) {
	outs, abort := Enumerate(reg.Ctor, SymOpts{Inline: func(*ssa.Function) bool { return false }})
	ok := abort == "" && len(outs) == 1
	why := "constructor is not a single path"
	if ok {
		o := outs[0]
		ok = false
		why = "constructor does not compute upperBound = Exp(2, 256, nil)"
		var ub *T
		for k, v := range o.Mem {
			if strings.HasSuffix(k, ".upperBound") {
				ub = v
			}
		}
		for _, ev := range o.Trace {
			if ev.Kind == "call" && ev.Name == "(*math/big.Int).Exp" && len(ev.Args) == 4 {
				if ub != nil && ev.Args[0].String() == ub.String() && ev.Args[1].String() == "math/big.NewInt(2)" && strings.HasPrefix(ev.Args[2].String(), "math/big.NewInt") && strings.HasSuffix(ev.Args[2].String(), "(256)") && ev.Args[3].IsNil() {
					ok = true
				}
			}
		}
	}
	r.Check(ok, "exp-upper-bound", reg.ID(), reg.Ctor.Pos(), "upperBound = 2^256", why)
}

// c16Fermat: for i := 0; i < rounds; i++ with rounds = l.Rounds.
func c16Fermat(c *Ctx, r *Report) {
	fn := c.FuncMaybe("lints/community", "checkPrimeFactorsTooClose")
	if fn == nil {
		fault("unresolved anchor: community.checkPrimeFactorsTooClose")
	}
	rounds := fn.Params[1]
	ok := false
	why := "no loop of the form for i := 0; i < rounds; i++ found"
	// (the loop may sit in a helper newer than the rules that the function is split into)
	allInstrsDeep(fn, func(in ssa.Instruction) {
		phi, isPhi := in.(*ssa.Phi)
		if !isPhi || len(phi.Edges) != 2 {
			return
		}
		var init, step ssa.Value
		for _, e := range phi.Edges {
			if k, isK := e.(*ssa.Const); isK {
				init = k
			} else {
				step = e
			}
		}
		k, _ := init.(*ssa.Const)
		bo, _ := step.(*ssa.BinOp)
		if k == nil || k.Value == nil || k.Value.ExactString() != "0" || bo == nil || bo.Op != token.ADD || bo.X != phi {
			return
		}
		if one, isK := bo.Y.(*ssa.Const); !isK || one.Value.ExactString() != "1" {
			return
		}
		// the test is `i < rounds` at the top, or — for the rotated form go/ssa gives
		// `for range rounds` — `i+1 < rounds` at the bottom (with `0 < rounds` before the loop)
		for _, v := range []ssa.Value{phi, bo} {
			for _, ref := range *v.Referrers() {
				if cmp, isB := ref.(*ssa.BinOp); isB && cmp.Op == token.LSS && cmp.X == v && (cmp.Y == ssa.Value(rounds) || apath(cmp.Y) == rounds.Name()) {
					ok = true
				}
			}
		}
	})
	r.Check(ok, "fermat-rounds", "checkPrimeFactorsTooClose", fn.Pos(), "i = 0 .. rounds-1", why)
	// Execute passes l.Rounds
	var reg *Reg
	for _, x := range BuildCensus(c).Regs {
		if x.NameOK && x.Name == "e_rsa_fermat_factorization" {
			reg = x
		}
	}
	ok = false
	if reg != nil && reg.Err == "" {
		for _, call := range callsTo(reg.Execute, "lints/community.checkPrimeFactorsTooClose") {
			a := call.Common().Args
			if len(a) == 2 && strings.HasSuffix(apath(a[0]), ".N") && strings.HasPrefix(apath(a[1]), reg.Execute.Params[0].Name()+".") && strings.HasSuffix(apath(a[1]), ".Rounds") {
				ok = true
			}
		}
	}
	r.Check(ok, "fermat-rounds", "Execute passes N and the configured Rounds", fn.Pos(), "", "the Fermat lint no longer searches the certificate's modulus for the configured number of rounds")
}

// primesFromBuilder: init is `func() []*big.Int { … for _, p := range T { … append(…,
// big.NewInt(int64(p))) } … return … }()` with T a package-level array / slice of
// integer constants that is never written: the numbers of T.
func primesFromBuilder(util *packages.Package, init ast.Expr) ([]int64, string) {
	call, ok := init.(*ast.CallExpr)
	if !ok || len(call.Args) != 0 {
		return nil, "not an immediately invoked function literal"
	}
	fl, ok := call.Fun.(*ast.FuncLit)
	if !ok {
		return nil, "not an immediately invoked function literal"
	}
	var table *types.Var
	var loopVar types.Object
	appended := false
	ast.Inspect(fl.Body, func(n ast.Node) bool {
		switch x := n.(type) {
		case *ast.RangeStmt:
			if id, ok := x.X.(*ast.Ident); ok {
				if tv, ok := util.TypesInfo.Uses[id].(*types.Var); ok && tv.Parent() == util.Types.Scope() {
					table = tv
					if vid, ok := x.Value.(*ast.Ident); ok {
						loopVar = util.TypesInfo.Defs[vid]
					}
				}
			}
		case *ast.CallExpr:
			if fn, _ := typeutil.Callee(util.TypesInfo, x).(*types.Func); fn != nil && fn.FullName() == "math/big.NewInt" && len(x.Args) == 1 {
				// big.NewInt(int64(p)) / big.NewInt(p)
				arg := x.Args[0]
				if conv, ok := arg.(*ast.CallExpr); ok && len(conv.Args) == 1 {
					arg = conv.Args[0]
				}
				if id, ok := arg.(*ast.Ident); ok && loopVar != nil && util.TypesInfo.Uses[id] == loopVar {
					appended = true
				}
			}
		}
		return true
	})
	if table == nil || !appended {
		return nil, "no loop over a package-level integer table that appends big.NewInt(entry)"
	}
	tl, ok := varInit(util, table).(*ast.CompositeLit)
	if !ok {
		return nil, "the integer table " + table.Name() + " is not a literal"
	}
	var out []int64
	for _, el := range tl.Elts {
		n, ok := constInt(util.TypesInfo, el)
		if !ok {
			return nil, "an entry of " + table.Name() + " is not an integer constant"
		}
		out = append(out, n)
	}
	return out, ""
}
