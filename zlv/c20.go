package main

import (
	"fmt"
	"regexp"
	"sort"
	"strconv"
	"strings"
)

func init() { register("C20", runC20) }

type c20Pair struct {
	a, b string
	kind string // mirror-san-ian | mirror-subject-issuer | subset | severity-subject-issuer | equal | aia | companion
}

var c20Pairs = []c20Pair{
	// RFC 5280 copy ⊆ BR copy (the BR copies additionally check the common name)
	{"e_rfc_dnsname_empty_label", "e_dnsname_empty_label", "subset"},
	{"e_rfc_dnsname_hyphen_in_sld", "e_dnsname_hyphen_in_sld", "subset"},
	{"e_rfc_dnsname_label_too_long", "e_dnsname_label_too_long", "subset"},
	{"e_rfc_dnsname_underscore_in_sld", "e_dnsname_underscore_in_sld", "subset"},
	{"w_rfc_dnsname_underscore_in_trd", "w_dnsname_underscore_in_trd", "subset"},
	// subjectAltName / issuerAltName mirrors
	{"e_ext_san_dns_not_ia5_string", "e_ext_ian_dns_not_ia5_string", "mirror-san-ian"},
	{"e_ext_san_empty_name", "e_ext_ian_empty_name", "mirror-san-ian"},
	{"e_ext_san_no_entries", "e_ext_ian_no_entries", "mirror-san-ian"},
	{"e_ext_san_rfc822_format_invalid", "e_ext_ian_rfc822_format_invalid", "mirror-san-ian"},
	{"e_ext_san_space_dns_name", "e_ext_ian_space_dns_name", "mirror-san-ian"},
	{"e_ext_san_uri_format_invalid", "e_ext_ian_uri_format_invalid", "mirror-san-ian"},
	{"e_ext_san_uri_host_not_fqdn_or_ip", "e_ext_ian_uri_host_not_fqdn_or_ip", "mirror-san-ian"},
	{"e_ext_san_uri_not_ia5", "e_ext_ian_uri_not_ia5", "mirror-san-ian"},
	{"e_ext_san_uri_relative", "e_ext_ian_uri_relative", "mirror-san-ian"},
	// subject / issuer DN mirrors
	{"w_subject_dn_leading_whitespace", "w_issuer_dn_leading_whitespace", "mirror-subject-issuer"},
	{"w_subject_dn_trailing_whitespace", "w_issuer_dn_trailing_whitespace", "mirror-subject-issuer"},
	{"e_subject_dn_country_not_printable_string", "e_issuer_dn_country_not_printable_string", "mirror-subject-issuer"},
	{"n_multiple_subject_rdn", "w_multiple_issuer_rdn", "severity-subject-issuer"},
	// two sources, same prohibition
	{"e_prohibit_dsa_usage", "e_br_prohibit_dsa_usage", "equal"},
	{"w_sub_cert_aia_contains_internal_names", "w_smime_aia_contains_internal_names", "aia"},
	// error-level limit with a stricter warning-level companion
	{"e_tls_server_cert_valid_time_longer_than_398_days", "w_tls_server_cert_valid_time_longer_than_397_days", "companion"},
	{"e_subject_given_name_max_length", "w_subject_given_name_recommended_max_length", "companion"},
	{"e_subject_surname_max_length", "w_subject_surname_recommended_max_length", "companion"},
}

var renSanIan = []struct{ from, to string }{
	{"util.SubjectAlternateNameOID", "util.IssuerAlternateNameOID"},
	{"field DNSNames", "field IANDNSNames"}, {"field URIs", "field IANURIs"}, {"field EmailAddresses", "field IANEmailAddresses"},
	{"field IPAddresses", "field IANIPAddresses"}, {"field OtherNames", "field IANOtherNames"}, {"field DirectoryNames", "field IANDirectoryNames"},
	{"field RegisteredIDs", "field IANRegisteredIDs"}, {"field EDIPartyNames", "field IANEDIPartyNames"},
}

var renSubjIss = []struct{ from, to string }{
	{"field RawSubject", "field RawIssuer"}, {"field Subject", "field Issuer"},
}

func renameFP(fp Fingerprint, ren []struct{ from, to string }) Fingerprint {
	out := Fingerprint{}
	for k, n := range fp {
		for _, r := range ren {
			if strings.Contains(k, r.from) {
				// whole-token replacement for field names
				if strings.HasPrefix(r.from, "field ") {
					if k == r.from || strings.HasPrefix(k, r.from+".") {
						k = r.to + strings.TrimPrefix(k, r.from)
						break
					}
					continue
				}
				k = strings.ReplaceAll(k, r.from, r.to)
				break
			}
		}
		out[k] += n
	}
	return out
}

var findingStatusRe = regexp.MustCompile(`^status (Notice|Warn|Error)$`)

func maskSeverity(fp Fingerprint) Fingerprint {
	out := Fingerprint{}
	for k, n := range fp {
		if findingStatusRe.MatchString(k) {
			k = "status <finding>"
		}
		out[k] += n
	}
	return out
}

func diffFP(a, b Fingerprint) (onlyA, onlyB []string) {
	for k, n := range a {
		if b[k] != n {
			if n > b[k] {
				onlyA = append(onlyA, fmt.Sprintf("%s ×%d", k, n-b[k]))
			}
		}
	}
	for k, n := range b {
		if a[k] != n {
			if n > a[k] {
				onlyB = append(onlyB, fmt.Sprintf("%s ×%d", k, n-a[k]))
			}
		}
	}
	sort.Strings(onlyA)
	sort.Strings(onlyB)
	return
}

func statusSet(fp Fingerprint) string {
	var s []string
	for k := range fp {
		if strings.HasPrefix(k, "status ") {
			s = append(s, strings.TrimPrefix(k, "status "))
		}
	}
	sort.Strings(s)
	return strings.Join(s, ",")
}

func runC20(c *Ctx, tier string) {
	r := NewReport("C20", "other", tier, c)
	r.Explanation = "For each of the 23 rule pairs named by the property (5 RFC 5280/BR DNS-label rules, 9 subjectAltName/issuerAltName rules, 4 subject/issuer DN rules, Mozilla/BR DSA, BR/S-MIME AIA internal names, 3 error/warning companions) the behaviour fingerprints of CheckApplies and Execute — the multiset of resolved callees with their constant arguments, comparisons against constants, arithmetic constants, fields of the certificate read, statuses produced, type assertions and loops, with same-package helpers folded in and shared util helpers counted as one callee — are compared under the pair's declared relation: mirror pairs must be equal after renaming the mirrored fields/OIDs (DNSNames↔IANDNSNames, …, Subject↔Issuer); an RFC copy must be contained in its BR copy (which adds the common-name check) with the same statuses; severity variants equal up to the finding status; the two DSA lints equal; the S/MIME AIA lint's Execute equal to the BR one's and its CheckApplies a superset; companions equal up to one threshold constant and the finding status, with the warning threshold not above the error threshold, the same applicability, the same source and a warning window that covers the error window. Editing one copy without the other changes exactly one fingerprint and is reported with the differing features. Premise, decided as well: the two copies of a rule run at different points of one lint run (registration order), so they agree only if they judge the same object — the interprocedural MOD summaries (C05 rules 1-2) show that no lint method writes memory reachable from the linted object or a package-level variable. Not a proof of behavioural equality: two bodies with equal fingerprints but different boolean structure are not distinguished."
	r.Rule("pair-fingerprints; companion-threshold; companion-window; object-read-only; no-global-write")
	r.Trusted = []string{"go/ssa", "the pair table (from the property's anchors, confirmed by reading)"}

	cs := BuildCensus(c)
	// premise: both copies of a rule judge the same object — no lint that may run
	// between them rewrites the certificate or package-level state (C05 rules 1-2)
	c05Effects(c, r, cs, NewEffects(c))
	by := map[string]*Reg{}
	for _, reg := range cs.Regs {
		if reg.NameOK {
			by[reg.Name] = reg
		}
	}
	n := 0
	for _, p := range c20Pairs {
		ra, rb := by[p.a], by[p.b]
		if ra == nil || rb == nil || ra.Err != "" || rb.Err != "" {
			fault("unresolved anchor: lint pair %s / %s", p.a, p.b)
		}
		n++
		key := p.a + "~" + p.b
		aA, aE := fingerprintOf(ra.CheckApplies), fingerprintOf(ra.Execute)
		bA, bE := fingerprintOf(rb.CheckApplies), fingerprintOf(rb.Execute)
		bad := ""
		report := func(what string, oa, ob []string) {
			bad = fmt.Sprintf("%s of %s and %s differ beyond the pair's declared relation (%s): only in %s: %v; only in %s: %v", what, p.a, p.b, p.kind, p.a, oa, p.b, ob)
		}
		switch p.kind {
		case "mirror-san-ian", "mirror-subject-issuer", "severity-subject-issuer":
			ren := renSanIan
			if p.kind != "mirror-san-ian" {
				ren = renSubjIss
			}
			xa, xe := renameFP(aA, ren), renameFP(aE, ren)
			ye, ya := bE, bA
			if p.kind == "severity-subject-issuer" {
				xe, ye = maskSeverity(xe), maskSeverity(ye)
			}
			if oa, ob := diffFP(xa, ya); len(oa)+len(ob) > 0 {
				report("CheckApplies", oa, ob)
			} else if oa, ob := diffFP(xe, ye); len(oa)+len(ob) > 0 {
				report("Execute", oa, ob)
			}
		case "equal":
			if oa, ob := diffFP(aA, bA); len(oa)+len(ob) > 0 {
				report("CheckApplies", oa, ob)
			} else if oa, ob := diffFP(aE, bE); len(oa)+len(ob) > 0 {
				report("Execute", oa, ob)
			}
		case "subset":
			if oa, _ := diffFP(aE, bE); len(oa) > 0 {
				report("Execute (RFC copy must be contained in the BR copy)", oa, nil)
			} else if oa, _ := diffFP(aA, bA); len(oa) > 0 {
				report("CheckApplies (RFC copy must be contained in the BR copy)", oa, nil)
			} else if statusSet(aE) != statusSet(bE) {
				bad = fmt.Sprintf("%s can report {%s}, %s {%s}", p.a, statusSet(aE), p.b, statusSet(bE))
			} else {
				// what the BR copy adds must be the common-name check only
				_, ob := diffFP(aE, bE)
				for _, f := range ob {
					if !(strings.Contains(f, "CommonName") || strings.HasPrefix(f, "field Subject") || strings.HasPrefix(f, "cmp == \"\"") || strings.HasPrefix(f, "status ") || isRepeatOf(f, aE)) {
						bad = fmt.Sprintf("the BR copy %s adds %q, which is neither the common-name check nor a repetition of the shared rule", p.b, f)
					}
				}
			}
		case "aia":
			if oa, ob := diffFP(aE, bE); len(oa)+len(ob) > 0 {
				report("Execute", oa, ob)
			} else if oa, _ := diffFP(aA, bA); len(oa) > 0 {
				report("CheckApplies (the S/MIME copy may only add its scope test)", oa, nil)
			}
		case "companion":
			if oa, ob := diffFP(aA, bA); len(oa)+len(ob) > 0 {
				report("CheckApplies (an error must always come with the warning: same applicability required)", oa, ob)
				break
			}
			oa, ob := diffFP(maskSeverity(aE), maskSeverity(bE))
			// exactly one numeric feature may differ on each side
			if len(oa) != 1 || len(ob) != 1 {
				report("Execute (companions may differ in one threshold constant and the status only)", oa, ob)
				break
			}
			ka, oka := featureNumber(oa[0])
			kb, okb := featureNumber(ob[0])
			if !oka || !okb || featureShape(oa[0]) != featureShape(ob[0]) {
				report("Execute", oa, ob)
				break
			}
			// a is the error-level lint: its limit must not be below the warning's
			if kb > ka {
				bad = fmt.Sprintf("the warning-level limit (%d in %s) is above the error-level limit (%d in %s): an error would no longer come with a warning", kb, p.b, ka, p.a)
			}
			r.Check(bad == "", "companion-threshold", key, rb.Execute.Pos(), fmt.Sprintf("warn %d ≤ error %d", kb, ka), bad)
			bad = ""
			// windows and source
			wbad := ""
			if ra.Source != rb.Source {
				wbad = "different sources (scope gates differ)"
			}
			if ra.Eff.Set && ra.Eff.OK && rb.Eff.Set && rb.Eff.OK && rb.Eff.Unix > ra.Eff.Unix {
				wbad = "the warning lint becomes effective after the error lint"
			}
			if rb.Ineff.Set && rb.Ineff.OK && (!ra.Ineff.Set || rb.Ineff.Unix < ra.Ineff.Unix) {
				wbad = "the warning lint becomes ineffective before the error lint"
			}
			r.Check(wbad == "", "companion-window", key, rb.Call.Pos(), "same source, warning window ⊇ error window", wbad)
			continue
		}
		if bad != "" {
			r.Bad("pair-fingerprints", key, rb.Execute.Pos(), bad)
		} else {
			r.OK("pair-fingerprints", key, rb.Execute.Pos(), true, p.kind)
		}
		if len(r.Samples) < 4 {
			r.Sample(map[string]interface{}{"pair": key, "relation": p.kind, "execute_fingerprint_of_" + p.a: aE.Lines()})
		}
	}
	r.Floor("rule pairs", 23, n)
	r.Finish()
}

// isRepeatOf: the feature (with its multiplicity stripped) already occurs in
// the RFC copy — the BR copy applies the same rule once more (to the common name).
func isRepeatOf(f string, a Fingerprint) bool {
	i := strings.LastIndex(f, " ×")
	if i < 0 {
		return false
	}
	_, ok := a[f[:i]]
	return ok
}

var numRe = regexp.MustCompile(`(-?\d+) ×\d+$`)

func featureNumber(f string) (int64, bool) {
	m := numRe.FindStringSubmatch(f)
	if m == nil {
		return 0, false
	}
	n, err := strconv.ParseInt(m[1], 10, 64)
	return n, err == nil
}

func featureShape(f string) string {
	return numRe.ReplaceAllString(f, "N")
}
