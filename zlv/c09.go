package main

import (
	"fmt"
	"go/token"
	"go/types"
	"strings"

	"golang.org/x/tools/go/ssa"
)

func init() { register("C09", runC09) }

const zx509 = "github.com/zmap/zcrypto/x509"

// members of x509.Certificate whose value depends on the signature bits
var c09Forbidden = map[string]string{
	"FingerprintMD5": "hash over the whole certificate", "FingerprintSHA1": "hash over the whole certificate", "FingerprintSHA256": "hash over the whole certificate",
	"ValidationLevel": "not a TBS property",
}

var c09ForbiddenMethods = map[string]bool{
	"CheckSignature": true, "CheckSignatureFrom": true, "Verify": true, "ValidateWithStupidDetail": true, "CheckCRLSignature": true, "MarshalJSON": true,
	"checkSignature": true, "Validate": true,
}

func runC09(c *Ctx, tier string) {
	r := NewReport("C09", "other", tier, c)
	r.Explanation = "Access policy, over the SSA of every function of packages zlint, lint, util and lints/*, on the members of zcrypto's x509.Certificate whose value depends on the signature bits: (1) Signature may be loaded only where the sole use of the loaded value is len(); (2) SelfSigned may be read only by util.IsSelfSigned, which returns it unchanged, and in the zcrypto source as loaded every store to SelfSigned is the constant true in a block dominated by the true edge of bytes.Equal(RawSubject, RawIssuer) — so it can be true only for self-issued certificates; (3) the fingerprints over the whole certificate, ValidationLevel, and the verification / JSON methods of Certificate are not used at all; (4) Raw (which contains the signature) may flow only into len(), into the first argument of asn1.Unmarshal — whose target struct may then not be read at its third top-level component (the signature BIT STRING) or its RawContent, nor escape — or into a cryptobyte.String that is only the receiver of a single read yielding the outer SEQUENCE, from which at most the first two elements (tbsCertificate, signatureAlgorithm) are read and which is not otherwise used. (5) WHICH members are signature-dependent is not taken on trust: a forward taint over the SSA of zcrypto's x509.parseCertificate as loaded (sources in.SignatureValue and in.Raw; data flow through every instruction and call result, control dependence on tainted branches, callees handed the certificate summarised by their read/write sets over static calls inside zcrypto) re-derives the set on every run — today Raw, Signature, SelfSigned, the three whole-certificate fingerprints and ValidationLevel — and every derived member must be covered by rules 1-4; (6) every zcrypto function that code in scope hands the certificate to is summarised the same way and may not read a derived member (e.g. Certificate.Equal compares Raw). Does not decide that a decoder's success is independent of the signature bits (true for same-length BIT STRING contents — library semantics); reads through interface dispatch or reflection inside zcrypto are not followed."
	r.Rule("signature-len-only; selfsigned-reader; selfsigned-only-if-self-issued; forbidden-members; raw-decode-only; sig-derived-fields (taint of zcrypto parseCertificate); callee-reads")
	r.Trusted = []string{"go/ssa", "asn1.Unmarshal / cryptobyte decode fields positionally (ASN.1 Certificate = SEQUENCE{tbs, alg, sig})", "interface dispatch / reflection inside zcrypto is not followed by the taint pass; whether parsing SUCCEEDS is assumed independent of the signature bits"}

	c09Members(c, r)
	c09ZcryptoSelfSigned(c, r)
	F := c09ZcryptoTaint(c, r)
	c09CalleeReads(c, r, F)
	r.Finish()
}

func isCertPtr(t types.Type) bool {
	p, ok := t.Underlying().(*types.Pointer)
	if !ok {
		return false
	}
	n, ok := types.Unalias(p.Elem()).(*types.Named)
	return ok && n.Obj().Pkg() != nil && n.Obj().Pkg().Path() == zx509 && n.Obj().Name() == "Certificate"
}

func c09Members(c *Ctx, r *Report) {
	nSig, nSelf, nRaw := 0, 0, 0
	for _, f := range modFunctions(c) {
		if !scopePkg(fnPkgPath(f)) {
			continue
		}
		allInstrs(f, func(in ssa.Instruction) {
			// method calls on *x509.Certificate
			if call, ok := in.(ssa.CallInstruction); ok {
				if callee := call.Common().StaticCallee(); callee != nil && callee.Signature.Recv() != nil && isCertPtr(callee.Signature.Recv().Type()) {
					if c09ForbiddenMethods[callee.Name()] {
						r.Bad("forbidden-members", fname(f)+"|"+callee.Name(), in.Pos(), fmt.Sprintf("%s calls Certificate.%s, whose result depends on the signature value", fname(f), callee.Name()))
					}
				}
			}
			if mi, ok := in.(*ssa.MakeInterface); ok && isCertPtr(mi.X.Type()) {
				// the whole certificate handed to reflection-based code (fmt, json, reflect)
				r.Bad("forbidden-members", fname(f)+"|certificate-as-interface", in.Pos(), fname(f)+" passes the whole *x509.Certificate as an interface value (fmt/json/reflect can then read Signature, Raw and the fingerprints)")
			}
			fa, ok := in.(*ssa.FieldAddr)
			if !ok || !isCertPtr(fa.X.Type()) {
				return
			}
			name := fieldVar(fa).Name()
			id := fname(f) + "|" + name
			switch name {
			case "Signature":
				nSig++
				bad := ""
				for _, ref := range *fa.Referrers() {
					ld, ok := ref.(*ssa.UnOp)
					if !ok {
						bad = fmt.Sprintf("address of Signature used by %T", ref)
						continue
					}
					if w := onlyLenUses(ld, 0); w != "" {
						bad = w
					}
				}
				r.Check(bad == "", "signature-len-only", id, fa.Pos(), "only len(c.Signature)", fname(f)+" reads the signature value beyond its length: "+bad+" — verdicts would differ between a dummy-signed and the finally issued certificate")
			case "SelfSigned":
				nSelf++
				ok2 := fname(f) == "util.IsSelfSigned"
				if ok2 {
					// returns it unchanged
					for _, ret := range realReturns(f) {
						rv := retVals(ret)
						if len(rv) != 1 || apath(rv[0]) != f.Params[0].Name()+".SelfSigned" {
							ok2 = false
						}
					}
				}
				r.Check(ok2, "selfsigned-reader", id, fa.Pos(), "the single reader, returns the parser's flag", "SelfSigned (computed by the parser from the signature) is read in "+fname(f)+": only util.IsSelfSigned may, returning it unchanged")
			case "Raw":
				nRaw++
				bad := ""
				for _, ref := range *fa.Referrers() {
					ld, ok := ref.(*ssa.UnOp)
					if !ok {
						bad = fmt.Sprintf("address of Raw used by %T", ref)
						continue
					}
					if w := rawFlow(ld); w != "" {
						bad = w
					}
				}
				r.Check(bad == "", "raw-decode-only", id, fa.Pos(), "decoded; only tbsCertificate / signatureAlgorithm read", fname(f)+" uses the raw certificate (which contains the signature): "+bad)
			default:
				if why, ok := c09Forbidden[name]; ok {
					r.Bad("forbidden-members", id, fa.Pos(), fmt.Sprintf("%s reads Certificate.%s (%s): depends on the signature value", fname(f), name, why))
				}
			}
		})
	}
	r.Floor("Signature readers", 1, nSig)
	r.Floor("SelfSigned readers", 1, nSelf)
	r.Floor("Raw readers", 2, nRaw)
	r.OK("forbidden-members", "<census>", token.NoPos, false, "no use of fingerprints, ValidationLevel or verification methods in scope")
}

// onlyLenUses: every use of v is len(v) (through phis / copies).
func onlyLenUses(v ssa.Value, depth int) string {
	if depth > 5 {
		return "use chain too deep"
	}
	refs := v.Referrers()
	if refs == nil {
		return ""
	}
	for _, ref := range *refs {
		switch x := ref.(type) {
		case *ssa.DebugRef:
		case *ssa.Phi:
			if w := onlyLenUses(x, depth+1); w != "" {
				return w
			}
		case *ssa.Call:
			if b, ok := x.Call.Value.(*ssa.Builtin); ok && (b.Name() == "len" || b.Name() == "cap") {
				continue
			}
			return "passed to " + staticCalleeName(&x.Call)
		case *ssa.Store:
			// stored into a local cell: follow loads of the cell
			if a, ok := x.Addr.(*ssa.Alloc); ok && x.Val == v {
				for _, r2 := range *a.Referrers() {
					if ld, ok := r2.(*ssa.UnOp); ok && ld.Op == token.MUL {
						if w := onlyLenUses(ld, depth+1); w != "" {
							return w
						}
					}
				}
				continue
			}
			return "stored to " + apath(x.Addr)
		default:
			return fmt.Sprintf("used by %s (%T)", ref.String(), ref)
		}
	}
	return ""
}

// rawFlow polices where the loaded c.Raw may go.
func rawFlow(v ssa.Value) string {
	for _, ref := range *v.Referrers() {
		switch x := ref.(type) {
		case *ssa.DebugRef:
		case *ssa.Call:
			if b, ok := x.Call.Value.(*ssa.Builtin); ok && (b.Name() == "len" || b.Name() == "cap") {
				continue
			}
			name := staticCalleeName(&x.Call)
			if (strings.HasSuffix(name, "encoding/asn1.Unmarshal") || strings.HasSuffix(name, "encoding/asn1.UnmarshalWithParams")) && len(x.Call.Args) >= 2 && x.Call.Args[0] == v {
				if w := unmarshalTarget(x.Call.Args[1]); w != "" {
					return w
				}
				// the rest (trailing bytes) must not be inspected beyond its length
				continue
			}
			return "passed to " + name
		case *ssa.ChangeType:
			if strings.HasSuffix(x.Type().String(), "cryptobyte.String") {
				if w := cryptobyteOuter(x); w != "" {
					return w
				}
				continue
			}
			return "converted to " + x.Type().String()
		default:
			return fmt.Sprintf("used by %s (%T)", ref.String(), ref)
		}
	}
	return ""
}

// unmarshalTarget: the decoded struct may not be read at its third top-level
// component (signatureValue) or its RawContent, nor escape.
func unmarshalTarget(arg ssa.Value) string {
	a, ok := stripConv(arg).(*ssa.Alloc)
	if !ok {
		return "decoded into a target that is not a local variable"
	}
	st, ok := a.Type().Underlying().(*types.Pointer).Elem().Underlying().(*types.Struct)
	if !ok {
		return "decoded into a non-struct target (the whole certificate including the signature)"
	}
	first := 0
	if st.NumFields() > 0 && strings.HasSuffix(st.Field(0).Type().String(), "asn1.RawContent") {
		first = 1
	}
	for _, ref := range *a.Referrers() {
		switch x := ref.(type) {
		case *ssa.FieldAddr:
			idx := x.Field - first
			if x.Field < first {
				return "the decoded certificate's RawContent (all bytes, signature included) is read"
			}
			if idx >= 2 {
				return fmt.Sprintf("field %s of the decoded certificate — its third component, the signature value — is read", st.Field(x.Field).Name())
			}
		case *ssa.MakeInterface:
			// only as the Unmarshal argument
			for _, r2 := range *x.Referrers() {
				if call, ok := r2.(*ssa.Call); ok && strings.Contains(staticCalleeName(&call.Call), "asn1.Unmarshal") {
					continue
				}
				if _, ok := r2.(*ssa.DebugRef); ok {
					continue
				}
				return "the decoded certificate escapes to " + r2.String()
			}
		case *ssa.DebugRef:
		case *ssa.Store:
			if x.Addr != a {
				return "the decoded certificate is stored elsewhere"
			}
		case *ssa.UnOp:
			// whole-struct load
			return "the decoded certificate is copied as a whole (signature included)"
		default:
			return fmt.Sprintf("the decoded certificate is used by %T", ref)
		}
	}
	return ""
}

// cryptobyteOuter: input := cryptobyte.String(c.Raw) may only be read once
// (yielding the outer SEQUENCE), and from that at most two elements.
func cryptobyteOuter(conv *ssa.ChangeType) string {
	var cell *ssa.Alloc
	for _, ref := range *conv.Referrers() {
		switch x := ref.(type) {
		case *ssa.Store:
			if a, ok := x.Addr.(*ssa.Alloc); ok && x.Val == conv {
				cell = a
				continue
			}
			return "the raw certificate is stored to " + apath(x.Addr)
		case *ssa.DebugRef:
		default:
			return fmt.Sprintf("the raw certificate bytes are used by %s", ref.String())
		}
	}
	if cell == nil {
		return ""
	}
	reads, outer, why := cryptobyteReads(cell)
	if why != "" {
		return why
	}
	if reads != 1 || outer == nil {
		return fmt.Sprintf("the raw certificate is read %d times as a cryptobyte.String (expected one read of the outer SEQUENCE)", reads)
	}
	n, _, why := cryptobyteReads(outer)
	if why != "" {
		return why
	}
	if n > 2 {
		return fmt.Sprintf("%d elements are read from the certificate SEQUENCE: the third is the signature value", n)
	}
	return ""
}

// cryptobyteReads counts Read*/Skip* method calls with &cell as receiver; the
// first out-argument of a read is returned; any other use is reported.
func cryptobyteReads(cell *ssa.Alloc) (int, *ssa.Alloc, string) {
	n := 0
	var out *ssa.Alloc
	for _, ref := range *cell.Referrers() {
		switch x := ref.(type) {
		case *ssa.Call:
			name := staticCalleeName(&x.Call)
			if strings.Contains(name, "cryptobyte.String).Read") && len(x.Call.Args) > 1 && x.Call.Args[1] == ssa.Value(cell) && x.Call.Args[0] != ssa.Value(cell) {
				continue // this string is the out-argument of a read on another one
			}
			if !strings.Contains(name, "cryptobyte.String).") || len(x.Call.Args) == 0 || x.Call.Args[0] != ssa.Value(cell) {
				return 0, nil, "certificate bytes passed to " + name
			}
			m := name[strings.LastIndex(name, ".")+1:]
			if strings.HasPrefix(m, "Read") || strings.HasPrefix(m, "Skip") || strings.HasPrefix(m, "Peek") {
				n++
				if out == nil && len(x.Call.Args) > 1 {
					if a, ok := x.Call.Args[1].(*ssa.Alloc); ok {
						out = a
					}
				}
				continue
			}
			if m == "Empty" {
				continue
			}
			return 0, nil, "cryptobyte method " + m + " applied to bytes that include the signature"
		case *ssa.Store:
			if x.Addr == ssa.Value(cell) {
				continue
			}
			return 0, nil, "certificate bytes stored elsewhere"
		case *ssa.UnOp:
			// a load of the whole string: only allowed if unused beyond len
			if w := onlyLenUses(x, 0); w != "" {
				return 0, nil, "bytes that include the signature are " + w
			}
		case *ssa.DebugRef:
		default:
			return 0, nil, fmt.Sprintf("bytes that include the signature are used by %T", ref)
		}
	}
	return n, out, ""
}

// c09ZcryptoSelfSigned: in zcrypto's source every store to Certificate.SelfSigned
// is `true` guarded by bytes.Equal(RawSubject, RawIssuer).
func c09ZcryptoSelfSigned(c *Ctx, r *Report) {
	p := c.All[zx509]
	if p == nil {
		fault("unresolved anchor: package %s", zx509)
	}
	sp := c.Prog.Package(p.Types)
	n := 0
	var visit func(f *ssa.Function)
	seen := map[*ssa.Function]bool{}
	visit = func(f *ssa.Function) {
		if f == nil || seen[f] {
			return
		}
		seen[f] = true
		for _, a := range f.AnonFuncs {
			visit(a)
		}
		allInstrs(f, func(in ssa.Instruction) {
			st, ok := in.(*ssa.Store)
			if !ok {
				return
			}
			fa, ok := st.Addr.(*ssa.FieldAddr)
			if !ok || !isCertPtr(fa.X.Type()) || fieldVar(fa).Name() != "SelfSigned" {
				return
			}
			n++
			okGuard := false
			if k, isK := st.Val.(*ssa.Const); isK && k.Value != nil && k.Value.ExactString() == "true" {
				for d := st.Block(); d != nil; d = d.Idom() {
					id := d.Idom()
					if id == nil {
						break
					}
					iff, ok := id.Instrs[len(id.Instrs)-1].(*ssa.If)
					if !ok {
						continue
					}
					call, ok := iff.Cond.(*ssa.Call)
					if !ok || staticCalleeName(&call.Call) != "bytes.Equal" {
						continue
					}
					a0, a1 := apath(call.Call.Args[0]), apath(call.Call.Args[1])
					base := strings.TrimPrefix(apath(fa.X), "&")
					if ((a0 == base+".RawSubject" && a1 == base+".RawIssuer") || (a1 == base+".RawSubject" && a0 == base+".RawIssuer")) && len(id.Succs[0].Preds) == 1 && id.Succs[0].Dominates(st.Block()) {
						okGuard = true
					}
				}
			}
			r.Check(okGuard, "selfsigned-only-if-self-issued", fname(f), st.Pos(), "SelfSigned = true only under RawSubject == RawIssuer", "zcrypto sets Certificate.SelfSigned in "+fname(f)+" without the issuer-equals-subject guard: self-signedness (signature dependent) could be true for certificates that are not self-issued")
		})
	}
	for _, m := range sp.Members {
		switch x := m.(type) {
		case *ssa.Function:
			visit(x)
		case *ssa.Type:
			for _, T := range []types.Type{x.Type(), types.NewPointer(x.Type())} {
				ms := c.Prog.MethodSets.MethodSet(T)
				for i := 0; i < ms.Len(); i++ {
					if fo, ok := ms.At(i).Obj().(*types.Func); ok && fo.Pkg() == p.Types {
						visit(c.Prog.FuncValue(fo))
					}
				}
			}
		}
	}
	r.Floor("zcrypto stores to SelfSigned", 1, n)
}
