package main

// sym.go — engine E4: decision-table extraction. Enumerates every path of a
// loop-free SSA function (module callees inlined to a bounded depth), keeping
// branch conditions as uninterpreted terms over parameters, initial memory and
// calls. The result is a table  (conditions → outcome, ordered call/store
// trace)  which the property code compares with its specification by
// evaluating both on the finite abstract domain the atoms induce.

import (
	"fmt"
	"go/constant"
	"go/token"
	"go/types"
	"sort"
	"strings"

	"golang.org/x/tools/go/ssa"
)

// T is a symbolic term.
type T struct {
	Op    string // const param free global obj faddr iaddr load bin un call conv assert extract closure fn lookup index field slice make range next phi? nilcheck
	Name  string
	Args  []*T
	Seq   int // distinguishes repeated impure calls on one path
	Typ   types.Type
	K     constant.Value // for const
	Fn    *ssa.Function  // for fn/closure
	G     *ssa.Global    // for global
	Boxed bool           // a concrete value converted to an interface (MakeInterface): as an interface it is non-nil
	s     string
}

func (t *T) String() string {
	if t == nil {
		return "<nil>"
	}
	if t.s != "" {
		return t.s
	}
	var b strings.Builder
	switch t.Op {
	case "const":
		if t.K == nil {
			b.WriteString("nil")
		} else {
			b.WriteString(t.K.ExactString())
		}
	case "param":
		b.WriteString(t.Name)
	case "load":
		a := t.Args[0].String()
		if strings.HasPrefix(a, "&") {
			b.WriteString(a[1:])
		} else {
			b.WriteString("*" + a)
		}
	case "faddr":
		b.WriteString("&" + strings.TrimPrefix(t.Args[0].String(), "&") + "." + t.Name)
	case "iaddr":
		b.WriteString("&" + strings.TrimPrefix(t.Args[0].String(), "&") + "[" + t.Args[1].String() + "]")
	case "bin":
		b.WriteString("(" + t.Args[0].String() + " " + t.Name + " " + t.Args[1].String() + ")")
	case "un":
		b.WriteString(t.Name + t.Args[0].String())
	case "call":
		b.WriteString(t.Name)
		if t.Seq > 0 {
			fmt.Fprintf(&b, "#%d", t.Seq)
		}
		b.WriteString("(")
		for i, a := range t.Args {
			if i > 0 {
				b.WriteString(", ")
			}
			b.WriteString(a.String())
		}
		b.WriteString(")")
	default:
		b.WriteString(t.Op)
		if t.Name != "" {
			b.WriteString(":" + t.Name)
		}
		if len(t.Args) > 0 {
			b.WriteString("(")
			for i, a := range t.Args {
				if i > 0 {
					b.WriteString(", ")
				}
				b.WriteString(a.String())
			}
			b.WriteString(")")
		}
	}
	t.s = b.String()
	return t.s
}

func (t *T) IsConst() bool { return t != nil && t.Op == "const" }

func (t *T) IsNil() bool { return t != nil && t.Op == "const" && t.K == nil }

// CallNamed: t is a call to the named callee; returns its arguments.
func (t *T) CallNamed(name string) ([]*T, bool) {
	if t != nil && t.Op == "call" && t.Name == name {
		return t.Args, true
	}
	return nil, false
}

type Cond struct {
	T   *T
	Val bool
}

type Event struct {
	Kind   string // call | store | mapupdate | defer
	Name   string
	Args   []*T
	Result *T
	Pos    token.Pos
}

func (e Event) String() string {
	var as []string
	for _, a := range e.Args {
		as = append(as, a.String())
	}
	return e.Kind + " " + e.Name + "(" + strings.Join(as, ", ") + ")"
}

type Outcome struct {
	Kind    string // return | panic | abort
	Why     string
	Results []*T
	Conds   []Cond
	Trace   []Event
	Mem     map[string]*T
	Lit     map[string]*T // stores this path made into objects it allocated (survives havoc)
	Pos     token.Pos
}

// Field reads the final content of field f of a fresh object term.
func (o *Outcome) Field(obj *T, f string) *T {
	if obj == nil {
		return nil
	}
	key := "&" + strings.TrimPrefix(obj.String(), "&") + "." + f
	return o.Mem[key]
}

func (o *Outcome) CondString() string {
	var cs []string
	for _, c := range o.Conds {
		if c.Val {
			cs = append(cs, c.T.String())
		} else {
			cs = append(cs, "!"+c.T.String())
		}
	}
	return strings.Join(cs, " ∧ ")
}

func (o *Outcome) Summary() map[string]interface{} {
	var rs, tr []string
	for _, r := range o.Results {
		s := r.String()
		if r.Op == "obj" {
			var fs []string
			for k, v := range o.Mem {
				if strings.HasPrefix(k, r.String()+".") {
					fs = append(fs, strings.TrimPrefix(k, r.String()+".")+"="+v.String())
				}
			}
			sort.Strings(fs)
			s += "{" + strings.Join(fs, ", ") + "}"
		}
		rs = append(rs, s)
	}
	for _, e := range o.Trace {
		tr = append(tr, e.String())
	}
	return map[string]interface{}{"when": o.CondString(), "kind": o.Kind, "results": rs, "trace": tr}
}

// SymOpts configure an enumeration.
type SymOpts struct {
	MaxDepth  int                             // inlining depth
	MaxPaths  int                             // abort beyond
	Inline    func(callee *ssa.Function) bool // which module callees to inline (default: all module functions with bodies)
	Pure      func(name string) bool          // calls that are functions of their arguments (no Seq, no trace)
	LoopBound int                             // how many times a block may be re-entered on one path (0: loops abort the path)
	Assume    func(cond *T) (bool, bool)      // fixes the outcome of a branch condition (value, decided) to restrict the enumeration
	Opaque    func(callee *ssa.Function) bool // never inline these, not even when they are newer than the rules
	NoReturn  func(name string) bool          // calls that terminate the process (log.Fatal…): the path ends with outcome kind "exit"
	Lists     bool                            // model slices the function builds itself (make(.., 0, ..) / nil + append) as explicit lists: len and constant indexing see through them
}

type symState struct {
	env    map[ssa.Value]*T
	mem    map[string]*T
	conds  []Cond
	ckey   map[string]bool
	trace  []Event
	seq    map[string]int
	nobj   int
	visit  map[*ssa.BasicBlock]int
	defers []*ssa.Defer
	// lit: what this path itself stored into objects it allocated (composite literals,
	// field initialisation) — kept when a later callee that is handed the object
	// makes mem forget it
	lit map[string]*T
	// concrete: header visits on this path whose test was decided by constant folding (capped)
	concrete int
}

func (s *symState) clone() *symState {
	n := &symState{env: make(map[ssa.Value]*T, len(s.env)), mem: make(map[string]*T, len(s.mem)), ckey: make(map[string]bool, len(s.ckey)), seq: make(map[string]int, len(s.seq)), nobj: s.nobj, visit: make(map[*ssa.BasicBlock]int, len(s.visit)), concrete: s.concrete, lit: make(map[string]*T, len(s.lit))}
	for k, v := range s.lit {
		n.lit[k] = v
	}
	for k, v := range s.env {
		n.env[k] = v
	}
	for k, v := range s.mem {
		n.mem[k] = v
	}
	for k, v := range s.ckey {
		n.ckey[k] = v
	}
	for k, v := range s.seq {
		n.seq[k] = v
	}
	for k, v := range s.visit {
		n.visit[k] = v
	}
	n.conds = append([]Cond(nil), s.conds...)
	n.trace = append([]Event(nil), s.trace...)
	n.defers = append([]*ssa.Defer(nil), s.defers...)
	return n
}

type Sym struct {
	opts  SymOpts
	steps int
	paths int
	abort string
	out   []*Outcome
}

func defaultPure(name string) bool {
	switch {
	case strings.HasPrefix(name, "(time.Time)."), strings.HasPrefix(name, "strings."), strings.HasPrefix(name, "builtin:len"), strings.HasPrefix(name, "builtin:cap"),
		strings.HasSuffix(name, "asn1.ObjectIdentifier).Equal"), strings.HasSuffix(name, "asn1.ObjectIdentifier).String"),
		strings.HasPrefix(name, "(net.IP)."), strings.HasPrefix(name, "(*net.IPNet).Contains"):
		return true
	}
	return false
}

// Enumerate returns the decision table of fn.
func Enumerate(fn *ssa.Function, opts SymOpts) ([]*Outcome, string) {
	if opts.MaxDepth == 0 {
		opts.MaxDepth = 3
	}
	if opts.MaxPaths == 0 {
		opts.MaxPaths = 20000
	}
	if opts.Pure == nil {
		opts.Pure = defaultPure
	}
	if opts.Inline == nil {
		opts.Inline = func(f *ssa.Function) bool { return isModFunc(f) && len(f.Blocks) > 0 }
	}
	// functions the reference tree did not have are always transparent (newfuncs.go)
	origInline := opts.Inline
	opaque := opts.Opaque
	opts.Inline = func(f *ssa.Function) bool {
		if opaque != nil && opaque(f) {
			return false
		}
		// function literals written inside the function under analysis are its own code
		if f.Parent() != nil && outermost(f) == fn {
			return true
		}
		return origInline(f) || isNewFunc(f) || isTransparentLib(f)
	}
	sy := &Sym{opts: opts}
	st := &symState{env: map[ssa.Value]*T{}, mem: map[string]*T{}, ckey: map[string]bool{}, seq: map[string]int{}, visit: map[*ssa.BasicBlock]int{}}
	var args []*T
	for _, p := range fn.Params {
		args = append(args, &T{Op: "param", Name: p.Name(), Typ: p.Type()})
	}
	sy.execFn(fn, args, nil, st, 0, func(kind, why string, res []*T, s *symState, pos token.Pos) {
		// a returned term that this path has seen to be nil (err = f(); if err != nil {…};
		// return err) is nil
		for i, rt := range res {
			if rt == nil || rt.Op == "const" {
				continue
			}
			for _, cd := range s.conds {
				if cd.Val && cd.T.Op == "bin" && cd.T.Name == "==" && len(cd.T.Args) == 2 && cd.T.Args[1].IsNil() && (cd.T.Args[0] == rt || cd.T.Args[0].String() == rt.String()) {
					res = append([]*T(nil), res...)
					res[i] = &T{Op: "const", Typ: rt.Typ}
					break
				}
			}
		}
		sy.out = append(sy.out, &Outcome{Kind: kind, Why: why, Results: res, Conds: s.conds, Trace: s.trace, Mem: s.mem, Lit: s.lit, Pos: pos})
	})
	return sy.out, sy.abort
}

// boundMethod: f is the synthetic wrapper go/ssa makes for a method value x.M;
// returns M.
func boundMethod(f *ssa.Function) *ssa.Function {
	if f == nil || !strings.HasPrefix(f.Synthetic, "bound method wrapper") {
		return nil
	}
	if m, ok := f.Object().(*types.Func); ok && f.Prog != nil {
		return f.Prog.FuncValue(m)
	}
	return nil
}

type contFn func(kind, why string, res []*T, s *symState, pos token.Pos)

func (sy *Sym) execFn(fn *ssa.Function, args []*T, bindings []*T, st *symState, depth int, k contFn) {
	if len(fn.Blocks) == 0 {
		k("abort", "function without body: "+fname(fn), nil, st, fn.Pos())
		return
	}
	// fresh value environment for the callee frame, shared memory/trace
	saved := st.env
	savedVisit := st.visit
	savedDefers := st.defers
	st.env = map[ssa.Value]*T{}
	st.visit = map[*ssa.BasicBlock]int{}
	st.defers = nil
	for i, p := range fn.Params {
		if i < len(args) {
			st.env[p] = args[i]
		}
	}
	for i, fv := range fn.FreeVars {
		if i < len(bindings) {
			st.env[fv] = bindings[i]
		}
	}
	sy.execBlock(fn, fn.Blocks[0], nil, st, depth, func(kind, why string, res []*T, s *symState, pos token.Pos) {
		// restore caller frame on the (possibly cloned) state
		s.env = cloneEnv(saved)
		s.visit = cloneVisit(savedVisit)
		s.defers = append([]*ssa.Defer(nil), savedDefers...)
		k(kind, why, res, s, pos)
	})
}

func cloneEnv(m map[ssa.Value]*T) map[ssa.Value]*T {
	n := make(map[ssa.Value]*T, len(m))
	for k, v := range m {
		n[k] = v
	}
	return n
}

func cloneVisit(m map[*ssa.BasicBlock]int) map[*ssa.BasicBlock]int {
	n := make(map[*ssa.BasicBlock]int, len(m))
	for k, v := range m {
		n[k] = v
	}
	return n
}

func (sy *Sym) val(st *symState, v ssa.Value) *T {
	if t, ok := st.env[v]; ok {
		return t
	}
	switch x := v.(type) {
	case *ssa.Const:
		return &T{Op: "const", K: x.Value, Typ: x.Type()}
	case *ssa.Global:
		return &T{Op: "global", Name: relPkg(x.Pkg.Pkg.Path()) + "." + x.Name(), Typ: x.Type(), G: x, s: "&" + relPkg(x.Pkg.Pkg.Path()) + "." + x.Name()}
	case *ssa.Function:
		return &T{Op: "fn", Name: fname(x), Fn: x, Typ: x.Type()}
	case *ssa.Builtin:
		return &T{Op: "builtin", Name: x.Name()}
	}
	return &T{Op: "unknown", Name: fmt.Sprintf("%T:%s", v, v.Name())}
}

func (sy *Sym) execBlock(fn *ssa.Function, b *ssa.BasicBlock, pred *ssa.BasicBlock, st *symState, depth int, k contFn) {
	if sy.abort != "" {
		return
	}
	// hard budget on the work of one enumeration: a table that needs more than this is
	// not a finite decision table in any useful sense (reported as undecided)
	sy.steps++
	if sy.steps > 400000 {
		sy.abort = "enumeration exceeds 400000 block executions (not a small decision table)"
		return
	}
	st.visit[b]++
	if st.visit[b] > 1+sy.opts.LoopBound {
		kind := "abort"
		if sy.opts.LoopBound > 0 {
			kind = "cut" // bounded unrolling: the path is abandoned, not misunderstood
		}
		k(kind, fmt.Sprintf("loop: block %d of %s re-entered", b.Index, fname(fn)), nil, st, token.NoPos)
		return
	}
	// phis first (parallel assignment)
	if pred != nil {
		idx := -1
		for i, p := range b.Preds {
			if p == pred {
				idx = i
			}
		}
		var vals []*T
		var phis []*ssa.Phi
		for _, in := range b.Instrs {
			phi, ok := in.(*ssa.Phi)
			if !ok {
				break
			}
			phis = append(phis, phi)
			vals = append(vals, sy.val(st, phi.Edges[idx]))
		}
		for i, phi := range phis {
			st.env[phi] = vals[i]
		}
	}
	sy.execFrom(fn, b, 0, st, depth, k)
}

func (sy *Sym) execFrom(fn *ssa.Function, b *ssa.BasicBlock, start int, st *symState, depth int, k contFn) {
	for i := start; i < len(b.Instrs); i++ {
		in := b.Instrs[i]
		switch x := in.(type) {
		case *ssa.Phi, *ssa.DebugRef:
			continue
		case *ssa.Alloc:
			st.nobj++
			name := fmt.Sprintf("o%d", st.nobj)
			if x.Comment != "" {
				name += "<" + x.Comment + ">"
			}
			st.env[x] = &T{Op: "obj", Name: name, Typ: x.Type(), s: "&" + name}
		case *ssa.MakeMap:
			st.nobj++
			st.env[x] = &T{Op: "obj", Name: fmt.Sprintf("map%d", st.nobj), Typ: x.Type(), s: fmt.Sprintf("map%d", st.nobj)}
		case *ssa.MakeSlice:
			if k, ok := x.Len.(*ssa.Const); ok && sy.opts.Lists && k.Value != nil && k.Value.ExactString() == "0" {
				st.env[x] = &T{Op: "concat", Typ: x.Type(), s: ""}
				break
			}
			st.nobj++
			st.env[x] = &T{Op: "obj", Name: fmt.Sprintf("slice%d", st.nobj), Typ: x.Type(), s: fmt.Sprintf("slice%d", st.nobj)}
		case *ssa.FieldAddr:
			stt := x.X.Type().Underlying().(*types.Pointer).Elem().Underlying().(*types.Struct)
			st.env[x] = &T{Op: "faddr", Name: stt.Field(x.Field).Name(), Args: []*T{sy.val(st, x.X)}, Typ: x.Type()}
		case *ssa.Field:
			stt := x.X.Type().Underlying().(*types.Struct)
			base := sy.val(st, x.X)
			st.env[x] = &T{Op: "field", Name: stt.Field(x.Field).Name(), Args: []*T{base}, Typ: x.Type(), s: base.String() + "." + stt.Field(x.Field).Name()}
		case *ssa.IndexAddr:
			base := sy.val(st, x.X)
			if base.Op == "slice" && base.K != nil && len(base.Args) == 4 && rootsAtObj(base.Args[0]) {
				base = base.Args[0] // element i of a[:] is element i of the local array a
			}
			if base.Op == "concat" {
				if e := concatElem(base, sy.val(st, x.Index)); e != nil {
					st.env[x] = &T{Op: "celem", Args: []*T{e}, Typ: x.Type()}
					break
				}
			}
			st.env[x] = &T{Op: "iaddr", Args: []*T{base, sy.val(st, x.Index)}, Typ: x.Type()}
		case *ssa.Index:
			base, idx := sy.val(st, x.X), sy.val(st, x.Index)
			if ft := frozenGlobalOfTerm(base); ft != nil && !ft.IsMap {
				xx := x
				sy.frozenSelect(ft, idx, st, func(s *symState, v *T) {
					s.env[xx] = v
					sy.execFrom(fn, b, i+1, s, depth, k)
				}, func(s *symState) {
					s.env[xx] = zeroTerm(ft.ElemTyp, nil) // in range (the bounds check passed) but not listed in the literal
					sy.execFrom(fn, b, i+1, s, depth, k)
				})
				return
			}
			st.env[x] = &T{Op: "index", Args: []*T{base, idx}, Typ: x.Type()}
		case *ssa.Lookup:
			m, key := sy.val(st, x.X), sy.val(st, x.Index)
			if ft := frozenGlobalOfTerm(m); ft != nil && ft.IsMap {
				xx := x
				sy.frozenSelect(ft, key, st, func(s *symState, v *T) {
					if xx.CommaOk {
						s.env[xx] = &T{Op: "tuple", Args: []*T{v, {Op: "const", K: constant.MakeBool(true), Typ: types.Typ[types.Bool]}}}
					} else {
						s.env[xx] = v
					}
					sy.execFrom(fn, b, i+1, s, depth, k)
				}, func(s *symState) {
					z := zeroTerm(ft.ElemTyp, nil)
					if xx.CommaOk {
						s.env[xx] = &T{Op: "tuple", Args: []*T{z, {Op: "const", K: constant.MakeBool(false), Typ: types.Typ[types.Bool]}}}
					} else {
						s.env[xx] = z
					}
					sy.execFrom(fn, b, i+1, s, depth, k)
				})
				return
			}
			if v, ok := st.mem[m.String()+"["+key.String()+"]"]; ok && !x.CommaOk {
				st.env[x] = v
			} else {
				name := ""
				if x.CommaOk {
					name = "commaok"
				}
				st.env[x] = &T{Op: "lookup", Name: name, Args: []*T{m, key}, Typ: x.Type()}
			}
		case *ssa.Slice:
			args := []*T{sy.val(st, x.X)}
			for _, o := range []ssa.Value{x.Low, x.High, x.Max} {
				if o != nil {
					args = append(args, sy.val(st, o))
				} else {
					args = append(args, &T{Op: "none", s: "_"})
				}
			}
			t := &T{Op: "slice", Args: args, Typ: x.Type()}
			// a[:] of a local array (a variadic call's argument list, an array literal):
			// its length is the array's
			if x.Low == nil && x.High == nil && x.Max == nil {
				if pt, ok := x.X.Type().Underlying().(*types.Pointer); ok {
					if at, ok := pt.Elem().Underlying().(*types.Array); ok {
						t.K = constant.MakeInt64(at.Len())
					}
				}
			}
			st.env[x] = t
		case *ssa.Store:
			addr, v := sy.val(st, x.Addr), sy.val(st, x.Val)
			st.mem[addr.String()] = v
			if rootsAtObj(addr) {
				if st.lit == nil {
					st.lit = map[string]*T{}
				}
				st.lit[addr.String()] = v
			}
			if !rootsAtObj(addr) {
				st.trace = append(st.trace, Event{Kind: "store", Name: addr.String(), Args: []*T{v}, Pos: x.Pos()})
			}
		case *ssa.MapUpdate:
			m, key, v := sy.val(st, x.Map), sy.val(st, x.Key), sy.val(st, x.Value)
			st.mem[m.String()+"["+key.String()+"]"] = v
			st.trace = append(st.trace, Event{Kind: "mapupdate", Name: m.String(), Args: []*T{key, v}, Pos: x.Pos()})
		case *ssa.UnOp:
			a := sy.val(st, x.X)
			switch x.Op {
			case token.MUL:
				if a.Op == "celem" {
					st.env[x] = a.Args[0]
					break
				}
				if a.Op == "iaddr" && len(a.Args) == 2 {
					if ft := frozenGlobalOfTerm(a.Args[0]); ft != nil && !ft.IsMap {
						xx := x
						sy.frozenSelect(ft, a.Args[1], st, func(s *symState, v *T) {
							s.env[xx] = v
							sy.execFrom(fn, b, i+1, s, depth, k)
						}, func(s *symState) {
							s.env[xx] = zeroTerm(ft.ElemTyp, nil)
							sy.execFrom(fn, b, i+1, s, depth, k)
						})
						return
					}
				}
				if v, ok := st.mem[a.String()]; ok {
					st.env[x] = v
				} else if v := loadFromAggregate(st, a, x.Type()); v != nil {
					st.env[x] = v
				} else if a.Op == "obj" || rootsAtObj(a) {
					// never-written cell of a fresh object: the zero value
					st.env[x] = zeroTerm(x.Type(), a)
				} else {
					st.env[x] = &T{Op: "load", Args: []*T{a}, Typ: x.Type()}
				}
			case token.NOT:
				st.env[x] = notT(a)
			default:
				st.env[x] = &T{Op: "un", Name: x.Op.String(), Args: []*T{a}, Typ: x.Type()}
			}
		case *ssa.BinOp:
			st.env[x] = binT(x.Op, sy.val(st, x.X), sy.val(st, x.Y), x.Type())
		case *ssa.ChangeType:
			st.env[x] = sy.val(st, x.X)
		case *ssa.ChangeInterface:
			st.env[x] = sy.val(st, x.X)
		case *ssa.MakeInterface:
			// boxing: the interface value is never nil, whatever it holds (a typed
			// nil pointer in an interface compares unequal to nil)
			in := sy.val(st, x.X)
			if _, isIface := x.X.Type().Underlying().(*types.Interface); !isIface && !in.IsNil() {
				b := *in
				b.Boxed = true
				st.env[x] = &b
			} else {
				st.env[x] = in
			}
		case *ssa.Convert:
			a := sy.val(st, x.X)
			if a.Op == "const" {
				st.env[x] = &T{Op: "const", K: a.K, Typ: x.Type()}
			} else {
				st.env[x] = &T{Op: "conv", Name: shortType(x.Type()), Args: []*T{a}, Typ: x.Type()}
			}
		case *ssa.SliceToArrayPointer:
			st.env[x] = sy.val(st, x.X)
		case *ssa.TypeAssert:
			name := shortType(x.AssertedType)
			if x.CommaOk {
				name += ",ok"
			}
			st.env[x] = &T{Op: "assert", Name: name, Args: []*T{sy.val(st, x.X)}, Typ: x.Type()}
		case *ssa.Extract:
			tup := sy.val(st, x.Tuple)
			if tup.Op == "tuple" && x.Index < len(tup.Args) {
				st.env[x] = tup.Args[x.Index]
			} else {
				st.env[x] = &T{Op: "extract", Name: fmt.Sprint(x.Index), Args: []*T{tup}, Typ: x.Type()}
			}
		case *ssa.MakeClosure:
			var bs []*T
			for _, bv := range x.Bindings {
				bs = append(bs, sy.val(st, bv))
			}
			f := x.Fn.(*ssa.Function)
			st.env[x] = &T{Op: "closure", Name: fname(f), Fn: f, Args: bs, Typ: x.Type()}
		case *ssa.Range:
			st.env[x] = &T{Op: "range", Args: []*T{sy.val(st, x.X)}, Typ: x.Type()}
		case *ssa.Next:
			st.visit[nil]++ // distinct iterations yield distinct terms
			st.env[x] = &T{Op: "next", Name: fmt.Sprint(st.visit[nil]), Args: []*T{sy.val(st, x.Iter)}, Typ: x.Type()}
		case *ssa.Defer:
			st.defers = append(st.defers, x)
			// bind the operands now (Go evaluates defer arguments at the defer statement)
			for _, op := range x.Operands(nil) {
				if *op != nil {
					st.env[*op] = sy.val(st, *op)
				}
			}
		case *ssa.RunDefers:
			sy.runDefers(fn, b, i, st, depth, k)
			return
		case *ssa.Call:
			sy.execCall(fn, b, i, x, st, depth, k)
			return
		case *ssa.Go, *ssa.Select, *ssa.Send:
			k("abort", fmt.Sprintf("unsupported instruction %T in %s", in, fname(fn)), nil, st, in.Pos())
			return
		case *ssa.Panic:
			k("panic", sy.val(st, x.X).String(), nil, st, x.Pos())
			return
		case *ssa.Jump:
			sy.execBlock(fn, b.Succs[0], b, st, depth, k)
			return
		case *ssa.If:
			sy.execIf(fn, b, x, st, depth, k)
			return
		case *ssa.Return:
			var res []*T
			for _, rv := range x.Results {
				res = append(res, sy.val(st, rv))
			}
			sy.paths++
			if sy.paths > sy.opts.MaxPaths {
				sy.abort = fmt.Sprintf("more than %d paths", sy.opts.MaxPaths)
				return
			}
			k("return", "", res, st, x.Pos())
			return
		default:
			k("abort", fmt.Sprintf("unsupported instruction %T in %s", in, fname(fn)), nil, st, in.Pos())
			return
		}
	}
}

// loadFromAggregate: a field (of a field ...) of a local object into which a
// whole struct value V was stored reads as V.f.g.
func loadFromAggregate(st *symState, a *T, typ types.Type) *T {
	var fields []string
	cur := a
	for cur != nil && cur.Op == "faddr" {
		fields = append([]string{cur.Name}, fields...)
		cur = cur.Args[0]
		if v, ok := st.mem[cur.String()]; ok {
			if v.Op == "havoc" {
				return nil
			}
			s := v.String()
			for _, f := range fields {
				s += "." + f
			}
			return &T{Op: "field", Name: fields[len(fields)-1], Args: []*T{v}, Typ: typ, s: s}
		}
	}
	return nil
}

// isAddr: the term denotes an address (of a local object or one of its parts).
func isAddr(a *T) bool {
	if a.Op == "faddr" || a.Op == "iaddr" {
		return true
	}
	if a.Op == "obj" {
		return strings.HasPrefix(a.String(), "&")
	}
	return false
}

func rootsAtObj(a *T) bool {
	for a != nil {
		switch a.Op {
		case "obj":
			return true
		case "faddr", "iaddr":
			a = a.Args[0]
		default:
			return false
		}
	}
	return false
}

func zeroTerm(t types.Type, addr *T) *T {
	switch u := t.Underlying().(type) {
	case *types.Basic:
		switch {
		case u.Info()&types.IsBoolean != 0:
			return &T{Op: "const", K: constant.MakeBool(false), Typ: t}
		case u.Info()&types.IsString != 0:
			return &T{Op: "const", K: constant.MakeString(""), Typ: t}
		case u.Info()&types.IsNumeric != 0:
			return &T{Op: "const", K: constant.MakeInt64(0), Typ: t}
		}
	case *types.Pointer, *types.Slice, *types.Map, *types.Interface, *types.Signature, *types.Chan:
		return &T{Op: "const", K: nil, Typ: t}
	}
	return &T{Op: "zero", Name: shortType(t), Typ: t}
}

func notT(a *T) *T {
	if a.Op == "un" && a.Name == "!" {
		return a.Args[0]
	}
	if a.Op == "const" && a.K != nil && a.K.Kind() == constant.Bool {
		return &T{Op: "const", K: constant.MakeBool(!constant.BoolVal(a.K)), Typ: a.Typ}
	}
	return &T{Op: "un", Name: "!", Args: []*T{a}, Typ: a.Typ}
}

// binT builds a binary term, normalising comparisons to == and < with the
// constant (if any) on the right, and folding constants.
func binT(op token.Token, x, y *T, typ types.Type) *T {
	if e := strLenTest(op, x, y, typ); e != nil {
		return e
	}
	if (op == token.EQL || op == token.NEQ) && ((x.Boxed && y.IsNil()) || (y.Boxed && x.IsNil())) {
		return &T{Op: "const", K: constant.MakeBool(op == token.NEQ), Typ: typ}
	}
	// errors.New / fmt.Errorf always return a non-nil error
	if (op == token.EQL || op == token.NEQ) && ((neverNilCall(x) && y.IsNil()) || (neverNilCall(y) && x.IsNil())) {
		return &T{Op: "const", K: constant.MakeBool(op == token.NEQ), Typ: typ}
	}
	if x.IsNil() && y.IsNil() && (op == token.EQL || op == token.NEQ) {
		return &T{Op: "const", K: constant.MakeBool(op == token.EQL), Typ: typ}
	}
	if x.Op == "const" && y.Op == "const" && x.K != nil && y.K != nil {
		switch op {
		case token.EQL, token.NEQ, token.LSS, token.LEQ, token.GTR, token.GEQ:
			if x.K.Kind() == y.K.Kind() || (x.K.Kind() != constant.String && y.K.Kind() != constant.String && x.K.Kind() != constant.Bool) {
				return &T{Op: "const", K: constant.MakeBool(constant.Compare(x.K, op, y.K)), Typ: typ}
			}
		case token.ADD, token.SUB, token.MUL, token.AND, token.OR, token.XOR, token.REM, token.QUO:
			if x.K.Kind() == constant.Int && y.K.Kind() == constant.Int {
				if (op == token.REM || op == token.QUO) && constant.Sign(y.K) == 0 {
					break
				}
				o := op
				if op == token.QUO {
					o = token.QUO_ASSIGN
				}
				return &T{Op: "const", K: constant.BinaryOp(x.K, o, y.K), Typ: typ}
			}
		}
	}
	mk := func(name string, a, b *T) *T { return &T{Op: "bin", Name: name, Args: []*T{a, b}, Typ: typ} }
	switch op {
	case token.EQL, token.NEQ:
		if x.Op == "const" && y.Op != "const" {
			x, y = y, x
		} else if x.Op != "const" && y.Op != "const" && x.String() > y.String() {
			x, y = y, x
		}
		e := mk("==", x, y)
		if op == token.NEQ {
			return notT(e)
		}
		return e
	case token.LSS:
		return mk("<", x, y)
	case token.GTR:
		return mk("<", y, x)
	case token.LEQ:
		return notT(mk("<", y, x))
	case token.GEQ:
		return notT(mk("<", x, y))
	}
	return mk(op.String(), x, y)
}

// concatElem: element idx (a constant) of a list the function built itself:
// explicit elements first, then — only as the last part — the elements of an
// appended list L, as L[idx - number of explicit elements].
func concatElem(c *T, idx *T) *T {
	if idx.Op != "const" || idx.K == nil {
		return nil
	}
	i, ok := constant.Int64Val(idx.K)
	if !ok || i < 0 {
		return nil
	}
	for pi, p := range c.Args {
		if p.Op == "spread" {
			if pi != len(c.Args)-1 {
				return nil
			}
			ia := &T{Op: "iaddr", Args: []*T{p.Args[0], {Op: "const", K: constant.MakeInt64(i), Typ: types.Typ[types.Int]}}}
			return &T{Op: "load", Args: []*T{ia}}
		}
		if i == 0 {
			return p
		}
		i--
	}
	return nil
}

func neverNilCall(t *T) bool {
	if t == nil {
		return false
	}
	if t.Op == "call" && (t.Name == "errors.New" || t.Name == "fmt.Errorf") {
		return true
	}
	// a package-level sentinel error (var errX = errors.New(...), never reassigned)
	if t.Op == "load" && len(t.Args) == 1 && t.Args[0].Op == "global" && t.Args[0].G != nil && sentinelError(t.Args[0].G) {
		return true
	}
	// the address of an object allocated on this path (&T{…}, new(T)) is never nil
	return t.Op == "obj" && strings.HasPrefix(t.String(), "&")
}

// strLenTest: comparisons of len(s) with 0 / 1 for a string s are the same
// predicate as s == "" — one canonical form, so `len(s) > 0`, `len(s) != 0`
// and `s != ""` give identical tables.
func strLenTest(op token.Token, x, y *T, typ types.Type) *T {
	isLenOfString := func(t *T) *T {
		if t == nil || t.Op != "call" || t.Name != "builtin:len" || len(t.Args) != 1 || t.Args[0].Typ == nil {
			return nil
		}
		if b, ok := t.Args[0].Typ.Underlying().(*types.Basic); ok && b.Info()&types.IsString != 0 {
			return t.Args[0]
		}
		return nil
	}
	kInt := func(t *T) (int64, bool) {
		if t == nil || t.Op != "const" || t.K == nil || t.K.Kind() != constant.Int {
			return 0, false
		}
		return constant.Int64Val(t.K)
	}
	s := isLenOfString(x)
	k, ok := kInt(y)
	if s == nil || !ok {
		// mirrored: const OP len(s)
		s = isLenOfString(y)
		k, ok = kInt(x)
		if s == nil || !ok {
			return nil
		}
		switch op {
		case token.LSS:
			op = token.GTR
		case token.GTR:
			op = token.LSS
		case token.LEQ:
			op = token.GEQ
		case token.GEQ:
			op = token.LEQ
		}
	}
	empty := &T{Op: "bin", Name: "==", Args: []*T{s, {Op: "const", K: constant.MakeString(""), Typ: s.Typ}}, Typ: typ}
	switch {
	case (op == token.EQL && k == 0) || (op == token.LSS && k == 1) || (op == token.LEQ && k == 0):
		return empty
	case (op == token.NEQ && k == 0) || (op == token.GTR && k == 0) || (op == token.GEQ && k == 1):
		return notT(empty)
	}
	return nil
}

func (sy *Sym) execIf(fn *ssa.Function, b *ssa.BasicBlock, x *ssa.If, st *symState, depth int, k contFn) {
	// a test decided by the values on this path (the counter of a loop over a
	// literal list against its constant length): this visit of the block does not
	// use up the unrolling bound — up to a hard cap, so a constant-true loop still ends
	if c := sy.val(st, x.Cond); c.Op == "const" && c.K != nil && c.K.Kind() == constant.Bool && st.concrete < 64 && st.visit[b] > 0 {
		st.concrete++
		st.visit[b]--
		for d := range st.visit {
			if d != b && d.Parent() == b.Parent() && b.Dominates(d) {
				delete(st.visit, d) // the blocks of the iteration about to start count afresh
			}
		}
	}
	sy.branchOn(sy.val(st, x.Cond), st,
		func(s *symState) { sy.execBlock(fn, b.Succs[0], b, s, depth, k) },
		func(s *symState) { sy.execBlock(fn, b.Succs[1], b, s, depth, k) })
}

// branchOn continues with yes / no according to the condition c: decided at
// once when c is constant, already decided on this path or fixed by Assume;
// otherwise both ways on cloned states with the condition recorded.
func (sy *Sym) branchOn(c *T, st *symState, yes, no func(s *symState)) {
	pol := true
	for c.Op == "un" && c.Name == "!" {
		c = c.Args[0]
		pol = !pol
	}
	pick := func(v bool, s *symState) {
		if v == pol {
			yes(s)
		} else {
			no(s)
		}
	}
	if c.Op == "const" && c.K != nil && c.K.Kind() == constant.Bool {
		// decided by the values on this path (a counted loop over a literal list):
		// such an iteration does not use up the unrolling bound, up to a hard cap
		pick(constant.BoolVal(c.K), st)
		return
	}
	key := c.String()
	if sy.opts.Assume != nil {
		if v, ok := sy.opts.Assume(c); ok {
			if _, seen := st.ckey[key]; !seen {
				st.ckey[key] = v
				st.conds = append(st.conds, Cond{c, v})
			}
		}
	}
	if v, ok := st.ckey[key]; ok {
		pick(v, st)
		return
	}
	for _, v := range []bool{true, false} {
		if !consistent(st, c, v) {
			continue
		}
		s2 := st.clone()
		s2.ckey[key] = v
		s2.conds = append(s2.conds, Cond{c, v})
		pick(v, s2)
	}
}

// frozenSelect continues with the element of a frozen table selected by key:
// one branch per entry under key == K, then the absent branch — the chain of
// comparisons a switch over the same constants compiles to.
func (sy *Sym) frozenSelect(ft *FrozenTable, key *T, st *symState, found func(s *symState, v *T), absent func(s *symState)) {
	if key.Op == "const" {
		for _, e := range ft.Entries {
			if constKeyEqual(e.Key, key.K) {
				found(st, frozenValTerm(e.Val, ft.ElemTyp))
				return
			}
		}
		absent(st)
		return
	}
	var step func(i int, s *symState)
	step = func(i int, s *symState) {
		if i >= len(ft.Entries) {
			absent(s)
			return
		}
		e := ft.Entries[i]
		c := binT(token.EQL, key, &T{Op: "const", K: e.Key, Typ: key.Typ}, types.Typ[types.Bool])
		sy.branchOn(c, s, func(s2 *symState) { found(s2, frozenValTerm(e.Val, ft.ElemTyp)) }, func(s2 *symState) { step(i+1, s2) })
	}
	step(0, st)
}

// consistent prunes cubes that cannot be satisfied: x == K1 ∧ x == K2 for
// distinct constants.
func consistent(st *symState, c *T, v bool) bool {
	if !(c.Op == "bin" && c.Name == "==" && c.Args[1].Op == "const") {
		return true
	}
	lhs := c.Args[0].String()
	for _, old := range st.conds {
		o := old.T
		if !(o.Op == "bin" && o.Name == "==" && o.Args[1].Op == "const" && o.Args[0].String() == lhs) {
			continue
		}
		if old.Val && v && o.Args[1].String() != c.Args[1].String() {
			return false
		}
	}
	return true
}

func (sy *Sym) callName(st *symState, cc *ssa.CallCommon) (string, *ssa.Function, []*T, []*T) {
	var args []*T
	for _, a := range cc.Args {
		args = append(args, sy.val(st, a))
	}
	if cc.IsInvoke() {
		recv := sy.val(st, cc.Value)
		return "invoke:" + cc.Method.Name(), nil, append([]*T{recv}, args...), nil
	}
	if f := cc.StaticCallee(); f != nil {
		var bindings []*T
		if mc, ok := cc.Value.(*ssa.MakeClosure); ok {
			for _, bv := range mc.Bindings {
				bindings = append(bindings, sy.val(st, bv))
			}
		}
		if m := boundMethod(f); m != nil && len(bindings) == 1 {
			return funcCallName(m), m, append([]*T{bindings[0]}, args...), nil
		}
		return staticCalleeName(cc), f, args, bindings
	}
	if bi, ok := cc.Value.(*ssa.Builtin); ok {
		return "builtin:" + bi.Name(), nil, args, nil
	}
	fv := sy.val(st, cc.Value)
	if fv.Op == "fn" && fv.Fn != nil && fv.Fn.Object() != nil {
		// a declared function reached through a function value (e.g. taken from a
		// frozen table): the same call as the static one
		return funcCallName(fv.Fn), fv.Fn, args, nil
	}
	if fv.Op == "closure" && fv.Fn != nil && len(fv.Args) == 1 {
		// a method value (x.M) handed around as a function: calling it is calling x.M
		if m := boundMethod(fv.Fn); m != nil {
			return funcCallName(m), m, append([]*T{fv.Args[0]}, args...), nil
		}
	}
	if (fv.Op == "closure" || fv.Op == "fn") && fv.Fn != nil {
		return "closure:" + fv.Name, fv.Fn, args, fv.Args
	}
	return "dyn:" + fv.String(), nil, args, nil
}

func (sy *Sym) execCall(fn *ssa.Function, b *ssa.BasicBlock, i int, x *ssa.Call, st *symState, depth int, k contFn) {
	name, callee, args, bindings := sy.callName(st, &x.Call)
	// the predicate literal handed to a library search helper is part of the caller's code
	litInLib := callee != nil && isTransparentLib(fn) && callee.Parent() != nil && len(callee.Blocks) > 0 && depth < sy.opts.MaxDepth+4
	if litInLib || (callee != nil && (depth < sy.opts.MaxDepth || (depth < sy.opts.MaxDepth+4 && (isNewFunc(callee) || isTransparentLib(callee)))) && sy.opts.Inline(callee) && len(callee.Blocks) > 0) {
		nd := depth + 1
		if isTransparentLib(callee) {
			nd = depth // looking through a library search helper does not use up inlining depth
		}
		sy.execFn(callee, args, bindings, st, nd, func(kind, why string, res []*T, s *symState, pos token.Pos) {
			switch kind {
			case "return":
				switch len(res) {
				case 0:
				case 1:
					s.env[x] = res[0]
				default:
					s.env[x] = &T{Op: "tuple", Args: res}
				}
				sy.execFrom(fn, b, i+1, s, depth, k)
			default:
				k(kind, why, res, s, pos)
			}
		})
		return
	}
	if sy.opts.Lists && name == "builtin:append" && len(args) == 2 {
		base := args[0]
		if base.IsNil() {
			base = &T{Op: "concat", Typ: x.Type()}
		}
		if base.Op == "concat" {
			parts := append([]*T(nil), base.Args...)
			switch {
			case args[1].Op == "slice" && args[1].K != nil && rootsAtObj(args[1].Args[0]):
				n, _ := constant.Int64Val(args[1].K)
				for j := int64(0); j < n; j++ {
					key := (&T{Op: "iaddr", Args: []*T{args[1].Args[0], {Op: "const", K: constant.MakeInt64(j), Typ: types.Typ[types.Int]}}}).String()
					if v, ok := st.mem[key]; ok {
						parts = append(parts, v)
					} else {
						parts = append(parts, &T{Op: "unknown", Name: "element " + key})
					}
				}
			case args[1].Op == "concat":
				parts = append(parts, args[1].Args...)
			case args[1].IsNil():
			default:
				parts = append(parts, &T{Op: "spread", Args: []*T{args[1]}, Typ: args[1].Typ})
			}
			st.env[x] = &T{Op: "concat", Args: parts, Typ: x.Type()}
			sy.execFrom(fn, b, i+1, st, depth, k)
			return
		}
	}
	if sy.opts.Lists && name == "builtin:len" && len(args) == 1 && args[0].Op == "concat" {
		var total *T = &T{Op: "const", K: constant.MakeInt64(0), Typ: types.Typ[types.Int]}
		cnt := int64(0)
		for _, p := range args[0].Args {
			if p.Op == "spread" {
				total = binT(token.ADD, total, &T{Op: "call", Name: "builtin:len", Args: []*T{p.Args[0]}, Typ: types.Typ[types.Int]}, types.Typ[types.Int])
			} else {
				cnt++
			}
		}
		total = binT(token.ADD, &T{Op: "const", K: constant.MakeInt64(cnt), Typ: types.Typ[types.Int]}, total, types.Typ[types.Int])
		st.env[x] = total
		sy.execFrom(fn, b, i+1, st, depth, k)
		return
	}
	if (name == "builtin:len" || name == "builtin:cap") && len(args) == 1 && args[0].Op == "slice" && args[0].K != nil {
		st.env[x] = &T{Op: "const", K: args[0].K, Typ: types.Typ[types.Int]}
		sy.execFrom(fn, b, i+1, st, depth, k)
		return
	}
	if (name == "builtin:len" || name == "builtin:cap") && len(args) == 1 {
		if ft := frozenGlobalOfTerm(args[0]); ft != nil {
			n := ft.Len
			if ft.IsMap {
				n = len(ft.Entries)
			}
			st.env[x] = &T{Op: "const", K: constant.MakeInt64(int64(n)), Typ: types.Typ[types.Int]}
			sy.execFrom(fn, b, i+1, st, depth, k)
			return
		}
	}
	t := &T{Op: "call", Name: name, Args: args, Typ: x.Type()}
	if sy.opts.NoReturn != nil && sy.opts.NoReturn(name) {
		st.trace = append(st.trace, Event{Kind: "call", Name: name, Args: args, Result: t, Pos: x.Pos()})
		k("exit", name, nil, st, x.Pos())
		return
	}
	if !sy.opts.Pure(name) {
		st.seq[name]++
		if st.seq[name] > 1 {
			t.Seq = st.seq[name] - 1
		}
		st.trace = append(st.trace, Event{Kind: "call", Name: name, Args: args, Result: t, Pos: x.Pos()})
		// a callee given the address of a fresh object may write it: what is
		// read from it afterwards is whatever that call left there
		for _, a := range args {
			if a.Op != "const" && rootsAtObj(a) && isAddr(a) {
				key := a.String()
				for k := range st.mem {
					if k == key || strings.HasPrefix(k, key+".") || strings.HasPrefix(k, key+"[") {
						delete(st.mem, k)
					}
				}
				st.mem[key] = &T{Op: "havoc", Name: name, Args: []*T{a}, Seq: t.Seq, Typ: a.Typ, s: fmt.Sprintf("written-by:%s#%d(%s)", name, t.Seq, key)}
			}
		}
	}
	st.env[x] = t
	sy.execFrom(fn, b, i+1, st, depth, k)
}

func (sy *Sym) runDefers(fn *ssa.Function, b *ssa.BasicBlock, i int, st *symState, depth int, k contFn) {
	// run deferred calls LIFO; closures of the module are inlined
	defers := st.defers
	st.defers = nil
	var run func(j int, s *symState)
	run = func(j int, s *symState) {
		if j < 0 {
			sy.execFrom(fn, b, i+1, s, depth, k)
			return
		}
		d := defers[j]
		name, callee, args, bindings := sy.callName(s, &d.Call)
		if callee != nil && (depth < sy.opts.MaxDepth || (depth < sy.opts.MaxDepth+4 && (isNewFunc(callee) || isTransparentLib(callee)))) && sy.opts.Inline(callee) && len(callee.Blocks) > 0 {
			sy.execFn(callee, args, bindings, s, depth+1, func(kind, why string, res []*T, s2 *symState, pos token.Pos) {
				if kind == "return" {
					run(j-1, s2)
				} else {
					k(kind, why, res, s2, pos)
				}
			})
			return
		}
		if !sy.opts.Pure(name) {
			s.trace = append(s.trace, Event{Kind: "defer", Name: name, Args: args, Pos: d.Pos()})
		}
		run(j-1, s)
	}
	run(len(defers)-1, st)
}

// ---------------------------------------------------------------------------
// evaluation of terms under an oracle for atoms

type Oracle func(t *T) (interface{}, bool)

// Eval evaluates a term to bool / int64 / string / nil-ness using the oracle
// for every non-arithmetic leaf.
func Eval(t *T, o Oracle) (interface{}, error) {
	if v, ok := o(t); ok {
		return v, nil
	}
	switch t.Op {
	case "const":
		if t.K == nil {
			return nil, nil
		}
		switch t.K.Kind() {
		case constant.Bool:
			return constant.BoolVal(t.K), nil
		case constant.String:
			return constant.StringVal(t.K), nil
		case constant.Int:
			n, ok := constant.Int64Val(t.K)
			if !ok {
				return nil, fmt.Errorf("constant %s does not fit int64", t.K)
			}
			return n, nil
		}
		return nil, fmt.Errorf("constant kind of %s", t)
	case "un":
		a, err := Eval(t.Args[0], o)
		if err != nil {
			return nil, err
		}
		switch t.Name {
		case "!":
			if bv, ok := a.(bool); ok {
				return !bv, nil
			}
		case "-":
			if n, ok := a.(int64); ok {
				return -n, nil
			}
		}
		return nil, fmt.Errorf("cannot evaluate %s", t)
	case "bin":
		a, err := Eval(t.Args[0], o)
		if err != nil {
			return nil, err
		}
		b, err := Eval(t.Args[1], o)
		if err != nil {
			return nil, err
		}
		switch t.Name {
		case "==":
			return a == b, nil
		case "<":
			switch x := a.(type) {
			case int64:
				if y, ok := b.(int64); ok {
					return x < y, nil
				}
			case string:
				if y, ok := b.(string); ok {
					return x < y, nil
				}
			}
		case "+", "-", "*", "%", "&", "|", "/":
			x, ok1 := a.(int64)
			y, ok2 := b.(int64)
			if ok1 && ok2 {
				switch t.Name {
				case "+":
					return x + y, nil
				case "-":
					return x - y, nil
				case "*":
					return x * y, nil
				case "&":
					return x & y, nil
				case "|":
					return x | y, nil
				case "%":
					if y != 0 {
						return x % y, nil
					}
				case "/":
					if y != 0 {
						return x / y, nil
					}
				}
			}
		}
		return nil, fmt.Errorf("cannot evaluate %s", t)
	}
	return nil, fmt.Errorf("unknown atom %s", t)
}

// Select returns the outcomes whose conditions all hold under the oracle.
func Select(outs []*Outcome, o Oracle) ([]*Outcome, error) {
	var sel []*Outcome
	for _, out := range outs {
		ok := true
		for _, c := range out.Conds {
			v, err := Eval(c.T, o)
			if err != nil {
				return nil, err
			}
			bv, isB := v.(bool)
			if !isB {
				return nil, fmt.Errorf("condition %s is not boolean", c.T)
			}
			if bv != c.Val {
				ok = false
				break
			}
		}
		if ok {
			sel = append(sel, out)
		}
	}
	return sel, nil
}
