package main

// c04scope.go — decision tables of the three scope predicates that gate the
// CA/B Forum lints (util.IsServerAuthCert, util.IsEmailProtectionCert,
// util.IsCodeSigning) and their helpers, compared with the specification on an
// abstract certificate (EKU list, number of unknown EKUs, policy OID list,
// e-mail SANs, otherName SANs). Loops are unrolled twice; the any-loop shape
// (no value other than the index carried between iterations) extends the
// result to lists of every length.

import (
	"fmt"
	"go/ast"
	"go/constant"
	"go/types"
	"strings"

	"golang.org/x/tools/go/ssa"
)

type absCert struct {
	EKU      []int64  // known EKU codes
	Unknown  int      // number of unknown EKUs
	Policies []string // names of util OID variables, or dotted strings, or "other"
	Emails   []bool   // rfc822Names: true = non-empty string
	Others   []absOther
}

type absOther struct {
	Mailbox bool
	Empty   bool
}

var brPolicyVars = []string{"BRDomainValidatedOID", "BROrganizationValidatedOID", "BRIndividualValidatedOID", "BRExtendedValidatedOID"}

var smimePolicyVars = func() []string {
	var out []string
	for _, v := range []string{"Mailbox", "Organization", "Sponsor", "Individual"} {
		for _, g := range []string{"Legacy", "Multipurpose", "Strict"} {
			out = append(out, "SMIMEBR"+v+"Validated"+g+"OID")
		}
	}
	return out
}()

// the CA/B Forum arcs these variables must hold (public registry values)
var scopeOIDs = map[string]string{
	"BRExtendedValidatedOID": "2.23.140.1.1", "BRDomainValidatedOID": "2.23.140.1.2.1",
	"BROrganizationValidatedOID": "2.23.140.1.2.2", "BRIndividualValidatedOID": "2.23.140.1.2.3",
	"OidIdOnSmtpUtf8Mailbox": "1.3.6.1.5.5.7.8.9",
}

func init() {
	for i, v := range []string{"Mailbox", "Organization", "Sponsor", "Individual"} {
		for j, g := range []string{"Legacy", "Multipurpose", "Strict"} {
			scopeOIDs["SMIMEBR"+v+"Validated"+g+"OID"] = fmt.Sprintf("2.23.140.1.5.%d.%d", i+1, j+1)
		}
	}
}

func inSet(s string, set []string) bool {
	for _, x := range set {
		if x == s {
			return true
		}
	}
	return false
}

func (a *absCert) smimeBR() bool {
	for _, p := range a.Policies {
		if inSet(p, smimePolicyVars) {
			return true
		}
	}
	return false
}

func (a *absCert) emailSAN() bool {
	for _, e := range a.Emails {
		if e {
			return true
		}
	}
	for _, o := range a.Others {
		if o.Mailbox && !o.Empty {
			return true
		}
	}
	return false
}

func (a *absCert) hasEKU(codes ...int64) bool {
	for _, e := range a.EKU {
		for _, c := range codes {
			if e == c {
				return true
			}
		}
	}
	return false
}

func scopePredicates(c *Ctx, r *Report) {
	r.Rule("scope-predicate: IsServerAuthCert ⇔ (no EKU ∧ no unknown EKU) ∨ ∃EKU∈{any, serverAuth} ∨ ∃policy∈{BR DV,OV,IV,EV}; IsEmailProtectionCert ⇔ (email SAN ∧ ((no EKU ∧ no unknown EKU) ∨ ∃EKU∈{any, emailProtection})) ∨ ∃policy∈ 12 S/MIME BR OIDs; email SAN ⇔ ∃ non-empty rfc822Name ∨ ∃ non-empty SmtpUTF8Mailbox otherName; IsCodeSigning ⇔ ∃policy∈{2.23.140.1.3, 2.23.140.1.4.1}")
	x509 := c.All["github.com/zmap/zcrypto/x509"]
	if x509 == nil {
		fault("unresolved anchor: zcrypto/x509")
	}
	ekuConst := func(name string) int64 {
		k, ok := x509.Types.Scope().Lookup(name).(*types.Const)
		if !ok {
			fault("unresolved anchor: x509.%s", name)
		}
		v, _ := constant.Int64Val(constant.ToInt(k.Val()))
		return v
	}
	any, server, client, email, codes := ekuConst("ExtKeyUsageAny"), ekuConst("ExtKeyUsageServerAuth"), ekuConst("ExtKeyUsageClientAuth"), ekuConst("ExtKeyUsageEmailProtection"), ekuConst("ExtKeyUsageCodeSigning")

	// OID variable values
	util := c.Pkg("util")
	for name, want := range scopeOIDs {
		v, _ := util.Types.Scope().Lookup(name).(*types.Var)
		if v == nil {
			r.Bad("scope-oids", name, 0, "variable util."+name+" no longer exists")
			continue
		}
		got := oidLiteral(util.TypesInfo, varInit(util, v))
		r.Check(got == want && countAssignments(c, v) == 0, "scope-oids", name, v.Pos(), want, fmt.Sprintf("util.%s is %q (or reassigned), the CA/B Forum / IETF arc is %s", name, got, want))
	}
	csConsts := map[string]string{"evCodeSigningPolicy": "2.23.140.1.3", "codeSigningPolicy": "2.23.140.1.4.1"}
	csVals := map[string]bool{}
	for n, want := range csConsts {
		k, _ := util.Types.Scope().Lookup(n).(*types.Const)
		got := ""
		if k != nil && k.Val().Kind() == constant.String {
			got = constant.StringVal(k.Val())
		}
		csVals[want] = true
		r.Check(got == want, "scope-oids", n, 0, want, fmt.Sprintf("util.%s is %q, the code-signing policy OID is %s", n, got, want))
	}

	// abstract element domains
	ekus := []int64{any, server, client, email, codes}
	pols := append(append(append([]string{}, brPolicyVars...), smimePolicyVars...), "2.23.140.1.3", "2.23.140.1.4.1", "other")
	lists := func(n int) [][]int {
		// index lists: [], [x], [last, x], [x, last]  ("last" = a neutral element)
		out := [][]int{{}}
		for i := 0; i < n; i++ {
			out = append(out, []int{i})
		}
		for i := 0; i < n; i++ {
			out = append(out, []int{n - 1, i}, []int{i, n - 1})
		}
		return out
	}
	mkEKU := func(ix []int) []int64 {
		var o []int64
		for _, i := range ix {
			o = append(o, ekus[i])
		}
		return o
	}
	mkPol := func(ix []int) []string {
		var o []string
		for _, i := range ix {
			o = append(o, pols[i])
		}
		return o
	}
	others := [][]absOther{{}, {{true, false}}, {{true, true}}, {{false, false}}, {{false, false}, {true, false}}}

	type pred struct {
		name   string
		atoms  []string // helpers kept as atoms (answered by the oracle from the spec)
		cases  func(yield func(*absCert))
		spec   func(*absCert) bool
		policy bool // parameter is the policy list, not the certificate
	}
	preds := []pred{
		{name: "IsServerAuthCert",
			cases: func(yield func(*absCert)) {
				for _, e := range lists(len(ekus)) {
					for u := 0; u < 2; u++ {
						for _, p := range lists(len(pols)) {
							yield(&absCert{EKU: mkEKU(e), Unknown: u, Policies: mkPol(p)})
						}
					}
				}
			},
			spec: func(a *absCert) bool {
				if len(a.EKU) == 0 && a.Unknown == 0 {
					return true
				}
				if a.hasEKU(any, server) {
					return true
				}
				for _, p := range a.Policies {
					if inSet(p, brPolicyVars) {
						return true
					}
				}
				return false
			}},
		{name: "IsEmailProtectionCert", atoms: []string{"HasEmailSAN", "IsSMIMEBRCertificate"},
			cases: func(yield func(*absCert)) {
				for _, e := range lists(len(ekus)) {
					for u := 0; u < 2; u++ {
						for _, em := range [][]bool{{}, {true}} {
							for _, p := range [][]string{{}, {"other"}, {smimePolicyVars[0]}, {"BRDomainValidatedOID"}} {
								yield(&absCert{EKU: mkEKU(e), Unknown: u, Policies: p, Emails: em})
							}
						}
					}
				}
			},
			spec: func(a *absCert) bool {
				if a.emailSAN() {
					if len(a.EKU) == 0 && a.Unknown == 0 {
						return true
					}
					if a.hasEKU(any, email) {
						return true
					}
				}
				return a.smimeBR()
			}},
		{name: "IsSMIMEBRCertificate",
			cases: func(yield func(*absCert)) {
				for _, p := range lists(len(pols)) {
					yield(&absCert{Policies: mkPol(p)})
				}
			},
			spec: func(a *absCert) bool { return a.smimeBR() }},
		{name: "HasEmailSAN",
			cases: func(yield func(*absCert)) {
				for _, em := range [][]bool{{}, {true}, {false}, {false, true}, {true, false}, {false, false}} {
					for _, o := range others {
						yield(&absCert{Emails: em, Others: o})
					}
				}
			},
			spec: func(a *absCert) bool { return a.emailSAN() }},
		{name: "IsCodeSigning", policy: true,
			cases: func(yield func(*absCert)) {
				for _, p := range lists(len(pols)) {
					yield(&absCert{Policies: mkPol(p)})
				}
			},
			spec: func(a *absCert) bool {
				for _, p := range a.Policies {
					if csVals[p] {
						return true
					}
				}
				return false
			}},
	}
	for _, p := range preds {
		fn := c.Func("util", p.name)
		atoms := p.atoms
		outs, abort := Enumerate(fn, SymOpts{MaxDepth: 3, LoopBound: 2, MaxPaths: 20000, Inline: func(f *ssa.Function) bool {
			if !isModFunc(f) || len(f.Blocks) == 0 {
				return false
			}
			return !inSet(f.Name(), atoms)
		}})
		if abort != "" {
			r.Unk("scope-predicate", p.name, fn.Pos(), "table not extracted: "+abort)
			continue
		}
		// any-loop side condition: only int-typed phis (range indices) in the
		// predicate and its inlined helpers
		if why := onlyIndexCarried(fn, 3, atoms); why != "" {
			r.Unk("scope-predicate", p.name+"|loop-shape", fn.Pos(), why)
			continue
		}
		param := fn.Params[0].Name()
		ncases, bad := 0, ""
		p.cases(func(a *absCert) {
			if bad != "" {
				return
			}
			ncases++
			oracle := scopeOracle(a, param, p.policy)
			sel, err := Select(outs, oracle)
			if err != nil {
				bad = "undecided: " + err.Error()
				return
			}
			var rets []*Outcome
			for _, o := range sel {
				if o.Kind == "return" {
					rets = append(rets, o)
				}
			}
			if len(rets) != 1 || len(rets[0].Results) != 1 {
				bad = fmt.Sprintf("undecided: %d paths match the abstract certificate %+v", len(rets), *a)
				return
			}
			v, err := Eval(rets[0].Results[0], oracle)
			if err != nil {
				bad = "undecided: " + err.Error()
				return
			}
			if v != p.spec(a) {
				bad = fmt.Sprintf("util.%s returns %v for a certificate with EKUs %v (+%d unknown), policies %v, rfc822Names (non-empty?) %v, otherNames %v; the scope rule requires %v", p.name, v, a.EKU, a.Unknown, a.Policies, a.Emails, a.Others, p.spec(a))
			}
		})
		switch {
		case strings.HasPrefix(bad, "undecided: "):
			r.Unk("scope-predicate", p.name, fn.Pos(), strings.TrimPrefix(bad, "undecided: "))
		case bad != "":
			r.Bad("scope-predicate", p.name, fn.Pos(), bad)
		default:
			r.OK("scope-predicate", p.name, fn.Pos(), true, fmt.Sprintf("%d paths, %d abstract certificates", len(outs), ncases))
		}
		r.Extra["scope_cases_"+p.name] = ncases
	}
}

// onlyIndexCarried: every phi in fn (and the module functions it calls, to the
// given depth, except the named atoms) is of integer type.
func onlyIndexCarried(fn *ssa.Function, depth int, atoms []string) string {
	seen := map[*ssa.Function]bool{}
	var visit func(f *ssa.Function, d int) string
	visit = func(f *ssa.Function, d int) string {
		if seen[f] || d < 0 {
			return ""
		}
		seen[f] = true
		why := ""
		allInstrs(f, func(in ssa.Instruction) {
			switch x := in.(type) {
			case *ssa.Phi:
				if b, ok := x.Type().Underlying().(*types.Basic); !ok || b.Info()&types.IsInteger == 0 {
					// boolean phis produced by && / || are not loop carried when
					// their block is not a loop header; accept bool phis whose
					// block does not dominate one of its predecessors
					isLoopHeader := false
					for _, p := range x.Block().Preds {
						if x.Block().Dominates(p) {
							isLoopHeader = true
						}
					}
					if isLoopHeader {
						why = fmt.Sprintf("%s carries %s (%s) between loop iterations", fname(f), x.Name(), x.Type())
					}
				}
			case *ssa.Call:
				if callee := x.Call.StaticCallee(); callee != nil && isModFunc(callee) && !inSet(callee.Name(), atoms) {
					if w := visit(callee, d-1); w != "" {
						why = w
					}
				}
			}
		})
		return why
	}
	return visit(fn, depth)
}

func scopeOracle(a *absCert, param string, policyParam bool) Oracle {
	polBase := param + ".PolicyIdentifiers"
	if policyParam {
		polBase = param
	}
	idx := func(s, base string) (int, bool) {
		if !strings.HasPrefix(s, base+"[") || !strings.HasSuffix(s, "]") {
			return 0, false
		}
		var i int
		if _, err := fmt.Sscanf(s[len(base):], "[%d]", &i); err != nil {
			return 0, false
		}
		return i, true
	}
	return func(t *T) (interface{}, bool) {
		s := t.String()
		if t.Op == "call" {
			switch {
			case t.Name == "builtin:len" && len(t.Args) == 1:
				switch as := t.Args[0].String(); {
				case as == param+".ExtKeyUsage":
					return int64(len(a.EKU)), true
				case as == param+".UnknownExtKeyUsage":
					return int64(a.Unknown), true
				case as == polBase:
					return int64(len(a.Policies)), true
				case as == param+".EmailAddresses":
					return int64(len(a.Emails)), true
				case as == param+".OtherNames":
					return int64(len(a.Others)), true
				case strings.HasPrefix(as, param+".OtherNames[") && strings.HasSuffix(as, "].Value.Bytes"):
					if i, ok := idx(strings.TrimSuffix(as, ".Value.Bytes"), param+".OtherNames"); ok && i < len(a.Others) {
						if a.Others[i].Empty {
							return int64(0), true
						}
						return int64(5), true
					}
				}
			case strings.HasSuffix(t.Name, "asn1.ObjectIdentifier).Equal") && len(t.Args) == 2:
				lhs, rhs := t.Args[0].String(), t.Args[1].String()
				if i, ok := idx(lhs, polBase); ok && i < len(a.Policies) && strings.HasPrefix(rhs, "util.") {
					return a.Policies[i] == strings.TrimPrefix(rhs, "util."), true
				}
				if strings.HasPrefix(lhs, param+".OtherNames[") && strings.HasSuffix(lhs, "].TypeID") && rhs == "util.OidIdOnSmtpUtf8Mailbox" {
					if i, ok := idx(strings.TrimSuffix(lhs, ".TypeID"), param+".OtherNames"); ok && i < len(a.Others) {
						return a.Others[i].Mailbox, true
					}
				}
			case strings.HasSuffix(t.Name, "asn1.ObjectIdentifier).String") && len(t.Args) == 1:
				if i, ok := idx(t.Args[0].String(), polBase); ok && i < len(a.Policies) {
					return a.Policies[i], true
				}
			case t.Name == "util.HasEmailSAN" && len(t.Args) == 1 && t.Args[0].String() == param:
				return a.emailSAN(), true
			case t.Name == "util.IsSMIMEBRCertificate" && len(t.Args) == 1 && t.Args[0].String() == param:
				return a.smimeBR(), true
			}
			return nil, false
		}
		if i, ok := idx(s, param+".ExtKeyUsage"); ok && i < len(a.EKU) {
			return a.EKU[i], true
		}
		if i, ok := idx(s, param+".EmailAddresses"); ok && i < len(a.Emails) {
			if a.Emails[i] {
				return "user@example.com", true
			}
			return "", true
		}
		if t.Op == "conv" && len(t.Args) == 1 {
			if i, ok := idx(t.Args[0].String(), param+".ExtKeyUsage"); ok && i < len(a.EKU) {
				return a.EKU[i], true
			}
		}
		return nil, false
	}
}

// oidLiteral renders asn1.ObjectIdentifier{1, 2, 3} as "1.2.3".
func oidLiteral(info *types.Info, e ast.Expr) string {
	lit, ok := e.(*ast.CompositeLit)
	if !ok {
		return ""
	}
	var parts []string
	for _, el := range lit.Elts {
		n, ok := constInt(info, el)
		if !ok {
			return ""
		}
		parts = append(parts, fmt.Sprint(n))
	}
	return strings.Join(parts, ".")
}
