package main

// core.go — loading the tree under analysis, the obligation ledger, evidence
// and known-findings handling shared by every property check.

import (
	"encoding/json"
	"fmt"
	"go/ast"
	"go/token"
	"go/types"
	"os"
	"path/filepath"
	"sort"
	"strings"
	"time"

	"golang.org/x/tools/go/packages"
	"golang.org/x/tools/go/ssa"
	"golang.org/x/tools/go/ssa/ssautil"
)

const modPath = "github.com/zmap/zlint/v3"

// Ctx is the loaded program.
type Ctx struct {
	RepoDir string // e.g. /repo
	V3Dir   string // e.g. /repo/v3
	Fset    *token.FileSet
	Roots   []*packages.Package
	All     map[string]*packages.Package // every package by path (deps included)
	Mod     []*packages.Package          // module packages, sorted by path
	Prog    *ssa.Program
	NumPkgs int
	Config  string   // build configuration analysed, e.g. "linux/amd64"
	Ignored []string // product files excluded from that configuration by build constraints
	loadS   float64
	ssaS    float64
}

// fault reports a failure of the checker itself (never a verdict) and exits 2.
func fault(format string, args ...interface{}) {
	msg := fmt.Sprintf(format, args...)
	if strings.HasPrefix(msg, "unresolved anchor") && currentProp != "" {
		anchorGone(msg)
	}
	fmt.Printf("CHECKER-FAULT: %s\n", msg)
	exit(2)
}

// batchMode (zlv -props a,b,c — used by the self-test tools only): several
// properties are decided in one process on one loaded program; what would end the
// process ends the current property's run instead.
var batchMode bool

type exitSignal int

func exit(code int) {
	if batchMode {
		panic(exitSignal(code))
	}
	os.Exit(code)
}

// currentProp is the property being decided (set by main before the check runs).
var currentProp string

// anchorGone: a function, method, type or variable the property is anchored in
// no longer exists under any name the resolver accepts. Every anchor resolves
// on the reference tree, so this is a change to the mechanism itself; the
// property cannot be decided on this tree and, like every undecided
// obligation, that is a failure of the check (exit 1), reported with the
// anchor's name rather than as a fault of the checker.
func anchorGone(msg string) {
	evDir := filepath.Join(verifDir(), "evidence")
	if d := os.Getenv("ZLV_EVDIR"); d != "" {
		evDir = d
	}
	violDir := filepath.Join(evDir, currentProp+".violations")
	_ = os.RemoveAll(violDir)
	_ = os.MkdirAll(violDir, 0o755)
	p := filepath.Join(violDir, "1.json")
	b, _ := json.MarshalIndent(map[string]interface{}{
		"property": currentProp, "kind": "undecided", "rule": "anchor", "key": "anchor|" + msg,
		"detail": msg + " — the code the property's mechanism lives in was removed or renamed beyond what the resolver follows (function ↔ method of the same name in the same package is followed); the property cannot be decided on this tree",
		"repo":   repoDir(),
	}, "", " ")
	_ = os.WriteFile(p, b, 0o644)
	fmt.Printf("[anchor] %s (undecided)\n", msg)
	fmt.Printf("VIOLATION property=%s replay=%s\n", currentProp, p)
	exit(1)
}

func repoDir() string {
	if d := os.Getenv("ZLV_REPO"); d != "" {
		return d
	}
	return "/repo"
}

var rootPatterns = []string{".", "./lints/...", "./cmd/zlint", "./cmd/zlint-gtld-update", "./profiles", "./formattedoutput"}

// Load type-checks the module from the current working tree and builds SSA for
// the whole program (dependencies from the module cache included).
func Load(extraEnv []string, tags string) *Ctx {
	t0 := time.Now()
	c := &Ctx{RepoDir: repoDir()}
	c.V3Dir = filepath.Join(c.RepoDir, "v3")
	if _, err := os.Stat(filepath.Join(c.V3Dir, "go.mod")); err != nil {
		fault("no go.mod under %s: %v", c.V3Dir, err)
	}
	c.Fset = token.NewFileSet()
	env := []string{}
	for _, e := range os.Environ() {
		if strings.HasPrefix(e, "GOFLAGS=") || strings.HasPrefix(e, "GOWORK=") {
			continue
		}
		env = append(env, e)
	}
	env = append(env, "GOFLAGS=-mod=readonly", "GOWORK=off", "GOPROXY=off", "GOSUMDB=off", "GOTOOLCHAIN=local")
	env = append(env, extraEnv...)
	c.Config = "linux/amd64"
	if goos, goarch := os.Getenv("ZLV_GOOS"), os.Getenv("ZLV_GOARCH"); goos != "" && goarch != "" {
		env = append(env, "GOOS="+goos, "GOARCH="+goarch, "CGO_ENABLED=0")
		c.Config = goos + "/" + goarch
	}
	cfg := &packages.Config{
		Mode:  packages.LoadAllSyntax,
		Dir:   c.V3Dir,
		Fset:  c.Fset,
		Env:   env,
		Tests: false,
	}
	if tags != "" {
		cfg.BuildFlags = []string{"-tags=" + tags}
	}
	pkgs, err := packages.Load(cfg, rootPatterns...)
	if err != nil {
		fault("packages.Load: %v", err)
	}
	if len(pkgs) == 0 {
		fault("packages.Load returned no packages")
	}
	c.Roots = pkgs
	c.All = map[string]*packages.Package{}
	nerr := 0
	packages.Visit(pkgs, nil, func(p *packages.Package) {
		c.All[p.PkgPath] = p
		for _, e := range p.Errors {
			nerr++
			if nerr <= 10 {
				fmt.Printf("load error: %s: %v\n", p.PkgPath, e)
			}
		}
	})
	if nerr > 0 {
		fault("%d load/type errors; the tree does not build", nerr)
	}
	for path, p := range c.All {
		if path == modPath || strings.HasPrefix(path, modPath+"/") {
			c.Mod = append(c.Mod, p)
		}
	}
	sort.Slice(c.Mod, func(i, j int) bool { return c.Mod[i].PkgPath < c.Mod[j].PkgPath })
	for _, p := range c.Mod {
		for _, f := range p.IgnoredFiles {
			if strings.HasSuffix(f, ".go") && !strings.HasSuffix(f, "_test.go") {
				rel, _ := filepath.Rel(c.RepoDir, f)
				c.Ignored = append(c.Ignored, rel)
			}
		}
	}
	sort.Strings(c.Ignored)
	c.NumPkgs = len(c.All)
	if len(c.Mod) < 10 {
		fault("only %d module packages loaded (expected zlint, lint, util, 9 lint packages, ...)", len(c.Mod))
	}
	c.loadS = time.Since(t0).Seconds()
	t1 := time.Now()
	prog, _ := ssautil.AllPackages(pkgs, ssa.InstantiateGenerics)
	prog.Build()
	c.Prog = prog
	c.ssaS = time.Since(t1).Seconds()
	gCtx = c
	sfCtx = c
	return c
}

// Pkg returns a module package by its path relative to the module ("" is the
// root package zlint). An unresolved anchor is a checker fault.
func (c *Ctx) Pkg(rel string) *packages.Package {
	path := modPath
	if rel != "" {
		path += "/" + rel
	}
	p := c.All[path]
	if p == nil {
		fault("unresolved anchor: package %s", path)
	}
	return p
}

func (c *Ctx) PkgMaybe(rel string) *packages.Package {
	path := modPath
	if rel != "" {
		path += "/" + rel
	}
	return c.All[path]
}

func (c *Ctx) SSAPkg(rel string) *ssa.Package {
	sp := c.Prog.Package(c.Pkg(rel).Types)
	if sp == nil {
		fault("unresolved anchor: no SSA for package %s", rel)
	}
	return sp
}

// Func returns a package-level function of a module package.
func (c *Ctx) Func(rel, name string) *ssa.Function {
	f := c.FuncMaybe(rel, name)
	if f == nil {
		buildRenames(c)
		f = renameOldToNew[rel+"."+name]
		if rel == "" {
			f = renameOldToNew["zlint."+name]
		}
	}
	if f == nil {
		fault("unresolved anchor: function %s.%s", rel, name)
	}
	return f
}

func (c *Ctx) FuncMaybe(rel, name string) *ssa.Function {
	p := c.PkgMaybe(rel)
	if p == nil {
		return nil
	}
	sp := c.Prog.Package(p.Types)
	if sp == nil {
		return nil
	}
	if f := sp.Func(name); f != nil {
		return f
	}
	// the function may have become a method (or moved onto another receiver):
	// accept the unique method of that name declared in the package
	if f := uniqueMethodNamed(c, p, name); f != nil {
		return f
	}
	// or it was renamed (newfuncs.go)
	buildRenames(c)
	key := rel + "." + name
	if rel == "" {
		key = "zlint." + name
	}
	return renameOldToNew[key]
}

// uniqueMethodNamed: the only method called name declared on any named type of p.
func uniqueMethodNamed(c *Ctx, p *packages.Package, name string) *ssa.Function {
	var found []*ssa.Function
	sc := p.Types.Scope()
	for _, n := range sc.Names() {
		tn, ok := sc.Lookup(n).(*types.TypeName)
		if !ok || tn.IsAlias() {
			continue
		}
		named, ok := tn.Type().(*types.Named)
		if !ok {
			continue
		}
		for i := 0; i < named.NumMethods(); i++ {
			if m := named.Method(i); m.Name() == name {
				if f := c.Prog.FuncValue(m); f != nil {
					found = append(found, f)
				}
			}
		}
	}
	if len(found) == 1 {
		return found[0]
	}
	return nil
}

// Method returns the method recv.name (pointer or value receiver) of a named
// type declared in a module package.
func (c *Ctx) Method(rel, recv, name string) *ssa.Function {
	f := c.MethodMaybe(rel, recv, name)
	if f == nil {
		buildRenames(c)
		pk := rel
		if pk == "" {
			pk = "zlint"
		}
		for _, form := range []string{"(*" + pk + "." + recv + ")." + name, "(" + pk + "." + recv + ")." + name} {
			if g := renameOldToNew[form]; g != nil {
				f = g
			}
		}
	}
	if f == nil {
		// the method may have become a package-level function of the same name
		if p := c.PkgMaybe(rel); p != nil {
			if sp := c.Prog.Package(p.Types); sp != nil {
				f = sp.Func(name)
			}
		}
	}
	if f == nil {
		fault("unresolved anchor: method %s.(%s).%s", rel, recv, name)
	}
	return f
}

func (c *Ctx) MethodMaybe(rel, recv, name string) *ssa.Function {
	p := c.PkgMaybe(rel)
	if p == nil {
		return nil
	}
	obj := p.Types.Scope().Lookup(recv)
	if obj == nil {
		return nil
	}
	tn, ok := obj.(*types.TypeName)
	if !ok {
		return nil
	}
	for _, T := range []types.Type{tn.Type(), types.NewPointer(tn.Type())} {
		ms := c.Prog.MethodSets.MethodSet(T)
		for i := 0; i < ms.Len(); i++ {
			sel := ms.At(i)
			if sel.Obj().Name() == name && len(sel.Index()) == 1 {
				if fn := c.Prog.MethodValue(sel); fn != nil && (fn.Synthetic == "" || len(fn.TypeArgs()) > 0) {
					return fn // declared method, or the instantiation of a generic type's method
				}
				// declared with the other receiver kind: find the declared function
				if f, ok := sel.Obj().(*types.Func); ok {
					if fn := c.Prog.FuncValue(f); fn != nil {
						return fn
					}
				}
			}
		}
	}
	return nil
}

// TypeObj returns the declared named type.
func (c *Ctx) Named(rel, name string) *types.Named {
	p := c.Pkg(rel)
	obj := p.Types.Scope().Lookup(name)
	if obj == nil {
		fault("unresolved anchor: type %s.%s", rel, name)
	}
	n, ok := obj.Type().(*types.Named)
	if !ok {
		// alias
		if n2, ok2 := types.Unalias(obj.Type()).(*types.Named); ok2 {
			return n2
		}
		fault("unresolved anchor: %s.%s is not a named type", rel, name)
	}
	return n
}

func (c *Ctx) Pos(p token.Pos) string {
	if !p.IsValid() {
		return "-"
	}
	pos := c.Fset.Position(p)
	f := pos.Filename
	if r, err := filepath.Rel(c.RepoDir, f); err == nil && !strings.HasPrefix(r, "..") {
		f = r
	}
	return fmt.Sprintf("%s:%d", f, pos.Line)
}

func (c *Ctx) File(p token.Pos) string {
	if !p.IsValid() {
		return "-"
	}
	f := c.Fset.Position(p).Filename
	if r, err := filepath.Rel(c.RepoDir, f); err == nil && !strings.HasPrefix(r, "..") {
		f = r
	}
	return f
}

func isModPath(path string) bool {
	return path == modPath || strings.HasPrefix(path, modPath+"/")
}

func isModPkg(p *types.Package) bool { return p != nil && isModPath(p.Path()) }

func relPkg(path string) string {
	if path == modPath {
		return "zlint"
	}
	return strings.TrimPrefix(path, modPath+"/")
}

// isModFunc: function with a body declared in a module package.
func isModFunc(f *ssa.Function) bool {
	if f == nil {
		return false
	}
	if f.Pkg != nil {
		return isModPkg(f.Pkg.Pkg)
	}
	if f.Parent() != nil {
		return isModFunc(f.Parent())
	}
	if o := f.Origin(); o != nil && o != f {
		return isModFunc(o)
	}
	if f.Object() != nil {
		return isModPkg(f.Object().Pkg())
	}
	return false
}

// aliasRecvName: f is a method of an instantiated generic type that the package
// also names through a type alias (type certLookup = lookup[*CertificateLint]):
// the method's printed name under that alias, "(*pkg.certLookup).m". This is how
// a de-duplication of sibling types into one generic type keeps the old names.
var aliasRecvMemo = map[*ssa.Function]string{}

func aliasRecvName(f *ssa.Function) string {
	if s, ok := aliasRecvMemo[f]; ok {
		return s
	}
	out := ""
	defer func() { aliasRecvMemo[f] = out }()
	if f == nil || f.Signature.Recv() == nil || f.Parent() != nil {
		return out
	}
	rt := f.Signature.Recv().Type()
	ptr := false
	if p, ok := rt.(*types.Pointer); ok {
		rt, ptr = p.Elem(), true
	}
	named, ok := rt.(*types.Named)
	if !ok || named.TypeArgs() == nil || named.TypeArgs().Len() == 0 || named.Obj().Pkg() == nil {
		return out
	}
	sc := named.Obj().Pkg().Scope()
	var hits []string
	for _, n := range sc.Names() {
		if tn, ok := sc.Lookup(n).(*types.TypeName); ok && tn.IsAlias() && types.Identical(types.Unalias(tn.Type()), named) {
			hits = append(hits, n)
		}
	}
	if len(hits) != 1 {
		return out
	}
	recv := named.Obj().Pkg().Path() + "." + hits[0]
	mname := f.Name()
	if o := f.Origin(); o != nil {
		mname = o.Name() // without the "[type arguments]" suffix of the instance
	}
	if ptr {
		out = "(*" + recv + ")." + mname
	} else {
		out = "(" + recv + ")." + mname
	}
	return out
}

// fname gives a stable human-readable name of a function.
func fname(f *ssa.Function) string {
	if f == nil {
		return "<nil>"
	}
	s := f.String()
	if a := aliasRecvName(f); a != "" {
		s = a
	}
	s = strings.ReplaceAll(s, modPath+"/", "")
	s = strings.ReplaceAll(s, modPath, "zlint")
	if old := aliasedBase(f); old != "" {
		if i := strings.LastIndex(s, "."); i >= 0 {
			s = s[:i+1] + old
		}
	}
	return s
}

// ---------------------------------------------------------------------------
// obligations

type ObStatus string

const (
	Discharged ObStatus = "discharged"
	Violated   ObStatus = "violated"
	Undecided  ObStatus = "undecided"
)

type Ob struct {
	Rule       string   `json:"rule"`
	Key        string   `json:"key"` // rule|construct — stable, position-free
	Pos        string   `json:"pos,omitempty"`
	Status     ObStatus `json:"status"`
	Detail     string   `json:"detail,omitempty"`
	Nontrivial bool     `json:"nontrivial,omitempty"`
	Known      bool     `json:"known_finding,omitempty"`
}

type Floor struct {
	Name     string `json:"name"`
	Expected int    `json:"expected_at_least"`
	Found    int    `json:"found"`
}

type Report struct {
	Prop        string
	Level       string
	Tier        string
	Obs         []*Ob
	Floors      []Floor
	Rules       []string
	Explanation string
	Assumptions []string
	Trusted     []string
	Extra       map[string]interface{}
	Samples     []interface{}
	Exhaustive  bool
	keys        map[string]int
	start       time.Time
	ctx         *Ctx
}

func NewReport(prop, level, tier string, c *Ctx) *Report {
	return &Report{Prop: prop, Level: level, Tier: tier, Extra: map[string]interface{}{}, keys: map[string]int{}, start: time.Now(), ctx: c}
}

// Add records an obligation. The key is made unique with an ordinal when the
// same rule+construct occurs more than once.
func (r *Report) Add(rule, construct string, pos token.Pos, st ObStatus, nontrivial bool, detail string) *Ob {
	key := rule + "|" + construct
	r.keys[key]++
	if n := r.keys[key]; n > 1 {
		key = fmt.Sprintf("%s#%d", key, n)
	}
	ob := &Ob{Rule: rule, Key: key, Status: st, Detail: detail, Nontrivial: nontrivial}
	if r.ctx != nil {
		ob.Pos = r.ctx.Pos(pos)
	}
	r.Obs = append(r.Obs, ob)
	return ob
}

func (r *Report) OK(rule, construct string, pos token.Pos, nontrivial bool, detail string) *Ob {
	return r.Add(rule, construct, pos, Discharged, nontrivial, detail)
}
func (r *Report) Bad(rule, construct string, pos token.Pos, detail string) *Ob {
	return r.Add(rule, construct, pos, Violated, true, detail)
}
func (r *Report) Unk(rule, construct string, pos token.Pos, detail string) *Ob {
	return r.Add(rule, construct, pos, Undecided, true, detail)
}

// Check adds a discharged or violated obligation depending on cond.
func (r *Report) Check(cond bool, rule, construct string, pos token.Pos, okDetail, badDetail string) bool {
	if cond {
		r.OK(rule, construct, pos, true, okDetail)
	} else {
		r.Bad(rule, construct, pos, badDetail)
	}
	return cond
}

func (r *Report) Floor(name string, expected, found int) {
	r.Floors = append(r.Floors, Floor{name, expected, found})
}

func (r *Report) Rule(text string) { r.Rules = append(r.Rules, text) }

func (r *Report) Sample(v interface{}) {
	if len(r.Samples) < 12 {
		r.Samples = append(r.Samples, v)
	}
}

// ---------------------------------------------------------------------------
// known findings

type knownFinding struct {
	prop, key, text string
}

func verifDir() string {
	if d := os.Getenv("ZLV_VERIF"); d != "" {
		return d
	}
	return "/verif"
}

func loadKnown(prop string) map[string]string {
	out := map[string]string{}
	data, err := os.ReadFile(filepath.Join(verifDir(), "known_findings.txt"))
	if err != nil {
		return out
	}
	for _, line := range strings.Split(string(data), "\n") {
		line = strings.TrimSpace(line)
		if !strings.HasPrefix(line, "finding:") {
			continue // "fixed:" lines and comments suppress nothing
		}
		rest := strings.TrimSpace(strings.TrimPrefix(line, "finding:"))
		fields := strings.SplitN(rest, " ", 3)
		if len(fields) < 2 || !strings.HasPrefix(fields[0], "property=") || !strings.HasPrefix(fields[1], "key=") {
			continue
		}
		if strings.TrimPrefix(fields[0], "property=") != prop {
			continue
		}
		text := ""
		if len(fields) == 3 {
			text = fields[2]
		}
		out[strings.TrimPrefix(fields[1], "key=")] = text
	}
	return out
}

// ---------------------------------------------------------------------------
// finishing: floors, known findings, evidence, exit status

func (r *Report) Finish() {
	c := r.ctx
	known := loadKnown(r.Prop)
	usedKnown := map[string]bool{}
	var viol, und, knownObs []*Ob
	discharged := 0
	nontrivial := map[string]bool{}
	for _, ob := range r.Obs {
		if ob.Nontrivial {
			nontrivial[ob.Key] = true
		}
		switch ob.Status {
		case Discharged:
			discharged++
		case Violated:
			if _, ok := known[ob.Key]; ok {
				ob.Known = true
				usedKnown[ob.Key] = true
				knownObs = append(knownObs, ob)
			} else {
				viol = append(viol, ob)
			}
		case Undecided:
			und = append(und, ob)
		}
	}
	for _, f := range r.Floors {
		if f.Found < f.Expected {
			ob := r.Add("instance-floor", f.Name, token.NoPos, Violated, true,
				fmt.Sprintf("rule matched %d constructs, at least %d were confirmed by hand on the reference tree; the rule no longer sees what it decides (kind: floor)", f.Found, f.Expected))
			viol = append(viol, ob)
		}
	}
	// stale known findings are reported (not a failure): the finding went away
	var stale []string
	for k := range known {
		if !usedKnown[k] {
			stale = append(stale, k)
		}
	}
	sort.Strings(stale)

	evDir := filepath.Join(verifDir(), "evidence")
	if d := os.Getenv("ZLV_EVDIR"); d != "" {
		evDir = d // scratch runs (mutants, fixtures) must not touch the real evidence
	}
	_ = os.MkdirAll(evDir, 0o755)
	violDir := filepath.Join(evDir, r.Prop+".violations")
	_ = os.RemoveAll(violDir)

	for _, ob := range knownObs {
		fmt.Printf("KNOWN-FINDING: property=%s %s at %s: %s\n", r.Prop, ob.Key, ob.Pos, ob.Detail)
	}
	for _, k := range stale {
		fmt.Printf("note: known finding no longer observed (listed in known_findings.txt): property=%s %s\n", r.Prop, k)
	}
	n := 0
	writeViol := func(ob *Ob, kind string) {
		_ = os.MkdirAll(violDir, 0o755)
		n++
		p := filepath.Join(violDir, fmt.Sprintf("%d.json", n))
		b, _ := json.MarshalIndent(map[string]interface{}{
			"property": r.Prop, "kind": kind, "rule": ob.Rule, "key": ob.Key, "pos": ob.Pos, "detail": ob.Detail,
			"repo": c.RepoDir,
		}, "", " ")
		_ = os.WriteFile(p, b, 0o644)
		fmt.Printf("%s: [%s] %s — %s (%s)\n", ob.Pos, ob.Rule, ob.Key, ob.Detail, kind)
		fmt.Printf("VIOLATION property=%s replay=%s\n", r.Prop, p)
	}
	for _, ob := range viol {
		writeViol(ob, "violated")
	}
	for _, ob := range und {
		writeViol(ob, "undecided")
	}

	// evidence
	sort.Strings(r.Rules)
	samples := r.Samples
	if len(samples) == 0 {
		for i, ob := range r.Obs {
			if i >= 8 {
				break
			}
			samples = append(samples, ob)
		}
	}
	cov := map[string]interface{}{
		"explanation":         r.Explanation,
		"obligations":         len(r.Obs),
		"discharged":          discharged,
		"known_findings":      len(knownObs),
		"undecided":           len(und),
		"evaluations":         len(r.Obs),
		"distinct_nontrivial": len(nontrivial),
		"rule":                strings.Join(r.Rules, " || "),
		"samples":             samples,
		"packages":            c.NumPkgs,
		"module_packages":     len(c.Mod),
		"instance_floors":     r.Floors,
		"checker_cmd":         fmt.Sprintf("/verif/bin/zlv -prop %s -tier %s (ZLV_REPO=%s, build configuration %s)", r.Prop, r.Tier, c.RepoDir, c.Config),
		"build_config":        c.Config,
		"files_outside_build": c.Ignored,
		"trusted_base":        r.Trusted,
		"exhaustive":          r.Exhaustive,
		"load_s":              c.loadS,
		"ssa_s":               c.ssaS,
		"stale_known":         stale,
	}
	byRule := map[string]int{}
	for _, ob := range r.Obs {
		byRule[ob.Rule]++
	}
	cov["obligations_by_rule"] = byRule
	for k, v := range r.Extra {
		cov[k] = v
	}
	if r.Assumptions == nil {
		r.Assumptions = []string{}
	}
	if len(c.Ignored) > 0 {
		fmt.Printf("note: %d product file(s) are excluded from the analysed build configuration %s by build constraints and were not analysed: %s (the thorough tier analyses windows/amd64, darwin/arm64 and linux/386 as well)\n", len(c.Ignored), c.Config, trimStr(strings.Join(c.Ignored, ", "), 300))
		r.Assumptions = append(r.Assumptions, fmt.Sprintf("%d product files carry build constraints that exclude them from %s: %s", len(c.Ignored), c.Config, strings.Join(c.Ignored, ", ")))
	}
	r.Assumptions = append(r.Assumptions, "analysed: build "+c.Config+" (no tags) of package zlint, lint, util, lints/*, cmd/zlint, cmd/zlint-gtld-update, formattedoutput, profiles; test files are not part of the product")
	if r.Trusted == nil {
		r.Trusted = []string{}
	}
	cov["trusted_base"] = r.Trusted
	seed := 0
	fmt.Sscanf(os.Getenv("VERIF_SEED"), "%d", &seed)
	ev := map[string]interface{}{
		"property_id": r.Prop,
		"tier":        r.Tier,
		"seed":        seed,
		"level":       r.Level,
		"coverage":    cov,
		"assumptions": r.Assumptions,
		"wall_s":      time.Since(r.start).Seconds() + c.loadS + c.ssaS,
		"violations":  len(viol) + len(und),
	}
	b, err := json.MarshalIndent(ev, "", " ")
	if err != nil {
		fault("evidence marshal: %v", err)
	}
	if os.Getenv("ZLV_NO_EVIDENCE") == "" {
		if err := os.WriteFile(filepath.Join(evDir, r.Prop+".json"), b, 0o644); err != nil {
			fault("evidence write: %v", err)
		}
	}
	fmt.Printf("%s %s: %d obligations, %d discharged, %d known findings, %d violated, %d undecided (%.1fs)\n",
		r.Prop, r.Tier, len(r.Obs), discharged, len(knownObs), len(viol), len(und), time.Since(r.start).Seconds()+c.loadS+c.ssaS)
	if len(viol)+len(und) > 0 {
		exit(1)
	}
}

// ---------------------------------------------------------------------------
// small AST helpers

// enclosingFunc returns the FuncDecl of file containing pos.
func enclosingFunc(file *ast.File, pos token.Pos) *ast.FuncDecl {
	for _, d := range file.Decls {
		if fd, ok := d.(*ast.FuncDecl); ok && fd.Pos() <= pos && pos < fd.End() {
			return fd
		}
	}
	return nil
}

func trimStr(s string, n int) string {
	r := []rune(s)
	if len(r) > n {
		return string(r[:n]) + "…"
	}
	return s
}
