package main

import (
	"fmt"
	"go/ast"
	"go/token"
	"go/types"
	"golang.org/x/tools/go/types/typeutil"
	"os"
	"path/filepath"
	"regexp"
	"sort"
	"strings"

	"golang.org/x/tools/go/packages"
	"golang.org/x/tools/go/ssa"
)

func init() { register("C05", runC05) }

func runC05(c *Ctx, tier string) {
	r := NewReport("C05", "other", tier, c)
	r.Explanation = "Necessary structural conditions for determinism, history independence, read-only and I/O-free linting, decided for every lint and helper in the tree: (1) no-global-write: interprocedural MOD summaries (SSA address roots through field/index/slice/load/phi/conversion/call edges of the VTA call graph) show that no CheckApplies/Execute/Configure of any registered lint, nor the Lint*Ex entry points, may write a package-level variable of the module; functions of lint/util/lints packages that write module globals directly must be init functions or the registration API. (2) object-read-only: the same summaries show no lint method writes memory reachable from the linted object (writes to unexported fields made by the object's own package — zcrypto's memoisation — excepted); append to a certificate slice whose result is only read is accepted, element stores / sort / copy into it are not. (3) fresh-instance: every registered constructor returns a new allocation. (4) map-order: every range over a map in code reachable from lint methods is order-insensitive by a recognised form (collect then sort before any order-sensitive use; commutative accumulation / constant stores; uniform early exit) — anything else is a violation. (5) api-policy: every use (types.Info.Uses) in packages zlint, lint, util, lints/* of an object from os, os/exec, os/signal, os/user, syscall, net/http, io/ioutil, io/fs, path/filepath, log, math/rand*, crypto/rand, runtime, unsafe, plugin, net beyond the pure address API, time.Now/Since/Until/Sleep/After/Tick/NewTimer/NewTicker/AfterFunc/LoadLocation/Local, fmt.Print*/Scan*, reflect.Value.Set*, plus go statements, select and channel operations, must be in the who-may-use table (configuration loader, Lint*Ex timestamp, the two AIA internal-name lints' time.Now, the configuration resolver's reflect.Set); imports outside the reviewed list and new modules in go.mod are flagged for classification. Does not decide determinism of trusted libraries nor writes made through reflect/unsafe."
	r.Rule("no-global-write; object-read-only; fresh-instance; map-order; api-policy; imports-reviewed; clock-only-compared; configure-returns-receiver")
	r.Trusted = []string{"go/ssa, VTA call graph (x/tools v0.29.0)", "reviewed table of body-less (assembly) callees", "zcrypto, x/crypto, x/net/idna, x/text, go-toml, publicsuffix-go perform no I/O (reviewed once)"}
	r.Assumptions = []string{"writes through reflect or unsafe are not modelled (reflect.Value.Set* is policed at use sites)", "aliasing is approximated by SSA address roots: a pointer stored into a heap structure built by library code is attributed by the callee's MOD summary only"}

	cs := BuildCensus(c)
	r.Floor("registrations", 370, len(cs.Regs))
	e := NewEffects(c)
	r.Extra["effects_functions"] = len(e.funcs)
	r.Extra["effects_iterations"] = e.iters
	c05Effects(c, r, cs, e)
	freshInstances(c, r, cs)
	c05MapOrder(c, r, cs, e)
	c05API(c, r)
	// options are stored per instance: every Configure() hands out memory inside the
	// fresh instance (or set by its constructor to memory allocated for it), never a
	// structure shared between instances, runs or registries (C11's rule)
	c11Configurables(c, r, BuildCensus(c))
	clockOnlyCompared(c, r)
	r.Finish()
}

func scopePkg(path string) bool {
	rel := relPkg(path)
	return rel == "zlint" || rel == "lint" || rel == "util" || strings.HasPrefix(rel, "lints/")
}

func fnPkgPath(f *ssa.Function) string {
	for f != nil {
		if f.Pkg != nil {
			return f.Pkg.Pkg.Path()
		}
		if f.Parent() != nil {
			f = f.Parent()
			continue
		}
		if o := f.Origin(); o != nil && o != f {
			f = o
			continue
		}
		break
	}
	return ""
}

func isInitFunc(f *ssa.Function) bool {
	for f.Parent() != nil {
		f = f.Parent()
	}
	return f.Name() == "init" || strings.HasPrefix(f.Name(), "init#")
}

func c05Effects(c *Ctx, r *Report, cs *Census, e *Effects) {
	// entries: lint methods
	nmut := 0
	for _, reg := range cs.Regs {
		if reg.Err != "" {
			r.Unk("census", regLocation(c, reg), reg.Call.Pos(), reg.Err)
			continue
		}
		for _, m := range []*ssa.Function{reg.CheckApplies, reg.Execute, reg.Configure} {
			if m == nil {
				continue
			}
			id := reg.ID() + "|" + m.Name()
			if m.Name() != "Configure" {
				if e.ModsParam(m, 1) {
					nmut++
					r.Bad("object-read-only", id, m.Pos(), "the lint may write memory reachable from the linted object: "+strings.Join(e.Chain(m, "p1"), " → "))
				} else {
					r.OK("object-read-only", id, m.Pos(), false, "")
				}
			}
			gs := e.ModGlobals(m)
			if len(gs) > 0 {
				var names []string
				for _, g := range gs {
					names = append(names, relPkg(g.Pkg.Pkg.Path())+"."+g.Name())
				}
				r.Bad("no-global-write", id, m.Pos(), fmt.Sprintf("the lint may write package-level state %v: %s", names, strings.Join(e.Chain(m, "g:"+gs[0].String()), " → ")))
			} else {
				r.OK("no-global-write", id, m.Pos(), false, "")
			}
		}
	}
	for _, k := range c01Kinds {
		fn := c.Func("", k.ex)
		if e.ModsParam(fn, 0) {
			r.Bad("object-read-only", "zlint."+k.ex, fn.Pos(), "linting may write the linted object: "+strings.Join(e.Chain(fn, "p0"), " → "))
		} else {
			r.OK("object-read-only", "zlint."+k.ex, fn.Pos(), true, "no function reachable from the entry point writes through the object")
		}
		gs := e.ModGlobals(fn)
		if len(gs) > 0 {
			r.Bad("no-global-write", "zlint."+k.ex, fn.Pos(), fmt.Sprintf("linting may write package-level state %s: %s", gs[0], strings.Join(e.Chain(fn, "g:"+gs[0].String()), " → ")))
		} else {
			r.OK("no-global-write", "zlint."+k.ex, fn.Pos(), true, "")
		}
	}
	// direct writers of module globals in scope packages
	allowed := map[string]string{
		"lint.RegisterProfile": "the profile registration API (init-time use)",
	}
	ndirect := 0
	for _, f := range modFunctions(c) {
		if !scopePkg(fnPkgPath(f)) {
			continue
		}
		s := e.sum[f]
		if s == nil {
			continue
		}
		var keys []string
		for k, w := range s.why {
			if strings.HasPrefix(k, "g:") && w.Callee == nil {
				keys = append(keys, k)
			}
		}
		sort.Strings(keys)
		for _, k := range keys {
			w := s.why[k]
			var g *ssa.Global
			for gg := range s.modG {
				if "g:"+gg.String() == k {
					g = gg
				}
			}
			if g == nil || g.Pkg == nil || !isModPkg(g.Pkg.Pkg) {
				continue
			}
			ndirect++
			_, okAllowed := allowed[fname(f)]
			r.Check(isInitFunc(f) || okAllowed, "no-global-write", "direct|"+fname(f)+"|"+g.Name(), w.Pos, "init-time / registration API",
				fmt.Sprintf("%s writes package-level variable %s.%s at run time (%s): state shared between lint runs", fname(f), relPkg(g.Pkg.Pkg.Path()), g.Name(), w.Desc))
		}
	}
	r.Extra["direct_module_global_writers"] = ndirect
	r.Extra["object_mutating_methods"] = nmut
	r.Floor("direct global writers seen (init functions)", 3, ndirect)
}

// ---------------------------------------------------------------------------
// map iteration order

type loopInfo struct {
	rg     *ssa.Range
	next   *ssa.Next
	header *ssa.BasicBlock
	blocks map[*ssa.BasicBlock]bool
	exits  []*ssa.BasicBlock
}

func findMapLoops(f *ssa.Function) []*loopInfo {
	var out []*loopInfo
	allInstrs(f, func(in ssa.Instruction) {
		rg, ok := in.(*ssa.Range)
		if !ok {
			return
		}
		if _, isMap := rg.X.Type().Underlying().(*types.Map); !isMap {
			return
		}
		li := &loopInfo{rg: rg, blocks: map[*ssa.BasicBlock]bool{}}
		for _, ref := range *rg.Referrers() {
			if nx, ok := ref.(*ssa.Next); ok {
				li.next = nx
				li.header = nx.Block()
			}
		}
		if li.header == nil {
			return
		}
		// natural loop: blocks dominated by header from which header is reachable
		for _, b := range f.Blocks {
			if li.header.Dominates(b) && reachesWithout(b, li.header, map[*ssa.BasicBlock]bool{}) && (b == li.header || reachesBlock(b, li.header)) {
				li.blocks[b] = true
			}
		}
		// early-exit blocks: dominated by the loop body's entry but outside the
		// cycle (return / break paths taken from inside an iteration)
		if iff, ok := li.header.Instrs[len(li.header.Instrs)-1].(*ssa.If); ok && len(li.header.Succs) == 2 {
			_ = iff
			body := li.header.Succs[0]
			for _, b := range f.Blocks {
				if !li.blocks[b] && body.Dominates(b) {
					li.blocks[b] = true
					li.exits = append(li.exits, b)
				}
			}
		}
		out = append(out, li)
	})
	return out
}

func reachesBlock(from, to *ssa.BasicBlock) bool {
	seen := map[*ssa.BasicBlock]bool{}
	var dfs func(b *ssa.BasicBlock) bool
	dfs = func(b *ssa.BasicBlock) bool {
		for _, s := range b.Succs {
			if s == to {
				return true
			}
			if !seen[s] {
				seen[s] = true
				if dfs(s) {
					return true
				}
			}
		}
		return false
	}
	return dfs(from)
}

// dependsOnLoop: value derives from the loop's Next (key/value) or from a
// loop-carried phi.
func (li *loopInfo) dependsOnLoop(v ssa.Value, seen map[ssa.Value]bool) bool {
	if v == nil || seen[v] {
		return false
	}
	seen[v] = true
	if v == ssa.Value(li.next) {
		return true
	}
	in, ok := v.(ssa.Instruction)
	if !ok {
		return false
	}
	if !li.blocks[in.Block()] {
		return false
	}
	if _, isPhi := v.(*ssa.Phi); isPhi && in.Block() == li.header {
		return true
	}
	if a, isAlloc := v.(*ssa.Alloc); isAlloc {
		// a local (e.g. the array behind variadic arguments): what is stored into it
		for _, b := range a.Parent().Blocks {
			for _, i2 := range b.Instrs {
				if st, ok := i2.(*ssa.Store); ok && baseAlloc(st.Addr) == a && li.dependsOnLoop(st.Val, seen) {
					return true
				}
			}
		}
	}
	for _, op := range in.Operands(nil) {
		if *op != nil && li.dependsOnLoop(*op, seen) {
			return true
		}
	}
	return false
}

var sortFuncs = map[string]bool{"sort.Strings": true, "sort.Ints": true, "sort.Slice": true, "sort.SliceStable": true, "sort.Sort": true, "sort.Stable": true, "slices.Sort": true, "slices.SortFunc": true, "sort.Float64s": true}

var pureStd = []string{"strings.", "fmt.Sprintf", "fmt.Sprint", "fmt.Errorf", "bytes.", "unicode.", "strconv.", "math/big.", "(*math/big.Int).Cmp", "(*math/big.Int).BitLen", "errors.New", "(github.com/zmap/zcrypto/encoding/asn1.ObjectIdentifier).", "(encoding/asn1.ObjectIdentifier).", "(time.Time).", "net.ParseIP", "(net.IP)."}

// classifyMapLoop returns "" when the loop is order-insensitive by a recognised
// form, otherwise the reason.
func classifyMapLoop(li *loopInfo, e *Effects) (form string, why string) {
	f := li.rg.Parent()
	// inner exits
	earlyReturnKeys := map[string]bool{}
	for b := range li.blocks {
		for _, in := range b.Instrs {
			switch x := in.(type) {
			case *ssa.Return:
				var parts []string
				for _, rv := range retVals(x) {
					if li.dependsOnLoop(rv, map[ssa.Value]bool{}) {
						return "", "a value depending on the iteration (" + apath(rv) + ") is returned from inside the loop: which entry is met first decides the result"
					}
					parts = append(parts, retShape(rv))
				}
				earlyReturnKeys[strings.Join(parts, ",")] = true
			case *ssa.Panic:
				return "", "panic inside a map range"
			case *ssa.MapUpdate:
				if x.Map == li.rg.X || apath(x.Map) == apath(li.rg.X) {
					return "", "entries are inserted into the map being ranged over (" + apath(x.Map) + "): whether they are visited is unspecified, and what is combined depends on iteration order"
				}
				if li.dependsOnLoop(x.Value, map[ssa.Value]bool{}) {
					// m[k] = f(loop): fine if key also depends on loop (per-entry store); a fixed key would keep the last one
					if !li.dependsOnLoop(x.Key, map[ssa.Value]bool{}) {
						return "", "a loop-dependent value is stored under a fixed key (last iteration wins)"
					}
				}
			case *ssa.Store:
				if baseAlloc(x.Addr) == nil {
					if li.dependsOnLoop(x.Val, map[ssa.Value]bool{}) {
						return "", "a loop-dependent value is stored to " + apath(x.Addr) + " (last iteration wins)"
					}
				} else if li.dependsOnLoop(x.Val, map[ssa.Value]bool{}) {
					if _, isIdx := x.Addr.(*ssa.IndexAddr); !isIdx {
						// store into a local cell that outlives the iteration?
						if a := baseAlloc(x.Addr); a != nil && !li.blocks[a.Block()] {
							// varargs arrays etc. are allocated inside the loop; an outer cell keeps the last value
							return "", "a loop-dependent value is stored into a variable that outlives the loop (last iteration wins)"
						}
					}
				}
			case ssa.CallInstruction:
				cc := x.Common()
				if bi, ok := cc.Value.(*ssa.Builtin); ok {
					switch bi.Name() {
					case "append", "len", "cap", "new", "make", "min", "max":
					case "delete":
					default:
						return "", "builtin " + bi.Name() + " inside a map range"
					}
					continue
				}
				name := staticCalleeName(cc)
				pure := false
				for _, p := range pureStd {
					if strings.HasPrefix(name, p) {
						pure = true
					}
				}
				if !pure {
					callee := cc.StaticCallee()
					if callee != nil && isModFunc(callee) {
						if s := e.sum[callee]; s != nil && s.modP == 0 && len(e.ModGlobals(callee)) == 0 {
							pure = true
						}
					}
				}
				if !pure {
					// a nested range loop's helper or an effectful call
					return "", "call of " + name + " inside a map range is not known to be free of side effects"
				}
			}
		}
	}
	if len(earlyReturnKeys) > 1 {
		return "", fmt.Sprintf("different results are returned from inside the loop (%d distinct): the first matching entry decides", len(earlyReturnKeys))
	}
	// loop-carried values
	carried := 0
	for _, in := range li.header.Instrs {
		phi, ok := in.(*ssa.Phi)
		if !ok {
			break
		}
		carried++
		// a loop-carried value may only feed its own update: if an iteration
		// tests or stores it, what happens depends on the entries met before
		if why := carriedUsedInLoop(li, phi); why != "" {
			return "", why
		}
		kind := carriedKind(li, phi)
		switch kind {
		case "append":
			if why := sortedBeforeUse(li, phi); why != "" {
				return "", why
			}
			form = "collect-then-sort"
		case "commutative", "constant":
			if form == "" {
				form = "commutative accumulation"
			}
		default:
			return "", "loop-carried value " + phi.Comment + " is updated in a way that is not recognised as order-insensitive (" + kind + ")"
		}
	}
	if form == "" {
		if len(earlyReturnKeys) == 1 {
			form = "uniform early exit"
		} else {
			form = "independent per-entry effects"
		}
	}
	_ = f
	return form, ""
}

func carriedUsedInLoop(li *loopInfo, phi *ssa.Phi) string {
	for _, ref := range *phi.Referrers() {
		if !li.blocks[ref.Block()] {
			continue
		}
		switch x := ref.(type) {
		case *ssa.Phi:
			continue
		case *ssa.BinOp:
			switch x.Op {
			case token.ADD, token.OR, token.AND, token.XOR, token.MUL:
				// part of the accumulation if it flows back into the phi only
				back := true
				for _, r2 := range *x.Referrers() {
					if _, isPhi := r2.(*ssa.Phi); !isPhi && li.blocks[r2.Block()] {
						back = false
					}
				}
				if back {
					continue
				}
			}
			return "the loop tests or combines the running value " + phi.Comment + " (" + x.String() + "): an iteration's effect depends on the entries visited before it"
		case *ssa.Call:
			if b, ok := x.Call.Value.(*ssa.Builtin); ok && b.Name() == "append" && len(x.Call.Args) > 0 && x.Call.Args[0] == ssa.Value(phi) {
				continue
			}
			return "the running value " + phi.Comment + " is passed to a call inside the loop"
		case *ssa.DebugRef:
			continue
		default:
			return fmt.Sprintf("the running value %s is used by %T inside the loop", phi.Comment, ref)
		}
	}
	return ""
}

func retShape(v ssa.Value) string {
	switch x := v.(type) {
	case *ssa.Const:
		return "const:" + x.String()
	case *ssa.Alloc:
		// &LintResult{...} built in the returning block: describe by its constant stores
		var parts []string
		for _, ref := range *x.Referrers() {
			if fa, ok := ref.(*ssa.FieldAddr); ok {
				for _, rr := range *fa.Referrers() {
					if st, ok := rr.(*ssa.Store); ok && st.Addr == fa {
						if k, ok := st.Val.(*ssa.Const); ok {
							parts = append(parts, fieldVar(fa).Name()+"="+k.String())
						} else {
							parts = append(parts, fieldVar(fa).Name()+"="+apath(st.Val))
						}
					}
				}
			}
		}
		sort.Strings(parts)
		return "lit{" + strings.Join(parts, ",") + "}"
	}
	return apath(v)
}

// carriedKind classifies how a header phi is updated within the loop.
func carriedKind(li *loopInfo, phi *ssa.Phi) string {
	kinds := map[string]bool{}
	var visit func(v ssa.Value, depth int)
	seen := map[ssa.Value]bool{}
	visit = func(v ssa.Value, depth int) {
		if seen[v] || depth > 20 {
			return
		}
		seen[v] = true
		if v == ssa.Value(phi) {
			return
		}
		switch x := v.(type) {
		case *ssa.Const:
			kinds["constant"] = true
		case *ssa.Phi:
			for _, e := range x.Edges {
				visit(e, depth+1)
			}
		case *ssa.Call:
			if b, ok := x.Call.Value.(*ssa.Builtin); ok && b.Name() == "append" {
				kinds["append"] = true
				visit(x.Call.Args[0], depth+1)
				return
			}
			kinds["call:"+staticCalleeName(&x.Call)] = true
		case *ssa.BinOp:
			switch x.Op {
			case token.ADD, token.OR, token.AND, token.XOR, token.MUL:
				if _, isStr := x.Type().Underlying().(*types.Basic); isStr && x.Type().Underlying().(*types.Basic).Info()&types.IsString != 0 {
					kinds["string-concat"] = true
					return
				}
				kinds["commutative"] = true
				// one operand must lead back to the phi
				visit(x.X, depth+1)
				visit(x.Y, depth+1)
			default:
				kinds["binop "+x.Op.String()] = true
			}
		default:
			if in, ok := v.(ssa.Instruction); ok && li.blocks[in.Block()] {
				// an operand of a commutative update (e.g. a per-entry value)
				return
			}
		}
	}
	for i, e := range phi.Edges {
		if li.blocks[phi.Block().Preds[i]] {
			visit(e, 0)
		}
	}
	if kinds["append"] {
		for k := range kinds {
			if k != "append" && k != "constant" {
				return k
			}
		}
		return "append"
	}
	for k := range kinds {
		if k != "commutative" && k != "constant" {
			return k
		}
	}
	if kinds["commutative"] {
		return "commutative"
	}
	return "constant"
}

// sortedBeforeUse: the slice accumulated in phi is passed to a sort function
// before any order-sensitive use after the loop (len and nil tests are
// order-insensitive).
func sortedBeforeUse(li *loopInfo, phi *ssa.Phi) string {
	var sorts []ssa.Instruction
	type use struct {
		in ssa.Instruction
	}
	var uses []ssa.Instruction
	var collect func(v ssa.Value, depth int)
	seen := map[ssa.Value]bool{}
	collect = func(v ssa.Value, depth int) {
		if seen[v] || depth > 6 {
			return
		}
		seen[v] = true
		refs := v.Referrers()
		if refs == nil {
			return
		}
		for _, ref := range *refs {
			if li.blocks[ref.Block()] {
				continue
			}
			switch x := ref.(type) {
			case *ssa.Phi:
				collect(x, depth+1)
				continue
			case *ssa.MakeInterface:
				collect(x, depth+1)
				continue
			case *ssa.ChangeType:
				collect(x, depth+1)
				continue
			case *ssa.Store:
				// spilled result cell (functions with defers): follow loads of the cell
				if a, ok := x.Addr.(*ssa.Alloc); ok && x.Val == v {
					for _, r2 := range *a.Referrers() {
						if ld, ok := r2.(*ssa.UnOp); ok && ld.Op == token.MUL {
							collect(ld, depth+1)
						}
					}
					continue
				}
			case *ssa.BinOp:
				if isNilConst(x.X) || isNilConst(x.Y) {
					continue
				}
			case ssa.CallInstruction:
				cc := x.Common()
				if b, ok := cc.Value.(*ssa.Builtin); ok && (b.Name() == "len" || b.Name() == "cap") {
					continue
				}
				if sortFuncs[staticCalleeName(cc)] && len(cc.Args) > 0 && stripConv(cc.Args[0]) == stripConv(v) {
					sorts = append(sorts, x)
					continue
				}
			}
			uses = append(uses, ref)
		}
	}
	collect(phi, 0)
	if len(uses) == 0 {
		return ""
	}
	if len(sorts) == 0 {
		return fmt.Sprintf("the list collected from the map (%s) is used at %s without being sorted: its order changes from run to run", phi.Comment, posOf(uses[0]))
	}
	for _, u := range uses {
		ok := false
		for _, s := range sorts {
			if instrDominates(s, u) {
				ok = true
			}
		}
		if !ok {
			return fmt.Sprintf("the list collected from the map (%s) is used at %s before it is sorted", phi.Comment, posOf(u))
		}
	}
	return ""
}

func posOf(in ssa.Instruction) string {
	p := in.Parent().Prog.Fset.Position(in.Pos())
	return fmt.Sprintf("%s:%d", filepath.Base(p.Filename), p.Line)
}

// lintReachable: module functions reachable from lint methods and the framework entry points.
func lintReachable(c *Ctx, cs *Census, e *Effects) map[*ssa.Function]bool {
	reach := map[*ssa.Function]bool{}
	var stack []*ssa.Function
	push := func(f *ssa.Function) {
		if f != nil && !reach[f] && isModFunc(f) {
			reach[f] = true
			stack = append(stack, f)
		}
	}
	for _, reg := range cs.Regs {
		push(reg.CheckApplies)
		push(reg.Execute)
		push(reg.Configure)
		push(reg.Ctor)
	}
	for _, k := range c01Kinds {
		push(c.Func("", k.ex))
	}
	for len(stack) > 0 {
		f := stack[len(stack)-1]
		stack = stack[:len(stack)-1]
		for _, a := range f.AnonFuncs {
			push(a)
		}
		if n := e.cg.Nodes[f]; n != nil {
			for _, out := range n.Out {
				push(out.Callee.Func)
			}
		}
	}
	return reach
}

func c05MapOrder(c *Ctx, r *Report, cs *Census, e *Effects) {
	reach := lintReachable(c, cs, e)
	var fns []*ssa.Function
	for f := range reach {
		fns = append(fns, f)
	}
	sort.Slice(fns, func(i, j int) bool { return fns[i].String() < fns[j].String() })
	n := 0
	for _, f := range fns {
		loops := findMapLoops(f)
		for i, li := range loops {
			n++
			id := fmt.Sprintf("%s|range#%d", fname(f), i+1)
			form, why := classifyMapLoop(li, e)
			if why != "" {
				r.Bad("map-order", id, li.rg.Pos(), "range over map "+trimStr(apath(li.rg.X), 50)+" whose effect depends on iteration order: "+why)
			} else {
				r.OK("map-order", id, li.rg.Pos(), true, form)
				r.Sample(map[string]interface{}{"map_range": id, "at": c.Pos(li.rg.Pos()), "form": form})
			}
		}
	}
	// iterators over a map handed out by package maps: the order is the map's
	// (random) order unless the sequence is sorted at once
	for _, f := range fns {
		allInstrs(f, func(in ssa.Instruction) {
			call, ok := in.(*ssa.Call)
			if !ok {
				return
			}
			g := call.Call.StaticCallee()
			if g == nil || fnPkgPath(g) != "maps" {
				return
			}
			base := g.Name()
			if o := g.Origin(); o != nil {
				base = o.Name()
			}
			if base != "Keys" && base != "Values" && base != "All" {
				return
			}
			n++
			id := fmt.Sprintf("%s|maps.%s(%s)", fname(f), base, trimStr(apath(call.Call.Args[0]), 40))
			why := mapSeqSorted(call)
			if why != "" {
				r.Bad("map-order", id, call.Pos(), "maps."+base+" yields the entries in map iteration order: "+why)
			} else {
				r.OK("map-order", id, call.Pos(), true, "sequence sorted before any other use")
			}
		})
	}
	r.Floor("map ranges reachable from lints", 3, n)
	r.Extra["functions_reachable_from_lints"] = len(fns)
}

// mapSeqSorted: the iterator returned by maps.Keys/Values is consumed only by
// slices.Sorted* (sorted at once), or by slices.Collect whose result is sorted
// by its first use. "" = yes.
func mapSeqSorted(seq *ssa.Call) string {
	if seq.Referrers() == nil {
		return ""
	}
	for _, ref := range *seq.Referrers() {
		if _, dbg := ref.(*ssa.DebugRef); dbg {
			continue
		}
		c2, ok := ref.(*ssa.Call)
		if !ok || c2.Call.StaticCallee() == nil || fnPkgPath(c2.Call.StaticCallee()) != "slices" || len(c2.Call.Args) == 0 || c2.Call.Args[0] != ssa.Value(seq) {
			return "the sequence is used by " + trimStr(ref.String(), 60) + " without being sorted"
		}
		g := c2.Call.StaticCallee()
		base := g.Name()
		if o := g.Origin(); o != nil {
			base = o.Name()
		}
		switch base {
		case "Sorted", "SortedFunc", "SortedStableFunc":
			continue
		case "Collect", "AppendSeq":
			// first use of the collected slice must be a sort
			var first ssa.Instruction
			for _, r2 := range *c2.Referrers() {
				if _, dbg := r2.(*ssa.DebugRef); dbg {
					continue
				}
				if first == nil || (r2.Block() == first.Block() && instrIndex(r2) < instrIndex(first)) || r2.Block().Dominates(first.Block()) && r2.Block() != first.Block() {
					first = r2
				}
			}
			fc, ok := first.(*ssa.Call)
			if !ok || fc.Call.StaticCallee() == nil {
				return "the collected slice is used before it is sorted"
			}
			switch funcCallName(fc.Call.StaticCallee()) {
			case "sort.Strings", "sort.Ints", "sort.Slice", "sort.SliceStable", "sort.Sort", "sort.Stable":
				continue
			}
			if fnPkgPath(fc.Call.StaticCallee()) == "slices" && strings.HasPrefix(fc.Call.StaticCallee().Name(), "Sort") {
				continue
			}
			return "the collected slice is used by " + funcCallName(fc.Call.StaticCallee()) + " before it is sorted"
		default:
			return "the sequence is consumed by slices." + base + " in map order"
		}
	}
	return ""
}

// ---------------------------------------------------------------------------
// API policy

var forbiddenPkgs = map[string]bool{
	"os": true, "os/exec": true, "os/signal": true, "os/user": true, "syscall": true, "net/http": true, "io/ioutil": true, "io/fs": true,
	"path/filepath": true, "log": true, "math/rand": true, "math/rand/v2": true, "crypto/rand": true, "runtime": true, "unsafe": true, "plugin": true,
	"runtime/debug": true, "net/rpc": true, "net/smtp": true, "database/sql": true, "embed": true, "github.com/sirupsen/logrus": true, "context": true,
}

var netPure = map[string]bool{"IP": true, "IPNet": true, "IPMask": true, "ParseIP": true, "ParseCIDR": true, "CIDRMask": true, "IPv4": true, "IPv4Mask": true,
	"IPv4len": true, "IPv6len": true, "IPv4zero": true, "IPv6zero": true, "IPv6unspecified": true, "IPv6loopback": true, "IPv4bcast": true, "IPv4allsys": true, "IPv4allrouter": true,
	"ParseError": true, "AddrError": true, "SplitHostPort": true, "JoinHostPort": true, "InvalidAddrError": true}

// methods of time.Time whose result does not depend on the value's location
var timeZoneFree = map[string]bool{"UTC": true, "In": true, "Before": true, "After": true, "Equal": true, "Compare": true, "Sub": true, "Unix": true, "UnixNano": true, "UnixMilli": true, "UnixMicro": true, "IsZero": true}

var timeImpure = map[string]bool{"Now": true, "Since": true, "Until": true, "Sleep": true, "After": true, "Tick": true, "NewTimer": true, "NewTicker": true, "AfterFunc": true, "LoadLocation": true, "Local": true, "LoadLocationFromTZData": true}

// who may use what: enclosing function (rendered pkg.Func or pkg.(T).M) → object → reason
var apiAllowed = map[string]map[string]string{
	"lint.NewConfigFromFile":  {"os.Open": "the explicit configuration loader", "(*os.File).Close": "the explicit configuration loader"},
	"zlint.LintCertificateEx": {"time.Now": "ResultSet.Timestamp"}, "zlint.LintRevocationListEx": {"time.Now": "ResultSet.Timestamp"}, "zlint.LintOcspResponseEx": {"time.Now": "ResultSet.Timestamp"},
	"lints/cabf_br.(*subCertAIAInternalName).Execute":              {"time.Now": "TLD table consulted as of today (exception named by the property)"},
	"lints/cabf_smime_br.(*smimeAIAContainsInternalNames).Execute": {"time.Now": "TLD table consulted as of today (exception named by the property)"},
	"lint.(Configuration).resolveHigherScopedReferences":           {"(reflect.Value).Set": "fills the fresh instance's configuration struct"},
}

var reviewedThirdParty = []string{"github.com/zmap/zcrypto/", "golang.org/x/crypto/", "golang.org/x/net/idna", "golang.org/x/text/", "github.com/pelletier/go-toml", "github.com/weppos/publicsuffix-go/", "golang.org/x/net/publicsuffix"}

var reviewedModules = map[string]bool{"github.com/kr/text": true, "github.com/pelletier/go-toml": true, "github.com/sirupsen/logrus": true, "github.com/zmap/zcrypto": true,
	"golang.org/x/crypto": true, "golang.org/x/net": true, "golang.org/x/text": true, "github.com/weppos/publicsuffix-go": true, "golang.org/x/sys": true}

func enclosingName(p *packages.Package, file *ast.File, pos token.Pos) string {
	fd := enclosingFunc(file, pos)
	rel := relPkg(p.PkgPath)
	if fd == nil {
		return rel + ".<package scope>"
	}
	if fd.Recv != nil && len(fd.Recv.List) == 1 {
		t := types.ExprString(fd.Recv.List[0].Type)
		return rel + ".(" + t + ")." + fd.Name.Name
	}
	return rel + "." + fd.Name.Name
}

// ssaWhere names a declared function the way enclosingName does.
func ssaWhere(f *ssa.Function) string {
	rel := ""
	if f.Pkg != nil {
		rel = relPkg(f.Pkg.Pkg.Path())
	}
	if fd, ok := f.Syntax().(*ast.FuncDecl); ok && fd.Recv != nil && len(fd.Recv.List) == 1 {
		return rel + ".(" + types.ExprString(fd.Recv.List[0].Type) + ")." + fd.Name.Name
	}
	return rel + "." + f.Name()
}

func objName(o types.Object) string {
	if f, ok := o.(*types.Func); ok {
		return f.FullName()
	}
	if o.Pkg() != nil {
		return o.Pkg().Path() + "." + o.Name()
	}
	return o.Name()
}

func c05API(c *Ctx, r *Report) {
	nuses, nflag := 0, 0
	usedAllow := map[string]bool{}
	for _, p := range c.Mod {
		if !scopePkg(p.PkgPath) {
			continue
		}
		// imports
		for _, f := range p.Syntax {
			for _, im := range f.Imports {
				path := strings.Trim(im.Path.Value, `"`)
				ok := isModPath(path)
				if !ok && !strings.Contains(strings.Split(path, "/")[0], ".") {
					ok = true // standard library: individual objects are policed below
				}
				for _, pre := range reviewedThirdParty {
					if strings.HasPrefix(path, pre) || path == strings.TrimSuffix(pre, "/") {
						ok = true
					}
				}
				if !ok {
					r.Bad("imports-reviewed", relPkg(p.PkgPath)+"|"+path, im.Pos(), "package "+path+" is imported by lint code but is not in the list of libraries reviewed as pure computation: classify it (I/O free and deterministic?) before use")
				}
			}
		}
		type use struct {
			id  *ast.Ident
			obj types.Object
		}
		var uses []use
		for id, obj := range p.TypesInfo.Uses {
			uses = append(uses, use{id, obj})
		}
		sort.Slice(uses, func(i, j int) bool { return uses[i].id.Pos() < uses[j].id.Pos() })
		fileOf := func(pos token.Pos) *ast.File {
			for _, f := range p.Syntax {
				if f.Pos() <= pos && pos < f.End() {
					return f
				}
			}
			return nil
		}
		for _, u := range uses {
			obj := u.obj
			if obj.Pkg() == nil {
				continue
			}
			if _, isPkgName := obj.(*types.PkgName); isPkgName {
				continue
			}
			path := obj.Pkg().Path()
			flagged := ""
			switch {
			case forbiddenPkgs[path]:
				flagged = "package " + path + " gives access to the process, file system, network or a source of nondeterminism"
			case path == "net":
				name := obj.Name()
				if f, ok := obj.(*types.Func); ok {
					if sig := f.Type().(*types.Signature); sig.Recv() != nil {
						// methods of the pure types are fine
						rt := sig.Recv().Type().String()
						if strings.Contains(rt, "net.IP") || strings.Contains(rt, "net.IPNet") || strings.Contains(rt, "net.IPMask") || strings.Contains(rt, "Error") {
							continue
						}
						flagged = "net." + rt + "." + name + " is outside the pure address API"
						break
					}
				}
				if v, ok := obj.(*types.Var); ok && v.IsField() {
					continue
				}
				if !netPure[name] {
					flagged = "net." + name + " is outside the pure address API (ParseIP, ParseCIDR, IP, IPNet, …)"
				}
			case path == "time" && timeImpure[obj.Name()]:
				if f, ok := obj.(*types.Func); ok && f.Type().(*types.Signature).Recv() != nil && obj.Name() != "Local" {
					continue
				}
				flagged = "time." + obj.Name() + " makes the result depend on the wall clock / host configuration"
			case path == "fmt" && (strings.HasPrefix(obj.Name(), "Print") || strings.HasPrefix(obj.Name(), "Scan") || strings.HasPrefix(obj.Name(), "Fscan") || strings.HasPrefix(obj.Name(), "Sscan") && false):
				flagged = "fmt." + obj.Name() + " performs console I/O"
			case path == "reflect" && strings.HasPrefix(obj.Name(), "Set"):
				if f, ok := obj.(*types.Func); ok && f.Type().(*types.Signature).Recv() != nil {
					flagged = "reflect.Value." + obj.Name() + " writes memory behind the analysis' back"
				}
			}
			if flagged == "" {
				continue
			}
			nuses++
			file := fileOf(u.id.Pos())
			where := enclosingName(p, file, u.id.Pos())
			// a renamed anchor keeps the name the table knows it by
			if fd := enclosingFunc(file, u.id.Pos()); fd != nil {
				if fobj, _ := p.TypesInfo.Defs[fd.Name].(*types.Func); fobj != nil {
					if fn := c.Prog.FuncValue(fobj); fn != nil {
						if old := aliasedBase(fn); old != "" {
							if i := strings.LastIndex(where, "."); i >= 0 {
								where = where[:i+1] + old
							}
						}
					}
				}
			}
			on := objName(obj)
			if reason, ok := apiAllowed[where][on]; ok {
				usedAllow[where+"|"+on] = true
				r.OK("api-policy", where+"|"+on, u.id.Pos(), true, "allowed: "+reason)
				continue
			}
			// a helper newer than the table acts for its callers: allowed when every
			// function it runs on behalf of is allowed this use
			if fd := enclosingFunc(file, u.id.Pos()); fd != nil {
				if fobj, _ := p.TypesInfo.Defs[fd.Name].(*types.Func); fobj != nil {
					if fn := c.Prog.FuncValue(fobj); fn != nil && isNewFunc(fn) {
						owners, okOwn := ownerFuncs(c, fn)
						all := okOwn && len(owners) > 0
						var names []string
						for _, o := range owners {
							ow := ssaWhere(o)
							names = append(names, ow)
							if _, ok := apiAllowed[ow][on]; !ok {
								all = false
							} else {
								usedAllow[ow+"|"+on] = true
							}
						}
						if all {
							r.OK("api-policy", where+"|"+on, u.id.Pos(), true, "new helper acting only for "+strings.Join(names, ", ")+", which may use "+on)
							continue
						}
					}
				}
			}
			nflag++
			r.Bad("api-policy", where+"|"+on, u.id.Pos(), where+" uses "+on+": "+flagged)
		}
		// statements: go, select, channel send/receive; instants built in the host's zone
		for _, f := range p.Syntax {
			file := f
			var stack []ast.Node
			ast.Inspect(file, func(n ast.Node) bool {
				if n == nil {
					stack = stack[:len(stack)-1]
					return true
				}
				stack = append(stack, n)
				switch x := n.(type) {
				case *ast.CallExpr:
					// time.Unix / UnixMilli / UnixMicro return the instant in time.Local: any
					// zone-dependent observation of it (Format, String, Year, Hour, Date, %v …)
					// depends on TZ / /etc/localtime. Accepted only when the value is at once
					// normalised (.UTC(), .In(<expr>)) or observed through a zone-free method.
					fn, _ := typeutil.Callee(p.TypesInfo, x).(*types.Func)
					if fn == nil || fn.Pkg() == nil || fn.Pkg().Path() != "time" || fn.Type().(*types.Signature).Recv() != nil {
						break
					}
					if nm := fn.Name(); nm != "Unix" && nm != "UnixMilli" && nm != "UnixMicro" {
						break
					}
					nuses++
					ok := false
					if len(stack) >= 3 {
						if sel, isSel := stack[len(stack)-2].(*ast.SelectorExpr); isSel && sel.X == x {
							if call, isCall := stack[len(stack)-3].(*ast.CallExpr); isCall && call.Fun == sel && timeZoneFree[sel.Sel.Name] {
								ok = true
							}
						}
					}
					where := enclosingName(p, file, x.Pos())
					r.Check(ok, "api-policy", where+"|time."+fn.Name()+"-local", x.Pos(), "the instant is normalised or observed zone-free at once",
						where+" builds a time.Time with time."+fn.Name()+", which is in the host's local zone (TZ, /etc/localtime): formatting or taking calendar fields of it makes the result depend on the environment; normalise with .UTC() first")
				case *ast.GoStmt:
					r.Bad("api-policy", enclosingName(p, file, x.Pos())+"|go", x.Pos(), "lint code starts a goroutine: scheduling makes the outcome nondeterministic")
				case *ast.SelectStmt:
					r.Bad("api-policy", enclosingName(p, file, x.Pos())+"|select", x.Pos(), "select statement in lint code")
				case *ast.SendStmt:
					r.Bad("api-policy", enclosingName(p, file, x.Pos())+"|chan-send", x.Pos(), "channel send in lint code")
				}
				return true
			})
		}
	}
	r.Extra["policed_api_uses"] = nuses
	r.Floor("allowed API uses seen (loader, timestamps, AIA lints, config resolver)", 7, len(usedAllow))
	// go.mod modules
	data, err := os.ReadFile(filepath.Join(c.V3Dir, "go.mod"))
	if err != nil {
		fault("go.mod: %v", err)
	}
	re := regexp.MustCompile(`(?m)^\s*([a-zA-Z0-9._/\-]+\.[a-zA-Z0-9._/\-]+)\s+v[0-9]`)
	for _, m := range re.FindAllStringSubmatch(string(data), -1) {
		r.Check(reviewedModules[m[1]], "imports-reviewed", "module|"+m[1], 0, "reviewed", "go.mod requires module "+m[1]+" which has not been reviewed for I/O and nondeterminism")
	}
}

// clockOnlyCompared: the two AIA internal-name lints may read the clock (the
// property names them), but only to ask the TLD table "delegated today?": the
// time.Now() value may flow, through module functions, only into the instant
// comparisons of time.Time. Formatting it, boxing it into an interface (fmt
// arguments, error texts), taking calendar fields, or storing it makes Details —
// or the verdict — differ between two runs on the same day.
func clockOnlyCompared(c *Ctx, r *Report) {
	compare := map[string]bool{"Before": true, "After": true, "Equal": true, "Compare": true, "IsZero": true}
	n := 0
	for _, f := range modFunctions(c) {
		if !strings.HasPrefix(relPkg(fnPkgPath(f)), "lints/") {
			continue
		}
		allInstrs(f, func(in ssa.Instruction) {
			call, ok := in.(*ssa.Call)
			if !ok || staticCalleeName(&call.Call) != "time.Now" {
				return
			}
			n++
			seen := map[ssa.Value]bool{}
			bad := ""
			var follow func(v ssa.Value, where *ssa.Function, depth int)
			follow = func(v ssa.Value, where *ssa.Function, depth int) {
				if seen[v] || bad != "" || v.Referrers() == nil {
					return
				}
				seen[v] = true
				if depth > 6 {
					bad = "the clock value is handed on through more than six calls"
					return
				}
				for _, ref := range *v.Referrers() {
					switch x := ref.(type) {
					case *ssa.DebugRef:
					case *ssa.Phi:
						follow(x, where, depth)
					case *ssa.Store:
						// a local cell (the value was spilled): follow what is loaded from it
						if a, isAlloc := x.Addr.(*ssa.Alloc); isAlloc && x.Val == v && !a.Heap {
							for _, r2 := range *a.Referrers() {
								if ld, isLd := r2.(*ssa.UnOp); isLd && ld.Op == token.MUL {
									follow(ld, where, depth)
								}
							}
						} else if x.Val == v {
							bad = "the clock value is stored into " + apath(x.Addr) + " in " + fname(where)
						}
					case ssa.CallInstruction:
						cc := x.Common()
						g := cc.StaticCallee()
						switch {
						case g != nil && g.Signature.Recv() != nil && fnPkgPath(g) == "time" && compare[g.Name()]:
						case g != nil && isModFunc(g) && len(g.Blocks) > 0:
							for i, a := range cc.Args {
								if a == v && i < len(g.Params) {
									follow(g.Params[i], g, depth+1)
								}
							}
						default:
							name := staticCalleeName(cc)
							if name == "" {
								name = "a dynamic call"
							}
							bad = "the clock value is passed to " + name + " in " + fname(where) + " (" + c.Pos(x.Pos()) + ")"
						}
					default:
						bad = fmt.Sprintf("the clock value is used by %T in %s (%s)", ref, fname(where), c.Pos(ref.Pos()))
					}
				}
			}
			follow(call, f, 0)
			r.Check(bad == "", "clock-only-compared", ssaWhere(f)+"|time.Now", call.Pos(), "flows only into instant comparisons (via module helpers)",
				"the wall-clock value read in "+ssaWhere(f)+" must only be compared with table dates; "+bad+": the result then differs between repetitions on the same day")
		})
	}
	r.Floor("clock reads in lint packages followed", 2, n)
}
