package main

// ssahelp.go — shared SSA helpers: normalised access paths, dominance between
// instructions, call-site search.

import (
	"fmt"
	"go/token"
	"go/types"
	"strings"

	"golang.org/x/tools/go/ssa"
)

// apath renders a value as a position-free, name-normalised expression:
// parameters by name, field selections by field name, loads transparently
// ("p.f" is the value of the field, "&p.f" its address), calls by resolved
// callee. Used to compare constructs without depending on source text.
func apath(v ssa.Value) string { return apathD(v, 0) }

func apathD(v ssa.Value, d int) string {
	if v == nil {
		return "<nil>"
	}
	if d > 12 {
		return "…"
	}
	switch x := v.(type) {
	case *ssa.Parameter:
		if a, ok := apathSubst[x]; ok {
			return apathD(a, d+1)
		}
		return x.Name()
	case *ssa.FreeVar:
		return "^" + x.Name()
	case *ssa.Global:
		return "&" + relPkg(x.Pkg.Pkg.Path()) + "." + x.Name()
	case *ssa.Const:
		if x.Value == nil {
			return "nil"
		}
		return x.Value.ExactString()
	case *ssa.Function:
		return fname(x)
	case *ssa.Builtin:
		return x.Name()
	case *ssa.Alloc:
		if x.Comment != "" {
			return "&local:" + x.Comment
		}
		return "&local"
	case *ssa.FieldAddr:
		base := apathD(x.X, d+1)
		st := x.X.Type().Underlying().(*types.Pointer).Elem().Underlying().(*types.Struct)
		base = strings.TrimPrefix(base, "&")
		return "&" + base + "." + st.Field(x.Field).Name()
	case *ssa.Field:
		st := x.X.Type().Underlying().(*types.Struct)
		return apathD(x.X, d+1) + "." + st.Field(x.Field).Name()
	case *ssa.UnOp:
		if x.Op == token.MUL {
			in := apathD(x.X, d+1)
			if strings.HasPrefix(in, "&") {
				return in[1:]
			}
			return "*" + in
		}
		return x.Op.String() + apathD(x.X, d+1)
	case *ssa.IndexAddr:
		return "&" + strings.TrimPrefix(apathD(x.X, d+1), "&") + "[" + apathD(x.Index, d+1) + "]"
	case *ssa.Index:
		return apathD(x.X, d+1) + "[" + apathD(x.Index, d+1) + "]"
	case *ssa.Lookup:
		return apathD(x.X, d+1) + "[" + apathD(x.Index, d+1) + "]"
	case *ssa.Extract:
		return fmt.Sprintf("%s#%d", apathD(x.Tuple, d+1), x.Index)
	case *ssa.Call:
		return callStr(&x.Call, d)
	case *ssa.MakeInterface:
		return apathD(x.X, d+1)
	case *ssa.ChangeInterface:
		return apathD(x.X, d+1)
	case *ssa.ChangeType:
		return apathD(x.X, d+1)
	case *ssa.Convert:
		return "conv(" + apathD(x.X, d+1) + ")"
	case *ssa.Slice:
		return apathD(x.X, d+1) + "[:]"
	case *ssa.BinOp:
		return "(" + apathD(x.X, d+1) + " " + x.Op.String() + " " + apathD(x.Y, d+1) + ")"
	case *ssa.Phi:
		var es []string
		for _, e := range x.Edges {
			if e == v {
				continue
			}
			es = append(es, apathD(e, d+3))
		}
		return "phi(" + strings.Join(es, "|") + ")"
	case *ssa.TypeAssert:
		return apathD(x.X, d+1) + ".(" + shortType(x.AssertedType) + ")"
	case *ssa.MakeMap:
		return "makemap"
	case *ssa.MakeSlice:
		return "makeslice"
	case *ssa.MakeClosure:
		return "closure:" + fname(x.Fn.(*ssa.Function))
	case *ssa.Range:
		return "range(" + apathD(x.X, d+1) + ")"
	case *ssa.Next:
		return "next(" + apathD(x.Iter, d+1) + ")"
	}
	return fmt.Sprintf("%T", v)
}

func callStr(cc *ssa.CallCommon, d int) string {
	var args []string
	for _, a := range cc.Args {
		args = append(args, apathD(a, d+1))
	}
	if cc.IsInvoke() {
		return fmt.Sprintf("%s.%s(%s)", apathD(cc.Value, d+1), cc.Method.Name(), strings.Join(args, ", "))
	}
	if f := cc.StaticCallee(); f != nil {
		return fmt.Sprintf("%s(%s)", fname(f), strings.Join(args, ", "))
	}
	return fmt.Sprintf("%s(%s)", apathD(cc.Value, d+1), strings.Join(args, ", "))
}

// instrIndex returns the index of in within its block.
func instrIndex(in ssa.Instruction) int {
	for i, x := range in.Block().Instrs {
		if x == in {
			return i
		}
	}
	return -1
}

// instrDominates: a is executed before b on every path reaching b.
func instrDominates(a, b ssa.Instruction) bool {
	if a.Block() == b.Block() {
		return instrIndex(a) < instrIndex(b)
	}
	return a.Block().Dominates(b.Block())
}

// calleeIs: the call's static callee is the function pkgPath.name (methods:
// name is "(T).M" or "(*T).M" as rendered by types.Func.FullName sans package).
// funcCallName is the name a static call of f is recorded under.
func funcCallName(f *ssa.Function) string {
	if a := aliasRecvName(f); a != "" {
		return strings.ReplaceAll(strings.ReplaceAll(a, modPath+"/", ""), modPath+".", "zlint.")
	}
	if f.Object() != nil {
		if fo, ok := f.Object().(*types.Func); ok {
			n := strings.ReplaceAll(strings.ReplaceAll(fo.FullName(), modPath+"/", ""), modPath+".", "zlint.")
			if old := aliasedBase(f); old != "" {
				if i := strings.LastIndex(n, "."); i >= 0 {
					n = n[:i+1] + old
				}
			}
			return n
		}
	}
	return f.String()
}

func staticCalleeName(cc *ssa.CallCommon) string {
	if cc.IsInvoke() {
		return "invoke:" + cc.Method.FullName()
	}
	if f := cc.StaticCallee(); f != nil {
		return funcCallName(f)
	}
	if b, ok := cc.Value.(*ssa.Builtin); ok {
		return "builtin:" + b.Name()
	}
	return ""
}

// allInstrs iterates over all instructions of fn.
// apathSubst maps the parameters of a helper newer than the rules to the
// arguments of the call being looked through (set by allInstrsDeep only).
var apathSubst = map[*ssa.Parameter]ssa.Value{}

// allInstrsDeep is allInstrs that also looks through static calls of functions
// the reference tree did not have (newfuncs.go): their instructions are visited
// as if written at the call site, with access paths expressed in the caller's
// terms. Pattern rules use it so that extracting a helper does not hide the
// statements they look for.
func allInstrsDeep(fn *ssa.Function, f func(in ssa.Instruction)) {
	var walk func(g *ssa.Function, depth int)
	walk = func(g *ssa.Function, depth int) {
		for _, b := range g.Blocks {
			for _, in := range b.Instrs {
				f(in)
				call, ok := in.(ssa.CallInstruction)
				if !ok || depth >= 4 {
					continue
				}
				callee := call.Common().StaticCallee()
				if callee == nil || callee == g {
					continue
				}
				// looked through: helpers newer than the rules, and function literals of the
				// function under analysis itself (its own code, called through a local)
				if !isNewFunc(callee) && !(callee.Parent() != nil && outermost(callee) == outermost(fn)) {
					continue
				}
				args := call.Common().Args
				var set []*ssa.Parameter
				for i, p := range callee.Params {
					if i < len(args) {
						if _, dup := apathSubst[p]; !dup {
							apathSubst[p] = args[i]
							set = append(set, p)
						}
					}
				}
				walk(callee, depth+1)
				for _, p := range set {
					delete(apathSubst, p)
				}
			}
		}
	}
	walk(fn, 0)
}

func allInstrs(fn *ssa.Function, f func(in ssa.Instruction)) {
	for _, b := range fn.Blocks {
		for _, in := range b.Instrs {
			f(in)
		}
	}
}

// callsTo returns the call instructions in fn whose callee's full name is name.
func callsTo(fn *ssa.Function, name string) []ssa.CallInstruction {
	var out []ssa.CallInstruction
	allInstrs(fn, func(in ssa.Instruction) {
		if c, ok := in.(ssa.CallInstruction); ok && staticCalleeName(c.Common()) == name {
			out = append(out, c)
		}
	})
	return out
}

// returns lists the Return instructions of fn.
func returnsOf(fn *ssa.Function) []*ssa.Return {
	var out []*ssa.Return
	allInstrs(fn, func(in ssa.Instruction) {
		if r, ok := in.(*ssa.Return); ok {
			out = append(out, r)
		}
	})
	return out
}

func isNilConst(v ssa.Value) bool {
	k, ok := v.(*ssa.Const)
	return ok && k.IsNil()
}

// fieldOfAddr: if addr is &X.f (possibly through embedded structs) returns the
// final field name and the path string.
func fieldOfAddr(addr ssa.Value) (string, string, bool) {
	fa, ok := addr.(*ssa.FieldAddr)
	if !ok {
		return "", "", false
	}
	st := fa.X.Type().Underlying().(*types.Pointer).Elem().Underlying().(*types.Struct)
	return st.Field(fa.Field).Name(), apath(addr), true
}

// structFieldVar returns the *types.Var of the field addressed by fa.
func fieldVar(fa *ssa.FieldAddr) *types.Var {
	st := fa.X.Type().Underlying().(*types.Pointer).Elem().Underlying().(*types.Struct)
	return st.Field(fa.Field)
}

// reachesWithout: is there a CFG path from block 'from' (start of block) to
// block 'to' that does not pass through any block in 'avoid'?
func reachesWithout(from, to *ssa.BasicBlock, avoid map[*ssa.BasicBlock]bool) bool {
	seen := map[*ssa.BasicBlock]bool{}
	var dfs func(b *ssa.BasicBlock) bool
	dfs = func(b *ssa.BasicBlock) bool {
		if b == to {
			return true
		}
		if seen[b] || avoid[b] {
			return false
		}
		seen[b] = true
		for _, s := range b.Succs {
			if dfs(s) {
				return true
			}
		}
		return false
	}
	if avoid[from] && from != to {
		return false
	}
	return dfs(from)
}

// stripConv peels conversions and interface wrappers.
func stripConv(v ssa.Value) ssa.Value {
	for {
		switch x := v.(type) {
		case *ssa.ChangeType:
			v = x.X
		case *ssa.Convert:
			v = x.X
		case *ssa.MakeInterface:
			v = x.X
		case *ssa.ChangeInterface:
			v = x.X
		default:
			return v
		}
	}
}

// retVals resolves the results of a Return. Functions with a defer spill
// their results into local cells ("*t0 = v; rundefers; t = *t0; return t");
// the value stored last into the cell in the returning block is reported.
func retVals(ret *ssa.Return) []ssa.Value {
	out := make([]ssa.Value, len(ret.Results))
	for i, v := range ret.Results {
		out[i] = v
		ld, ok := v.(*ssa.UnOp)
		if !ok || ld.Op != token.MUL {
			continue
		}
		cell, ok := ld.X.(*ssa.Alloc)
		if !ok {
			continue
		}
		for _, in := range ret.Block().Instrs {
			if st, ok := in.(*ssa.Store); ok && st.Addr == cell {
				out[i] = st.Val
			}
		}
	}
	return out
}

// realReturns lists the Return instructions outside the synthetic recover block.
func realReturns(fn *ssa.Function) []*ssa.Return {
	var out []*ssa.Return
	for _, r := range returnsOf(fn) {
		if r.Block() == fn.Recover {
			continue
		}
		out = append(out, r)
	}
	return out
}
