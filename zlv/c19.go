package main

import (
	"fmt"
	"go/ast"
	"go/constant"
	"go/token"
	"go/types"
	"net"
	"sort"
	"strings"

	"golang.org/x/tools/go/ssa"
)

func init() { register("C19", runC19) }

// required classifications (from the property statement)
var c19Reserved = []string{
	"10.0.0.0/8", "172.16.0.0/12", "192.168.0.0/16", "127.0.0.0/8", "169.254.0.0/16", "100.64.0.0/10",
	"192.0.2.0/24", "198.51.100.0/24", "203.0.113.0/24", "198.18.0.0/15", "224.0.0.0/4", "240.0.0.0/4",
	"255.255.255.255/32", "0.0.0.0/8", "::/128", "::1/128", "fc00::/7", "fe80::/10", "ff00::/8",
	"2001:db8::/32", "2002::/16", "100::/64",
}

var c19Public = []string{"8.8.8.8", "1.1.1.1", "9.9.9.9", "208.67.222.222", "2606:4700:4700::1111", "2001:4860:4860::8888", "2620:fe::fe"}

// ranges covered only by the IsGlobalUnicast shortcut unless listed
var c19NotGU = []string{"0.0.0.0/32", "127.0.0.0/8", "224.0.0.0/4", "169.254.0.0/16", "255.255.255.255/32", "::/128", "::1/128", "ff00::/8", "fe80::/10"}

func runC19(c *Ctx, tier string) {
	r := NewReport("C19", "other", tier, c)
	r.Explanation = "(1) shape: the decision tables of util.IsIANAReserved and util.IntersectsIANAReserved (loop over util.reservedNetworks unrolled twice, only the index carried) equal ¬GlobalUnicast(ip) ∨ ∃n∈T. n.Contains(ip) and ¬GlobalUnicast(N.IP) ∨ ∃n∈T. (n.Contains(N.IP) ∨ N.Contains(n.IP)) over the same table T; T is written only by init, which appends the ParseCIDR result of every literal of the table and panics on a parse error. (2) table: all CIDR literals are read from the syntax tree and parse; with the model established in (1) (net.IP/IPNet semantics from the Go library, trusted) the checker computes: first and last address of every special-purpose block of the statement are reserved in 4-byte and IPv4-mapped form; well-known public addresses are not; (3) monotonicity: for every table entry, every required block and every range covered only by the non-global-unicast shortcut, every proper supernet intersects (prefixes nest or are disjoint, so these are the only ways a supernet of an intersecting network could fail to intersect); (4) single-address networks: for the first/last address a of every block and entry, Intersects(a/32|128) = IsReserved(a); (5) lints: decision tables of the SAN, common-name and name-constraint lints report Error iff some entry is reserved / intersects. Does not decide net library semantics nor the .arpa lint's string parsing."
	r.Rule("shape; table-writers; cidr-parses; block-reserved; public-not-reserved; supernet-intersects; single-address-agrees; lint-reports")
	r.Trusted = []string{"net.IP.IsGlobalUnicast, net.IPNet.Contains, net.ParseCIDR (used by the checker as the model)", "go/ssa"}

	ok := c19Shape(c, r)
	lits := c19Table(c, r)
	if ok && len(lits) > 0 {
		c19Classify(c, r, lits)
	}
	c19Lints(c, r)
	c19Arpa(c, r)
	// premise of every per-lint rule of this property: the verdict is computed on the
	// object as parsed and on immutable tables — no lint method (any lint may run
	// earlier in the same pass) writes memory reachable from the linted object or a
	// package-level variable (C05 rules 1-2)
	{
		csP := BuildCensus(c)
		c05Effects(c, r, csP, NewEffects(c))
	}
	cnIsIPTable(c, r)
	r.Finish()
}

func c19Shape(c *Ctx, r *Report) bool {
	noInline := func(*ssa.Function) bool { return false }
	allOK := true
	for _, name := range []string{"IsIANAReserved", "IntersectsIANAReserved"} {
		fn := c.Func("util", name)
		outs, abort := Enumerate(fn, SymOpts{Inline: noInline, LoopBound: 2})
		if abort != "" {
			r.Unk("shape", name, fn.Pos(), abort)
			allOK = false
			continue
		}
		if why := onlyIndexCarried(fn, 0, nil); why != "" {
			r.Unk("shape", name+"|loop-shape", fn.Pos(), why)
			allOK = false
			continue
		}
		p := fn.Params[0].Name()
		ipT := p
		if name == "IntersectsIANAReserved" {
			ipT = p + ".IP"
		}
		bad := ""
		n := 0
		// abstract cases: gu × table length ≤ 2 × containment bits
		for _, gu := range []bool{true, false} {
			for tl := 0; tl <= 2; tl++ {
				for bits := 0; bits < 1<<(2*uint(tl)); bits++ {
					if bad != "" {
						break
					}
					n++
					c1 := func(i int) bool { return bits&(1<<(2*uint(i))) != 0 }
					c2 := func(i int) bool { return bits&(1<<(2*uint(i)+1)) != 0 }
					if name == "IsIANAReserved" && bits&0xA != 0 {
						continue // second containment kind does not exist for addresses
					}
					oracle := func(t *T) (interface{}, bool) {
						if t.Op != "call" {
							return nil, false
						}
						switch t.Name {
						case "(net.IP).IsGlobalUnicast":
							if t.Args[0].String() == ipT {
								return gu, true
							}
						case "builtin:len":
							if t.Args[0].String() == "util.reservedNetworks" {
								return int64(tl), true
							}
						case "(*net.IPNet).Contains":
							a, b := t.Args[0].String(), t.Args[1].String()
							var i int
							if _, err := fmt.Sscanf(a, "util.reservedNetworks[%d]", &i); err == nil && b == ipT && i < tl {
								return c1(i), true
							}
							if _, err := fmt.Sscanf(b, "util.reservedNetworks[%d].IP", &i); err == nil && name == "IntersectsIANAReserved" && t.Args[0].Op == "obj" && i < tl {
								return c2(i), true
							}
						}
						return nil, false
					}
					sel, err := Select(outs, oracle)
					if err != nil {
						bad = "undecided: " + err.Error()
						break
					}
					var rets []*Outcome
					for _, o := range sel {
						if o.Kind == "return" {
							rets = append(rets, o)
						}
					}
					if len(rets) != 1 {
						bad = fmt.Sprintf("undecided: %d paths match", len(rets))
						break
					}
					v, err := Eval(rets[0].Results[0], oracle)
					if err != nil {
						bad = "undecided: " + err.Error()
						break
					}
					want := !gu
					for i := 0; i < tl; i++ {
						if c1(i) || (name == "IntersectsIANAReserved" && c2(i)) {
							want = true
						}
					}
					if v != want {
						bad = fmt.Sprintf("util.%s returns %v when global-unicast=%v, table of %d networks with [listed-contains-base, network-contains-listed-base] = %v; the rule requires %v", name, v, gu, tl, containBits(bits, tl), want)
					}
				}
			}
		}
		switch {
		case strings.HasPrefix(bad, "undecided: "):
			r.Unk("shape", name, fn.Pos(), strings.TrimPrefix(bad, "undecided: "))
			allOK = false
		case bad != "":
			r.Bad("shape", name, fn.Pos(), bad)
			allOK = false
		default:
			r.OK("shape", name, fn.Pos(), true, fmt.Sprintf("%d paths, %d abstract cases", len(outs), n))
		}
		for i, o := range outs {
			if i < 2 {
				r.Sample(map[string]interface{}{"table_of": "util." + name, "path": o.Summary()})
			}
		}
	}
	return allOK
}

func containBits(bits, tl int) [][2]bool {
	var out [][2]bool
	for i := 0; i < tl; i++ {
		out = append(out, [2]bool{bits&(1<<(2*uint(i))) != 0, bits&(1<<(2*uint(i)+1)) != 0})
	}
	return out
}

// c19Table: the literals that end up in reservedNetworks, and who writes it.
func c19Table(c *Ctx, r *Report) []string {
	util := c.Pkg("util")
	sp := c.SSAPkg("util")
	g, _ := sp.Members["reservedNetworks"].(*ssa.Global)
	if g == nil {
		fault("unresolved anchor: util.reservedNetworks")
	}
	// writers
	var writers []*ssa.Function
	var initFn *ssa.Function
	okAppend, helperPanics := false, false
	for _, f := range modFunctions(c) {
		allInstrs(f, func(in ssa.Instruction) {
			st, ok := in.(*ssa.Store)
			if !ok {
				return
			}
			isElem := false
			if ia, ok := st.Addr.(*ssa.IndexAddr); ok && apath(ia.X) == "util.reservedNetworks" {
				isElem = true
			}
			if st.Addr != g && !isElem {
				return
			}
			writers = append(writers, f)
			if st.Addr == g && strings.HasPrefix(f.Name(), "init") && f.Pkg == sp {
				initFn = f
				if call, ok := st.Val.(*ssa.Call); ok {
					if b, ok := call.Call.Value.(*ssa.Builtin); ok && b.Name() == "append" && apath(call.Call.Args[0]) == "util.reservedNetworks" {
						elems := appendedElems(call)
						if len(elems) == 1 && strings.Contains(apath(elems[0]), "net.ParseCIDR(") {
							okAppend = true
						}
						if len(elems) == 1 {
							if hc, ok := elems[0].(*ssa.Call); ok && parsesCIDROrPanics(hc.Call.StaticCallee()) {
								okAppend, helperPanics = true, true
							}
						}
					}
				}
			}
		})
	}
	onlyInit := len(writers) > 0
	for _, w := range writers {
		if w != initFn {
			onlyInit = false
		}
	}
	r.Check(onlyInit && okAppend, "table-writers", "reservedNetworks", g.Pos(), "written only by init: append(reservedNetworks, ParseCIDR(literal))", "util.reservedNetworks is written outside init, or init no longer appends the parsed literal")
	if initFn == nil {
		return nil
	}
	// ParseCIDR error ⇒ panic
	okPanic := helperPanics
	allInstrs(initFn, func(in ssa.Instruction) {
		if _, ok := in.(*ssa.Panic); ok {
			okPanic = true
		}
	})
	r.Check(okPanic, "table-writers", "init panics on a bad literal", initFn.Pos(), "", "init no longer panics when a table literal does not parse: the entry would be silently dropped or nil")
	// literals: the composite literal of type map[subnetCategory][]string inside the init FuncDecl
	fd, _ := initFn.Syntax().(*ast.FuncDecl)
	if fd == nil {
		r.Unk("cidr-parses", "init", initFn.Pos(), "no syntax for init")
		return nil
	}
	var lits []string
	// the table: every constant string that sits in a []string literal, or in a string
	// field of a struct literal, inside init — or inside the initialiser of a
	// package-level variable that init refers to (map-of-lists, ordered rows, one flat
	// list: the layout is free, the entries are what is checked)
	var collect func(n ast.Node)
	seenLit := map[*ast.CompositeLit]bool{}
	collect = func(n ast.Node) {
		ast.Inspect(n, func(n ast.Node) bool {
			cl, ok := n.(*ast.CompositeLit)
			if !ok || seenLit[cl] {
				return true
			}
			tv, ok := util.TypesInfo.Types[cl]
			if !ok {
				return true
			}
			take := func(e ast.Expr) {
				if kv, isKV := e.(*ast.KeyValueExpr); isKV {
					e = kv.Value
				}
				if _, nested := e.(*ast.CompositeLit); nested {
					return // visited on its own
				}
				etv, ok := util.TypesInfo.Types[e]
				if !ok {
					return
				}
				if b, isB := etv.Type.Underlying().(*types.Basic); !isB || b.Info()&types.IsString == 0 {
					return
				}
				if etv.Value != nil && etv.Value.Kind() == constant.String {
					lits = append(lits, constant.StringVal(etv.Value))
				} else {
					r.Unk("cidr-parses", "entry", e.Pos(), "table entry is not a constant string")
				}
			}
			switch u := tv.Type.Underlying().(type) {
			case *types.Slice:
				if types.Identical(u.Elem(), types.Typ[types.String]) {
					seenLit[cl] = true
					for _, e := range cl.Elts {
						take(e)
					}
				}
			case *types.Array:
				if types.Identical(u.Elem(), types.Typ[types.String]) {
					seenLit[cl] = true
					for _, e := range cl.Elts {
						take(e)
					}
				}
			case *types.Struct:
				seenLit[cl] = true
				for _, e := range cl.Elts {
					take(e)
				}
			}
			return true
		})
	}
	collect(fd.Body)
	ast.Inspect(fd.Body, func(n ast.Node) bool {
		id, ok := n.(*ast.Ident)
		if !ok {
			return true
		}
		if v, ok := util.TypesInfo.Uses[id].(*types.Var); ok && v.Pkg() == util.Types && v.Parent() == util.Types.Scope() && v.Name() != "reservedNetworks" {
			if init := varInit(util, v); init != nil {
				collect(init)
			}
		}
		return true
	})
	for _, s := range lits {
		_, _, err := net.ParseCIDR(s)
		r.Check(err == nil, "cidr-parses", s, initFn.Pos(), "", fmt.Sprintf("table literal %q is not a CIDR: init panics at start-up", s))
	}
	r.Floor("CIDR literals", 80, len(lits))
	return lits
}

type ipModel struct{ nets []*net.IPNet }

func (m *ipModel) reserved(ip net.IP) bool {
	if !ip.IsGlobalUnicast() {
		return true
	}
	for _, n := range m.nets {
		if n.Contains(ip) {
			return true
		}
	}
	return false
}

func (m *ipModel) intersects(n net.IPNet) bool {
	if !n.IP.IsGlobalUnicast() {
		return true
	}
	for _, x := range m.nets {
		if x.Contains(n.IP) || n.Contains(x.IP) {
			return true
		}
	}
	return false
}

func lastAddr(n *net.IPNet) net.IP {
	ip := make(net.IP, len(n.IP))
	for i := range n.IP {
		ip[i] = n.IP[i] | ^n.Mask[i]
	}
	return ip
}

func c19Classify(c *Ctx, r *Report, lits []string) {
	m := &ipModel{}
	for _, s := range lits {
		if _, n, err := net.ParseCIDR(s); err == nil {
			m.nets = append(m.nets, n)
		}
	}
	// required blocks
	for _, b := range c19Reserved {
		_, n, err := net.ParseCIDR(b)
		if err != nil {
			fault("bad spec block %s", b)
		}
		for _, which := range []struct {
			name string
			ip   net.IP
		}{{"first", n.IP}, {"last", lastAddr(n)}} {
			forms := []net.IP{which.ip}
			if v4 := which.ip.To4(); v4 != nil {
				forms = []net.IP{v4, v4.To16()}
			}
			ok := true
			for _, f := range forms {
				if !m.reserved(f) {
					ok = false
				}
			}
			r.Check(ok, "block-reserved", b+"|"+which.name, 0, which.ip.String(), fmt.Sprintf("%s (%s address of special-purpose block %s) is not classified reserved (4-byte and IPv4-mapped form): a table entry is missing or mistyped", which.ip, which.name, b))
		}
	}
	for _, p := range c19Public {
		ip := net.ParseIP(p)
		ok := !m.reserved(ip)
		if v4 := ip.To4(); v4 != nil {
			ok = ok && !m.reserved(v4) && !m.reserved(v4.To16())
		}
		r.Check(ok, "public-not-reserved", p, 0, "", p+" is classified reserved")
	}
	// supernets
	var blocks []string
	blocks = append(blocks, c19Reserved...)
	blocks = append(blocks, c19NotGU...)
	blocks = append(blocks, lits...)
	sort.Strings(blocks)
	seen := map[string]bool{}
	nsup := 0
	for _, b := range blocks {
		if seen[b] {
			continue
		}
		seen[b] = true
		_, n, err := net.ParseCIDR(b)
		if err != nil {
			continue
		}
		ones, bits := n.Mask.Size()
		var failing []string
		for p := ones; p >= 0; p-- {
			mask := net.CIDRMask(p, bits)
			sup := net.IPNet{IP: n.IP.Mask(mask), Mask: mask}
			nsup++
			if !m.intersects(sup) {
				failing = append(failing, sup.String())
			}
		}
		r.Check(len(failing) == 0, "supernet-intersects", b, 0, fmt.Sprintf("%d supernets", ones+1),
			fmt.Sprintf("networks %v contain the reserved block %s but IntersectsIANAReserved is false for them (the block is reachable only through the non-global-unicast shortcut, or the table lacks it)", failing, b))
		// single-address networks at the block's ends
		for _, ip := range []net.IP{n.IP, lastAddr(n)} {
			one := net.IPNet{IP: ip, Mask: net.CIDRMask(bits, bits)}
			r.Check(m.intersects(one) == m.reserved(ip), "single-address-agrees", b+"|"+ip.String(), 0, "", fmt.Sprintf("IntersectsIANAReserved(%s) = %v but IsIANAReserved(%s) = %v", one.String(), m.intersects(one), ip, m.reserved(ip)))
		}
	}
	for _, p := range c19Public {
		ip := net.ParseIP(p)
		bits := 128
		if v4 := ip.To4(); v4 != nil {
			ip, bits = v4, 32
		}
		one := net.IPNet{IP: ip, Mask: net.CIDRMask(bits, bits)}
		r.Check(m.intersects(one) == m.reserved(ip), "single-address-agrees", p, 0, "", fmt.Sprintf("IntersectsIANAReserved(%s) ≠ IsIANAReserved(%s)", one.String(), ip))
	}
	r.Extra["supernets_evaluated"] = nsup
	r.Extra["table_networks"] = len(m.nets)
}

func c19Lints(c *Ctx, r *Report) {
	cs := BuildCensus(c)
	by := map[string]*Reg{}
	for _, x := range cs.Regs {
		if x.NameOK {
			by[x.Name] = x
		}
	}
	noInline := func(*ssa.Function) bool { return false }
	type lspec struct {
		name, list, helper, elemSuffix string
	}
	for _, ls := range []lspec{
		{"e_ext_san_contains_reserved_ip", ".IPAddresses", "util.IsIANAReserved", ""},
		{"e_ext_nc_intersects_reserved_ip", ".PermittedIPAddresses", "util.IntersectsIANAReserved", ".Data"},
	} {
		reg := by[ls.name]
		if reg == nil || reg.Err != "" {
			fault("unresolved anchor: lint %s", ls.name)
		}
		fn := reg.Execute
		outs, abort := Enumerate(fn, SymOpts{Inline: noInline, LoopBound: 2})
		if abort != "" {
			r.Unk("lint-reports", ls.name, fn.Pos(), abort)
			continue
		}
		if why := onlyIndexCarried(fn, 0, nil); why != "" {
			r.Unk("lint-reports", ls.name+"|loop-shape", fn.Pos(), why)
			continue
		}
		cp := fn.Params[1].Name()
		bad := ""
		for _, l := range [][]bool{{}, {true}, {false}, {false, true}, {true, false}, {false, false}} {
			if bad != "" {
				break
			}
			oracle := func(t *T) (interface{}, bool) {
				if t.Op != "call" {
					return nil, false
				}
				if t.Name == "builtin:len" && t.Args[0].String() == cp+ls.list {
					return int64(len(l)), true
				}
				if t.Name == ls.helper && len(t.Args) == 1 {
					var i int
					a := t.Args[0].String()
					if _, err := fmt.Sscanf(a, cp+ls.list+"[%d]", &i); err == nil && a == fmt.Sprintf("%s%s[%d]%s", cp, ls.list, i, ls.elemSuffix) && i < len(l) {
						return l[i], true
					}
				}
				return nil, false
			}
			sel, err := Select(outs, oracle)
			if err != nil {
				bad = "lint contains a condition the analysis does not model: " + err.Error()
				break
			}
			var rets []*Outcome
			for _, o := range sel {
				if o.Kind == "return" {
					rets = append(rets, o)
				}
			}
			if len(rets) != 1 {
				bad = fmt.Sprintf("%d paths match", len(rets))
				break
			}
			st := rets[0].Field(rets[0].Results[0], "Status")
			want := "3"
			for _, v := range l {
				if v {
					want = "6"
				}
			}
			if st == nil || !st.IsConst() || st.K == nil || st.K.ExactString() != want {
				bad = fmt.Sprintf("%s yields status %v for entries with reserved=%v", ls.name, st, l)
			}
		}
		r.Check(bad == "", "lint-reports", ls.name, fn.Pos(), "Error iff some entry is reserved / intersects", bad)
	}
	// common name lint
	reg := by["e_subject_contains_reserved_ip"]
	if reg == nil || reg.Err != "" {
		fault("unresolved anchor: lint e_subject_contains_reserved_ip")
	}
	fn := reg.Execute
	outs, abort := Enumerate(fn, SymOpts{Inline: noInline})
	bad := abort
	cp := fn.Params[1].Name()
	for _, isIP := range []bool{true, false} {
		for _, res := range []bool{true, false} {
			if bad != "" {
				break
			}
			parse := "net.ParseIP(" + cp + ".Subject.CommonName)"
			oracle := func(t *T) (interface{}, bool) {
				if t.String() == parse {
					if isIP {
						return errVal{}, true // non-nil
					}
					return nil, true
				}
				if t.Op == "call" && t.Name == "util.IsIANAReserved" && len(t.Args) == 1 && t.Args[0].String() == parse {
					return res, true
				}
				return nil, false
			}
			sel, err := Select(outs, oracle)
			if err != nil || len(sel) != 1 || sel[0].Kind != "return" {
				bad = fmt.Sprintf("common-name lint not evaluable: %v", err)
				break
			}
			st := sel[0].Field(sel[0].Results[0], "Status")
			want := "3"
			if isIP && res {
				want = "6"
			}
			if st == nil || !st.IsConst() || st.K == nil || st.K.ExactString() != want {
				bad = fmt.Sprintf("e_subject_contains_reserved_ip yields %v for common name is-IP=%v reserved=%v", st, isIP, res)
			}
		}
	}
	r.Check(bad == "", "lint-reports", "e_subject_contains_reserved_ip", fn.Pos(), "Error iff the common name parses as an IP that is reserved", bad)
}

// parsesCIDROrPanics: a helper newer than the rules of the shape
// func(s string) *net.IPNet { _, n, err := net.ParseCIDR(s); if err != nil { panic(…) }; return n }.
func parsesCIDROrPanics(h *ssa.Function) bool {
	if h == nil || !isNewFunc(h) || len(h.Params) != 1 {
		return false
	}
	var parse *ssa.Call
	panics := false
	allInstrs(h, func(in ssa.Instruction) {
		if call, ok := in.(*ssa.Call); ok && staticCalleeName(&call.Call) == "net.ParseCIDR" && len(call.Call.Args) == 1 && call.Call.Args[0] == ssa.Value(h.Params[0]) {
			parse = call
		}
		if _, ok := in.(*ssa.Panic); ok {
			panics = true
		}
	})
	if parse == nil || !panics {
		return false
	}
	for _, ret := range realReturns(h) {
		rv := retVals(ret)
		if len(rv) != 1 {
			return false
		}
		ex, ok := rv[0].(*ssa.Extract)
		if !ok || ex.Tuple != ssa.Value(parse) || ex.Index != 1 {
			return false
		}
		// the return is reached only when the error is nil
		guarded := false
		for _, ref := range *parse.Referrers() {
			if e2, ok := ref.(*ssa.Extract); ok && e2.Index == 2 && guardedBy(ret.Block(), e2, token.EQL) {
				guarded = true
			}
		}
		if !guarded {
			return false
		}
	}
	return true
}

// c19Arpa: the reverse-DNS lint judges names case-insensitively and hands the
// decoded address to the same reserved-address test: in Execute (helpers newer
// than the rules looked through) every zone-suffix test and every call of
// lintReversedIPAddress takes the lower-cased name, and lintReversedIPAddress
// ends in util.IsIANAReserved on the address it rebuilt.
func c19Arpa(c *Ctx, r *Report) {
	var reg *Reg
	for _, x := range BuildCensus(c).Regs {
		if x.NameOK && x.Name == "e_subject_contains_reserved_arpa_ip" {
			reg = x
		}
	}
	if reg == nil || reg.Err != "" {
		fault("unresolved anchor: lint e_subject_contains_reserved_arpa_ip")
	}
	nSuffix, nCalls := 0, 0
	bad := ""
	allInstrsDeep(reg.Execute, func(in ssa.Instruction) {
		call, ok := in.(*ssa.Call)
		if !ok {
			return
		}
		switch staticCalleeName(&call.Call) {
		case "strings.HasSuffix":
			if p := apath(call.Call.Args[1]); strings.Contains(p, "arpa") || strings.Contains(p, "rdnsIP") {
				nSuffix++
				if a := apath(call.Call.Args[0]); !strings.HasPrefix(a, "strings.ToLower(") {
					bad = "the zone suffix is tested on " + a + ", not on the lower-cased name: IN-ADDR.ARPA / IP6.Arpa spellings escape the lint"
				}
			}
		case "lints/cabf_br.lintReversedIPAddress":
			nCalls++
			if a := apath(call.Call.Args[0]); !strings.HasPrefix(a, "strings.ToLower(") {
				bad = "lintReversedIPAddress is given " + a + ", not the lower-cased name: the zone suffix is then not stripped for upper-case spellings and the address is never tested"
			}
		}
	})
	if bad == "" && (nSuffix < 2 || nCalls < 2) {
		bad = fmt.Sprintf("only %d suffix tests and %d calls of lintReversedIPAddress found in Execute", nSuffix, nCalls)
	}
	r.Check(bad == "", "lint-reports", "e_subject_contains_reserved_arpa_ip|case", reg.Execute.Pos(), "zone tests and address extraction use the lower-cased name", bad)
	lr := c.FuncMaybe("lints/cabf_br", "lintReversedIPAddress")
	if lr == nil {
		fault("unresolved anchor: cabf_br.lintReversedIPAddress")
	}
	ends := false
	allInstrsDeep(lr, func(in ssa.Instruction) {
		if call, ok := in.(*ssa.Call); ok && staticCalleeName(&call.Call) == "util.IsIANAReserved" {
			ends = true
		}
	})
	r.Check(ends, "lint-reports", "e_subject_contains_reserved_arpa_ip|test", lr.Pos(), "rebuilt address tested by util.IsIANAReserved", "lintReversedIPAddress no longer tests the rebuilt address with util.IsIANAReserved")
}
