package main

// effects.go — engine E5: interprocedural MOD summaries. For every function
// reachable from module code: through which parameters (receiver and captured
// variables included) and into which package-level variables it may write,
// and which parameters its results may alias. Address roots are traced
// through FieldAddr/IndexAddr/Slice/loads/Phi/conversions/calls; call edges
// come from the VTA call graph.

import (
	"fmt"
	"go/token"
	"go/types"
	"sort"
	"strings"

	"golang.org/x/tools/go/callgraph"
	"golang.org/x/tools/go/callgraph/cha"
	"golang.org/x/tools/go/callgraph/vta"
	"golang.org/x/tools/go/ssa"
	"golang.org/x/tools/go/ssa/ssautil"
)

type Witness struct {
	Pos    token.Pos
	Fn     *ssa.Function
	Desc   string
	Callee *ssa.Function
	CKey   string
}

type FSum struct {
	modP uint64
	modG map[*ssa.Global]bool
	retP uint64
	retG map[*ssa.Global]bool
	why  map[string]*Witness
	unk  []string // things not understood (body-less callee with pointer args, ...)
}

type RootSet struct {
	P uint64
	G map[*ssa.Global]bool
}

func (r *RootSet) add(o *RootSet) {
	if o == nil {
		return
	}
	r.P |= o.P
	for g := range o.G {
		if r.G == nil {
			r.G = map[*ssa.Global]bool{}
		}
		r.G[g] = true
	}
}

func (r *RootSet) empty() bool { return r.P == 0 && len(r.G) == 0 }

type Effects struct {
	c       *Ctx
	cg      *callgraph.Graph
	sum     map[*ssa.Function]*FSum
	callees map[ssa.CallInstruction][]*ssa.Function
	funcs   []*ssa.Function
	cgS     float64
	iters   int
}

// assembly / runtime-provided functions reached with pointer arguments:
// whether they write through argument i.
var bodylessWrites = map[string][]int{
	"internal/bytealg.IndexByte": nil, "internal/bytealg.IndexByteString": nil, "internal/bytealg.Index": nil, "internal/bytealg.IndexString": nil,
	"internal/bytealg.Equal": nil, "internal/bytealg.Compare": nil, "internal/bytealg.Count": nil, "internal/bytealg.CountString": nil,
	"internal/bytealg.abigen_runtime_cmpstring": nil, "bytes.Equal": nil, "bytes.Compare": nil, "bytes.IndexByte": nil,
	"strings.IndexByte": nil, "strings.Index": nil, "strings.Compare": nil,
	"math/big.addVV": {0}, "math/big.subVV": {0}, "math/big.addVW": {0}, "math/big.subVW": {0}, "math/big.shlVU": {0}, "math/big.shrVU": {0},
	"math/big.mulAddVWW": {0}, "math/big.addMulVVW": {0},
	"runtime.memmove": {0}, "runtime.memclrNoHeapPointers": {0},
	"crypto/subtle.XORBytes": {0}, "crypto/internal/fips140/subtle.xorBytes": {0},
	"hash/crc32.ieeeCLMUL": nil, "hash/crc32.castagnoliSSE42": nil, "hash/crc32.castagnoliSSE42Triple": nil,
	"crypto/sha256.block": {0}, "crypto/sha1.block": {0}, "crypto/sha512.block": {0}, "crypto/md5.block": {0},
	"sync/atomic.CompareAndSwapInt32": {0}, "sync/atomic.AddInt32": {0}, "sync/atomic.StoreInt32": {0}, "sync/atomic.LoadInt32": nil,
	"sync/atomic.CompareAndSwapUint32": {0}, "sync/atomic.AddUint32": {0}, "sync/atomic.StoreUint32": {0}, "sync/atomic.LoadUint32": nil,
	"sync/atomic.CompareAndSwapInt64": {0}, "sync/atomic.AddInt64": {0}, "sync/atomic.StoreInt64": {0}, "sync/atomic.LoadInt64": nil,
	"sync/atomic.CompareAndSwapUint64": {0}, "sync/atomic.AddUint64": {0}, "sync/atomic.StoreUint64": {0}, "sync/atomic.LoadUint64": nil,
	"sync/atomic.CompareAndSwapPointer": {0}, "sync/atomic.StorePointer": {0}, "sync/atomic.LoadPointer": nil, "sync/atomic.SwapPointer": {0},
	"sync/atomic.CompareAndSwapUintptr": {0}, "sync/atomic.LoadUintptr": nil, "sync/atomic.StoreUintptr": {0}, "sync/atomic.AddUintptr": {0},
	"sync/atomic.SwapInt32": {0}, "sync/atomic.SwapUint32": {0}, "sync/atomic.SwapInt64": {0}, "sync/atomic.SwapUint64": {0},
	"sync/atomic.AndInt32": {0}, "sync/atomic.OrInt32": {0}, "sync/atomic.AndUint32": {0}, "sync/atomic.OrUint32": {0},
}

// Library functions that write through an argument by reflection or unsafe
// code, which the SSA-level store census cannot see: index of the written
// parameter (receiver = 0 for methods).
var reflectiveWrites = map[string][]int{
	"sort.Slice": {0}, "sort.SliceStable": {0}, "reflect.Copy": {0}, "reflect.Swapper": {0},
	"encoding/json.Unmarshal": {1}, "(*encoding/json.Decoder).Decode": {1},
	"encoding/asn1.Unmarshal": {1}, "encoding/asn1.UnmarshalWithParams": {1},
	"github.com/zmap/zcrypto/encoding/asn1.Unmarshal": {1}, "github.com/zmap/zcrypto/encoding/asn1.UnmarshalWithParams": {1},
	"encoding/xml.Unmarshal": {1}, "(*encoding/xml.Decoder).Decode": {1}, "(*encoding/gob.Decoder).Decode": {1},
	"encoding/binary.Read": {2}, "io.ReadFull": {1}, "io.ReadAtLeast": {1},
	"github.com/pelletier/go-toml.Unmarshal": {1}, "(*github.com/pelletier/go-toml.Tree).Unmarshal": {1}, "(*github.com/pelletier/go-toml.Decoder).Decode": {1},
}

var effectsMemo = map[*Ctx]*Effects{}

func NewEffects(c *Ctx) *Effects {
	if e, ok := effectsMemo[c]; ok {
		return e // summaries are read-only once built
	}
	e := &Effects{c: c, sum: map[*ssa.Function]*FSum{}, callees: map[ssa.CallInstruction][]*ssa.Function{}}
	e.build()
	effectsMemo[c] = e
	return e
}

func (e *Effects) build() {
	all := ssautil.AllFunctions(e.c.Prog)
	e.cg = vta.CallGraph(all, cha.CallGraph(e.c.Prog))
	// functions reachable from module functions
	reach := map[*ssa.Function]bool{}
	var stack []*ssa.Function
	for _, f := range modFunctions(e.c) {
		if !reach[f] {
			reach[f] = true
			stack = append(stack, f)
		}
	}
	for len(stack) > 0 {
		f := stack[len(stack)-1]
		stack = stack[:len(stack)-1]
		n := e.cg.Nodes[f]
		if n == nil {
			continue
		}
		for _, out := range n.Out {
			if out.Site != nil {
				e.callees[out.Site] = append(e.callees[out.Site], out.Callee.Func)
			}
			g := out.Callee.Func
			if !reach[g] {
				reach[g] = true
				stack = append(stack, g)
			}
		}
		for _, a := range f.AnonFuncs {
			if !reach[a] {
				reach[a] = true
				stack = append(stack, a)
			}
		}
	}
	for f := range reach {
		e.funcs = append(e.funcs, f)
		e.sum[f] = &FSum{modG: map[*ssa.Global]bool{}, retG: map[*ssa.Global]bool{}, why: map[string]*Witness{}}
	}
	sort.Slice(e.funcs, func(i, j int) bool { return e.funcs[i].String() < e.funcs[j].String() })
	for changed := true; changed; {
		changed = false
		e.iters++
		for _, f := range e.funcs {
			if e.analyse(f) {
				changed = true
			}
		}
		if e.iters > 40 {
			fault("effects fixpoint did not converge")
		}
	}
}

func pointerLike(t types.Type) bool {
	switch u := t.Underlying().(type) {
	case *types.Pointer, *types.Slice, *types.Map, *types.Chan, *types.Interface, *types.Signature, *types.Struct, *types.Array, *types.Tuple:
		return true
	case *types.Basic:
		return u.Kind() == types.UnsafePointer
	case *types.TypeParam:
		return true
	}
	return false
}

type rootCtx struct {
	e            *Effects
	f            *ssa.Function
	memo         map[ssa.Value]*RootSet
	busy         map[ssa.Value]bool
	pidx         map[ssa.Value]int
	allocContent map[*ssa.Alloc]*RootSet
}

func (e *Effects) newRootCtx(f *ssa.Function) *rootCtx {
	rc := &rootCtx{e: e, f: f, memo: map[ssa.Value]*RootSet{}, busy: map[ssa.Value]bool{}, pidx: map[ssa.Value]int{}}
	for i, p := range f.Params {
		rc.pidx[p] = i
	}
	for j, fv := range f.FreeVars {
		rc.pidx[fv] = len(f.Params) + j
	}
	return rc
}

// baseAlloc: addr is (a sub-address of) a local allocation.
func baseAlloc(v ssa.Value) *ssa.Alloc {
	for {
		switch x := v.(type) {
		case *ssa.Alloc:
			return x
		case *ssa.FieldAddr:
			v = x.X
		case *ssa.IndexAddr:
			v = x.X
		default:
			return nil
		}
	}
}

// privateField: field of a struct declared outside the module that is
// unexported and is being accessed by code of the declaring package (a cache
// the type keeps for itself).
func syncTyped(t types.Type) bool {
	if n, ok := types.Unalias(t).(*types.Named); ok && n.Obj().Pkg() != nil {
		if p := n.Obj().Pkg().Path(); p == "sync" || p == "sync/atomic" {
			return true
		}
	}
	return false
}

func (rc *rootCtx) privateField(fa *ssa.FieldAddr) bool {
	fv := fieldVar(fa)
	// synchronisation state (mutexes, atomics, Once, Pool) is not data
	if n, ok := types.Unalias(fv.Type()).(*types.Named); ok && n.Obj().Pkg() != nil {
		if p := n.Obj().Pkg().Path(); p == "sync" || p == "sync/atomic" {
			return true
		}
	}
	if fv.Exported() || fv.Pkg() == nil || isModPkg(fv.Pkg()) {
		return false
	}
	// only the parsed-object types keep such caches (zcrypto's memoised
	// GetParsedDNSNames / GetParsedSubjectCommonName); for any other library
	// type the unexported fields ARE the data
	if !strings.HasPrefix(fv.Pkg().Path(), "github.com/zmap/zcrypto/x509") {
		return false
	}
	return rc.f.Pkg != nil && rc.f.Pkg.Pkg == fv.Pkg()
}

// throughPrivate: the address is (a part of) memory reached through a private
// field in the sense of privateField.
func (rc *rootCtx) throughPrivate(addr ssa.Value, d int) bool {
	if d > 12 {
		return false
	}
	switch x := addr.(type) {
	case *ssa.FieldAddr:
		return rc.privateField(x) || rc.throughPrivate(x.X, d+1)
	case *ssa.IndexAddr:
		return rc.throughPrivate(x.X, d+1)
	case *ssa.Slice:
		return rc.throughPrivate(x.X, d+1)
	case *ssa.UnOp:
		if x.Op == token.MUL {
			return rc.throughPrivate(x.X, d+1)
		}
	}
	return false
}

func (rc *rootCtx) roots(v ssa.Value) *RootSet {
	if r, ok := rc.memo[v]; ok {
		return r
	}
	if rc.busy[v] {
		return &RootSet{}
	}
	if !pointerLike(v.Type()) {
		r := &RootSet{}
		rc.memo[v] = r
		return r
	}
	rc.busy[v] = true
	r := &RootSet{}
	switch x := v.(type) {
	case *ssa.Parameter, *ssa.FreeVar:
		if i, ok := rc.pidx[v]; ok && i < 64 {
			r.P |= 1 << uint(i)
		}
	case *ssa.Global:
		r.G = map[*ssa.Global]bool{x: true}
	case *ssa.Alloc:
		// the address of a local: pointee is local memory
	case *ssa.FieldAddr:
		// synchronisation state (mutexes, atomics, Once, Pool) is not data
		if !syncTyped(fieldVar(x).Type()) {
			r.add(rc.roots(x.X))
		}
	case *ssa.IndexAddr:
		r.add(rc.roots(x.X))
	case *ssa.Field:
		r.add(rc.roots(x.X))
	case *ssa.Index:
		r.add(rc.roots(x.X))
	case *ssa.Lookup:
		r.add(rc.roots(x.X))
	case *ssa.Slice:
		r.add(rc.roots(x.X))
	case *ssa.UnOp:
		if x.Op == token.MUL {
			if a := baseAlloc(x.X); a != nil {
				r.add(rc.content(a))
			} else {
				r.add(rc.roots(x.X))
			}
		}
	case *ssa.Phi:
		for _, ed := range x.Edges {
			r.add(rc.roots(ed))
		}
	case *ssa.Extract:
		r.add(rc.roots(x.Tuple))
	case *ssa.MakeInterface:
		r.add(rc.roots(x.X))
	case *ssa.ChangeInterface:
		r.add(rc.roots(x.X))
	case *ssa.ChangeType:
		r.add(rc.roots(x.X))
	case *ssa.SliceToArrayPointer:
		r.add(rc.roots(x.X))
	case *ssa.Convert:
		// string <-> []byte/[]rune conversions copy
		if _, isStr := x.X.Type().Underlying().(*types.Basic); !isStr {
			if _, isStr2 := x.Type().Underlying().(*types.Basic); !isStr2 {
				r.add(rc.roots(x.X))
			}
		}
	case *ssa.TypeAssert:
		r.add(rc.roots(x.X))
	case *ssa.MakeClosure:
		for _, b := range x.Bindings {
			r.add(rc.roots(b))
		}
	case *ssa.Next:
		if rg, ok := x.Iter.(*ssa.Range); ok {
			r.add(rc.roots(rg.X))
		}
	case *ssa.Call:
		r.add(rc.callRoots(x))
	}
	delete(rc.busy, v)
	rc.memo[v] = r
	return r
}

// content: roots of every value stored into a local allocation (or a part of it).
func (rc *rootCtx) content(a *ssa.Alloc) *RootSet {
	if rc.allocContent == nil {
		rc.allocContent = map[*ssa.Alloc]*RootSet{}
	}
	if r, ok := rc.allocContent[a]; ok {
		return r
	}
	r := &RootSet{}
	rc.allocContent[a] = r
	for _, b := range rc.f.Blocks {
		for _, in := range b.Instrs {
			if st, ok := in.(*ssa.Store); ok && baseAlloc(st.Addr) == a {
				r.add(rc.roots(st.Val))
			}
		}
	}
	// closures capturing the alloc may store into it
	for _, ref := range *a.Referrers() {
		if mc, ok := ref.(*ssa.MakeClosure); ok {
			cl := mc.Fn.(*ssa.Function)
			for i, bnd := range mc.Bindings {
				if bnd != a || i >= len(cl.FreeVars) {
					continue
				}
				fv := cl.FreeVars[i]
				rc2 := rc.e.newRootCtx(cl)
				for _, b := range cl.Blocks {
					for _, in := range b.Instrs {
						if st, ok := in.(*ssa.Store); ok {
							base := st.Addr
							for {
								if fa, ok := base.(*ssa.FieldAddr); ok {
									base = fa.X
								} else if ia, ok := base.(*ssa.IndexAddr); ok {
									base = ia.X
								} else {
									break
								}
							}
							if base == fv {
								// value roots inside the closure expressed in its own params: map captured ones back
								vr := rc2.roots(st.Val)
								for j, b2 := range mc.Bindings {
									if vr.P&(1<<uint(len(cl.Params)+j)) != 0 {
										r.add(rc.roots(b2))
									}
								}
								for g := range vr.G {
									r.add(&RootSet{G: map[*ssa.Global]bool{g: true}})
								}
							}
						}
					}
				}
			}
		}
	}
	return r
}

func (rc *rootCtx) argsOf(cc *ssa.CallCommon) []ssa.Value {
	if cc.IsInvoke() {
		return append([]ssa.Value{cc.Value}, cc.Args...)
	}
	return cc.Args
}

func (rc *rootCtx) callRoots(call *ssa.Call) *RootSet {
	r := &RootSet{}
	cc := &call.Call
	if b, ok := cc.Value.(*ssa.Builtin); ok {
		switch b.Name() {
		case "append":
			// the result shares arg0's backing array; the appended element
			// values are copied, so they matter only when they are themselves
			// pointer-like
			if len(cc.Args) > 0 {
				r.add(rc.roots(cc.Args[0]))
			}
			if len(cc.Args) > 1 {
				if sl, ok := cc.Args[1].Type().Underlying().(*types.Slice); ok && pointerLike(sl.Elem()) {
					r.add(rc.roots(cc.Args[1]))
				}
			}
		}
		return r
	}
	args := rc.argsOf(cc)
	callees := rc.e.callees[call]
	if len(callees) == 0 {
		if f := cc.StaticCallee(); f != nil {
			callees = []*ssa.Function{f}
		}
	}
	for _, callee := range callees {
		s := rc.e.sum[callee]
		if s == nil {
			continue
		}
		bind := rc.bindings(cc, callee)
		for i := 0; i < 64 && i < len(callee.Params)+len(callee.FreeVars); i++ {
			if s.retP&(1<<uint(i)) == 0 {
				continue
			}
			if i < len(callee.Params) {
				if i < len(args) {
					r.add(rc.roots(args[i]))
				}
			} else if j := i - len(callee.Params); j < len(bind) {
				r.add(rc.roots(bind[j]))
			}
		}
		for g := range s.retG {
			r.add(&RootSet{G: map[*ssa.Global]bool{g: true}})
		}
	}
	return r
}

// bindings of a closure callee at this call site (when the callee value is a
// MakeClosure visible here).
func (rc *rootCtx) bindings(cc *ssa.CallCommon, callee *ssa.Function) []ssa.Value {
	if mc, ok := cc.Value.(*ssa.MakeClosure); ok && mc.Fn == callee {
		return mc.Bindings
	}
	return nil
}

func (e *Effects) analyse(f *ssa.Function) bool {
	s := e.sum[f]
	if len(f.Blocks) == 0 {
		return e.bodyless(f, s)
	}
	rc := e.newRootCtx(f)
	changed := false
	if idx, ok := reflectiveWrites[funcFullName(f)]; ok {
		for _, i := range idx {
			if i < 64 && s.modP&(1<<uint(i)) == 0 {
				s.modP |= 1 << uint(i)
				s.why[fmt.Sprintf("p%d", i)] = &Witness{Fn: f, Desc: funcFullName(f) + " writes through its argument by reflection"}
				changed = true
			}
		}
	}
	addP := func(p uint64, w *Witness) {
		for i := 0; i < 64; i++ {
			if p&(1<<uint(i)) != 0 && s.modP&(1<<uint(i)) == 0 {
				s.modP |= 1 << uint(i)
				s.why[fmt.Sprintf("p%d", i)] = w
				changed = true
			}
		}
	}
	addG := func(gs map[*ssa.Global]bool, w *Witness) {
		for g := range gs {
			if !s.modG[g] {
				s.modG[g] = true
				s.why["g:"+g.String()] = w
				changed = true
			}
		}
	}
	write := func(addr ssa.Value, pos token.Pos, desc string) {
		if rc.throughPrivate(addr, 0) {
			// the declaring package updating a cache it keeps in its own
			// unexported field (zcrypto's memoised parses, sync state): not a
			// write to the object's data. Only the store is excused — the value
			// read back from such a field still aliases the object, so a lint
			// writing through what a getter returned is seen.
			return
		}
		r := rc.roots(addr)
		if r.empty() {
			return
		}
		w := &Witness{Pos: pos, Fn: f, Desc: desc}
		addP(r.P, w)
		addG(r.G, w)
	}
	for _, b := range f.Blocks {
		for _, in := range b.Instrs {
			switch x := in.(type) {
			case *ssa.Store:
				if baseAlloc(x.Addr) != nil {
					continue
				}
				write(x.Addr, x.Pos(), "store to "+apath(x.Addr))
			case *ssa.MapUpdate:
				write(x.Map, x.Pos(), "map update of "+apath(x.Map))
			case *ssa.Return:
				for _, rv := range x.Results {
					r := rc.roots(rv)
					if r.P&^s.retP != 0 {
						s.retP |= r.P
						changed = true
					}
					for g := range r.G {
						if !s.retG[g] {
							s.retG[g] = true
							changed = true
						}
					}
				}
			case ssa.CallInstruction:
				cc := x.Common()
				if bi, ok := cc.Value.(*ssa.Builtin); ok {
					switch bi.Name() {
					case "copy", "delete", "clear":
						if len(cc.Args) > 0 {
							write(cc.Args[0], x.Pos(), bi.Name()+"("+apath(cc.Args[0])+", …)")
						}
					case "append":
						// append(x, …) writes beyond len(x), which no holder of x can see —
						// unless x was cut shorter first (x[:k], the in-place filter idiom):
						// then the elements x[k:] of the original are overwritten.
						if len(cc.Args) > 0 {
							if sl := reslicedShorter(cc.Args[0], map[ssa.Value]bool{}); sl != nil {
								write(sl.X, x.Pos(), "append to the shortened slice "+apath(sl)+" (overwrites the elements that follow)")
							}
						}
					}
					continue
				}
				args := rc.argsOf(cc)
				callees := e.callees[x]
				if len(callees) == 0 {
					if sc := cc.StaticCallee(); sc != nil {
						callees = []*ssa.Function{sc}
					}
				}
				for _, callee := range callees {
					cs := e.sum[callee]
					if cs == nil {
						continue
					}
					bind := rc.bindings(cc, callee)
					np := len(callee.Params)
					for i := 0; i < 64 && i < np+len(callee.FreeVars); i++ {
						if cs.modP&(1<<uint(i)) == 0 {
							continue
						}
						var av ssa.Value
						if i < np {
							if i < len(args) {
								av = args[i]
							}
						} else if j := i - np; j < len(bind) {
							av = bind[j]
						}
						if av == nil {
							continue
						}
						r := rc.roots(av)
						if r.empty() {
							continue
						}
						w := &Witness{Pos: x.Pos(), Fn: f, Desc: "call of " + fname(callee), Callee: callee, CKey: fmt.Sprintf("p%d", i)}
						addP(r.P, w)
						addG(r.G, w)
					}
					if len(cs.modG) > 0 {
						for g := range cs.modG {
							if !s.modG[g] {
								s.modG[g] = true
								s.why["g:"+g.String()] = &Witness{Pos: x.Pos(), Fn: f, Desc: "call of " + fname(callee), Callee: callee, CKey: "g:" + g.String()}
								changed = true
							}
						}
					}
				}
			}
		}
	}
	return changed
}

func (e *Effects) bodyless(f *ssa.Function, s *FSum) bool {
	name := f.String()
	if o := f.Object(); o != nil {
		if fo, ok := o.(*types.Func); ok {
			name = fo.FullName()
		}
	}
	idx, known := bodylessWrites[name]
	changed := false
	if !known {
		// unknown assembly routine: assume it writes through every pointer-like
		// parameter (conservative) and record it for review
		for i, p := range f.Params {
			if _, isSlice := p.Type().Underlying().(*types.Slice); isSlice || isPtr(p.Type()) {
				if s.modP&(1<<uint(i)) == 0 && i < 64 {
					s.modP |= 1 << uint(i)
					s.why[fmt.Sprintf("p%d", i)] = &Witness{Fn: f, Desc: "body-less function " + name + " (not in the reviewed table): assumed to write through its argument"}
					changed = true
				}
			}
		}
		if len(s.unk) == 0 {
			s.unk = append(s.unk, name)
		}
		return changed
	}
	for _, i := range idx {
		if s.modP&(1<<uint(i)) == 0 {
			s.modP |= 1 << uint(i)
			s.why[fmt.Sprintf("p%d", i)] = &Witness{Fn: f, Desc: "assembly routine " + name + " writes its destination argument"}
			changed = true
		}
	}
	return changed
}

// reslicedShorter: v is (through phis and earlier appends) a reslice x[…:k]
// with an explicit upper bound — its length may be less than len(x) while it
// shares x's backing array.
func reslicedShorter(v ssa.Value, seen map[ssa.Value]bool) *ssa.Slice {
	if seen[v] || len(seen) > 40 {
		return nil
	}
	seen[v] = true
	switch x := v.(type) {
	case *ssa.Slice:
		if x.High != nil {
			if x.Max != nil && (x.Max == x.High || sameConst(x.Max, x.High)) {
				return nil // x[:k:k] has no spare capacity: append reallocates (slices.Clone's idiom)
			}
			if _, isStr := x.X.Type().Underlying().(*types.Basic); !isStr {
				return x
			}
		}
		return reslicedShorter(x.X, seen)
	case *ssa.Phi:
		for _, e := range x.Edges {
			if r := reslicedShorter(e, seen); r != nil {
				return r
			}
		}
	case *ssa.Call:
		if b, ok := x.Call.Value.(*ssa.Builtin); ok && b.Name() == "append" && len(x.Call.Args) > 0 {
			return reslicedShorter(x.Call.Args[0], seen)
		}
	case *ssa.ChangeType:
		return reslicedShorter(x.X, seen)
	}
	return nil
}

func sameConst(a, b ssa.Value) bool {
	ka, ok1 := a.(*ssa.Const)
	kb, ok2 := b.(*ssa.Const)
	return ok1 && ok2 && ka.Value != nil && kb.Value != nil && ka.Value.ExactString() == kb.Value.ExactString()
}

func funcFullName(f *ssa.Function) string {
	if o := f.Object(); o != nil {
		if fo, ok := o.(*types.Func); ok {
			return fo.FullName()
		}
	}
	return f.String()
}

func isPtr(t types.Type) bool {
	_, ok := t.Underlying().(*types.Pointer)
	return ok
}

// Chain reconstructs the witness path for a summary key ("p<i>" or "g:<name>").
func (e *Effects) Chain(f *ssa.Function, key string) []string {
	var out []string
	seen := map[string]bool{}
	for f != nil {
		s := e.sum[f]
		if s == nil {
			break
		}
		w := s.why[key]
		if w == nil {
			break
		}
		k := f.String() + "|" + key
		if seen[k] {
			break
		}
		seen[k] = true
		out = append(out, fmt.Sprintf("%s: %s (%s)", fname(f), w.Desc, e.c.Pos(w.Pos)))
		f, key = w.Callee, w.CKey
		if len(out) > 12 {
			break
		}
	}
	return out
}

// ModsParam: f may write memory reachable from its i-th parameter.
func (e *Effects) ModsParam(f *ssa.Function, i int) bool {
	s := e.sum[f]
	return s != nil && s.modP&(1<<uint(i)) != 0
}

// ModGlobals: module-declared globals f may write.
func (e *Effects) ModGlobals(f *ssa.Function) []*ssa.Global {
	s := e.sum[f]
	if s == nil {
		return nil
	}
	var out []*ssa.Global
	for g := range s.modG {
		if g.Pkg != nil && isModPkg(g.Pkg.Pkg) {
			out = append(out, g)
		}
	}
	sort.Slice(out, func(i, j int) bool { return out[i].String() < out[j].String() })
	return out
}
