package main

import (
	"fmt"
	"go/constant"
	"go/token"
	"go/types"
	"strings"

	"golang.org/x/tools/go/ssa"
)

func init() { register("C04", runC04) }

func runC04(c *Ctx, tier string) {
	r := NewReport("C04", "other", tier, c)
	r.Explanation = "Decision tables of the three life-cycle functions are extracted from SSA (branch conditions kept as uninterpreted atoms: source comparison, scope predicate calls, MaybeConfigure result, CheckApplies result, time comparisons) and evaluated on the full abstract domain source(16 declared constants + a future one) × scope predicates × configuration outcome × applicability × instant orderings against the specification: CABF_BR/CABF_SMIME_BR/CABF_CS_BR lints return a literal NA without constructing the lint when IsServerAuthCert/IsEmailProtectionCert/IsCodeSigning(PolicyIdentifiers) is false; otherwise exactly constructor → MaybeConfigure(instance, name) → CheckApplies(instance, obj) → window → Execute(instance, obj) on the same instance and object, a configuration error gives Fatal with the error's text and no further call, and the value returned is the very SSA value returned by the rule body (nothing stored into it). Plus: the recover wrapper replaces the result only when recover() is non-nil; no store to Status/Details of a result not allocated in the storing function anywhere in packages zlint and lint; every registered constructor returns a fresh allocation (never a global, captured or cached pointer). The three scope predicates themselves (and HasEmailSAN / IsSMIMEBRCertificate) are decided by their own decision tables (loops unrolled twice + any-loop side condition) against the documented rule over EKUs, unknown EKUs, policy OIDs and e-mail SANs, and the OID variables they compare with are pinned to the CA/B Forum arcs. Does not decide each lint's own CheckApplies semantics."
	r.Rule("lifecycle: scope gate → ctor → MaybeConfigure → CheckApplies → window → Execute, outcomes NA/Fatal/NA/NE/pass-through")
	r.Rule("recover-wrapper: result replaced by Fatal only when recover() != nil")
	r.Rule("result-untouched: framework stores to Status/Details only on results it allocated itself")
	r.Rule("fresh-instance: registered constructors return a new allocation")
	r.Trusted = []string{"go/ssa", "Go evaluates && left to right", "scope predicates, MaybeConfigure and lint methods are treated as oracles (their own behaviour is outside this property)"}
	r.Exhaustive = true

	lcReport(c, r, "lifecycle", nil)
	scopePredicates(c, r)
	recoverWrapper(c, r)
	resultUntouched(c, r)
	cs := BuildCensus(c)
	r.Floor("registrations", 370, len(cs.Regs))
	freshInstances(c, r, cs)
	// "a freshly CONFIGURED instance": MaybeConfigure hands the instance's own
	// Configure() value to Configure/deserializeConfigInto on every path (no
	// shortcut that skips resolving higher-scoped references) — C11's tables
	c11Deserialise(c, r)
	// premise of every per-lint rule of this property: the verdict is computed on the
	// object as parsed and on immutable tables — no lint method (any lint may run
	// earlier in the same pass) writes memory reachable from the linted object or a
	// package-level variable (C05 rules 1-2)
	{
		csP := BuildCensus(c)
		c05Effects(c, r, csP, NewEffects(c))
	}
	r.Finish()
}

// recoverWrapper: (*CertificateLint).Execute = defer{recover→Fatal}; result = l.execute(cert, config)
func recoverWrapper(c *Ctx, r *Report) {
	fn := c.Method("lint", "CertificateLint", "Execute")
	inner := c.Method("lint", "CertificateLint", "execute")
	outs, abort := Enumerate(fn, SymOpts{MaxDepth: 2, Inline: func(f *ssa.Function) bool { return f.Parent() == fn }})
	id := "CertificateLint.Execute"
	if abort != "" {
		r.Unk("recover-wrapper", id, fn.Pos(), abort)
		return
	}
	recv, obj, cfg := fn.Params[0].Name(), fn.Params[1].Name(), fn.Params[2].Name()
	sawNil, sawPanic := false, false
	ok := true
	why := ""
	for _, o := range outs {
		r.Sample(map[string]interface{}{"table_of": fname(fn), "path": o.Summary()})
		if o.Kind != "return" || len(o.Results) != 1 {
			ok, why = false, "path does not return one result: "+o.Kind+" "+o.Why
			continue
		}
		var exec *T
		nexec := 0
		recovered := ""
		for _, ev := range o.Trace {
			switch {
			case ev.Kind == "call" && ev.Name == "(*lint.CertificateLint).execute":
				nexec++
				exec = ev.Result
				if len(ev.Args) != 3 || ev.Args[0].String() != recv || ev.Args[1].String() != obj || ev.Args[2].String() != cfg {
					ok, why = false, fmt.Sprintf("execute called with %v instead of (l, cert, config)", ev.Args)
				}
			case ev.Kind == "call" && ev.Name == "builtin:recover":
			case ev.Kind == "call" && (ev.Name == "fmt.Sprintf" || ev.Name == "fmt.Sprint" || ev.Name == "fmt.Sprintln" || ev.Name == "fmt.Errorf" || strings.HasPrefix(ev.Name, "strings.") || strings.HasPrefix(ev.Name, "strconv.") || ev.Name == "invoke:Error" || ev.Name == "runtime/debug.Stack"):
				// building the text of the Fatal result's Details
			case ev.Kind == "store" || ev.Kind == "mapupdate":
				ok, why = false, "wrapper writes to non-local memory: "+ev.String()
			default:
				ok, why = false, "unexpected call in the wrapper: "+ev.String()
			}
		}
		for _, cd := range o.Conds {
			if cd.T.String() == "(builtin:recover() == nil)" {
				if cd.Val {
					recovered = "no"
				} else {
					recovered = "yes"
				}
			} else {
				ok, why = false, "wrapper branches on "+cd.T.String()
			}
		}
		if nexec != 1 {
			ok, why = false, fmt.Sprintf("execute called %d times on a path", nexec)
		}
		res := o.Results[0]
		switch recovered {
		case "no":
			sawNil = true
			if res != exec {
				ok, why = false, "without a panic the wrapper must return execute's result unchanged; returns "+res.String()
			}
		case "yes":
			sawPanic = true
			st := o.Field(res, "Status")
			if res.Op != "obj" || st == nil || !st.IsConst() || st.K == nil || st.K.ExactString() != "7" {
				ok, why = false, "a recovered panic must be reported as a Fatal result; returns "+res.String()
			}
		default:
			ok, why = false, "path does not test recover()"
		}
	}
	if !sawNil || !sawPanic {
		ok, why = false, "the deferred recover net is missing (no path tests recover())"
	}
	_ = inner
	r.Check(ok, "recover-wrapper", id, fn.Pos(), "recover()==nil ⇒ execute's result; recover()!=nil ⇒ Fatal", why)
}

// resultUntouched: in packages zlint and lint, stores to the Status or Details
// field of a LintResult are allowed only on an allocation made in the same
// function (the literal NA/NE/Fatal results).
func resultUntouched(c *Ctx, r *Report) {
	resT := c.Named("lint", "LintResult")
	n := 0
	for _, f := range modFunctions(c) {
		pkg := ""
		if f.Pkg != nil {
			pkg = relPkg(f.Pkg.Pkg.Path())
		} else if f.Parent() != nil && f.Parent().Pkg != nil {
			pkg = relPkg(f.Parent().Pkg.Pkg.Path())
		}
		if pkg != "zlint" && pkg != "lint" {
			continue
		}
		allInstrs(f, func(in ssa.Instruction) {
			st, ok := in.(*ssa.Store)
			if !ok {
				return
			}
			fa, ok := st.Addr.(*ssa.FieldAddr)
			if !ok {
				return
			}
			fv := fieldVar(fa)
			if pt := fa.X.Type().String(); !strings.HasSuffix(pt, resT.Obj().Pkg().Path()+".LintResult") {
				return
			}
			if fv.Name() != "Status" && fv.Name() != "Details" {
				return
			}
			n++
			_, fresh := fa.X.(*ssa.Alloc)
			r.Check(fresh, "result-untouched", fname(f)+"|"+fv.Name(), st.Pos(), "store into a result allocated here",
				fmt.Sprintf("framework code overwrites %s of a result it did not allocate (%s): the rule's verdict is altered", fv.Name(), apath(fa.X)))
		})
	}
	r.Floor("framework result literals", 5, n)
}

func freshInstances(c *Ctx, r *Report, cs *Census) {
	for _, reg := range cs.Regs {
		if reg.Err != "" {
			r.Unk("census", regLocation(c, reg), reg.Call.Pos(), "registration not understood: "+reg.Err)
			continue
		}
		r.Check(reg.Fresh, "fresh-instance", reg.ID(), reg.Ctor.Pos(), reg.FreshWhy,
			"constructor of "+reg.ID()+" does not return a new instance per call: "+reg.FreshWhy+" — state (configuration, scratch fields) would leak between runs")
	}
	ctorFieldIntegrity(c, r)
}

// ctorFieldIntegrity: the constructor the framework calls is the field `Lint`
// of the registered lint struct. Every store into such a field anywhere in the
// module must put there either a function/closure that itself returns a fresh
// instance per call, or a copy of another lint struct's `Lint` field (the
// deprecated Lint ↔ CertificateLint wrappers). Otherwise the framework could
// swap a registered constructor for one that hands out a cached instance.
func ctorFieldIntegrity(c *Ctx, r *Report) {
	isLintStruct := func(t types.Type) bool {
		if p, ok := t.Underlying().(*types.Pointer); ok {
			t = p.Elem()
		}
		n, ok := t.(*types.Named)
		if !ok || n.Obj().Pkg() == nil || n.Obj().Pkg().Path() != modPath+"/lint" {
			return false
		}
		switch n.Obj().Name() {
		case "Lint", "CertificateLint", "RevocationListLint", "OcspResponseLint":
			return true
		}
		return false
	}
	isCtorField := func(a ssa.Value) bool {
		fa, ok := a.(*ssa.FieldAddr)
		if !ok || !isLintStruct(fa.X.Type()) {
			return false
		}
		st, ok := fa.X.Type().Underlying().(*types.Pointer).Elem().Underlying().(*types.Struct)
		return ok && st.Field(fa.Field).Name() == "Lint"
	}
	n := 0
	for _, f := range modFunctions(c) {
		allInstrs(f, func(in ssa.Instruction) {
			st, ok := in.(*ssa.Store)
			if !ok || !isCtorField(st.Addr) {
				return
			}
			n++
			v := st.Val
			for {
				if ct, ok := v.(*ssa.ChangeType); ok {
					v = ct.X
					continue
				}
				break
			}
			okv, why := false, ""
			switch x := v.(type) {
			case *ssa.Function:
				_, okv, why = ctorResult(x, 0)
			case *ssa.MakeClosure:
				_, okv, why = ctorResult(x.Fn.(*ssa.Function), 0)
			case *ssa.UnOp:
				if x.Op == token.MUL && isCtorField(x.X) {
					okv, why = true, "copy of another lint struct's constructor field"
				} else {
					why = "constructor field is set from " + x.String()
				}
			default:
				why = fmt.Sprintf("constructor field is set from %T %s", v, v.String())
			}
			r.Check(okv, "ctor-field", fname(f)+"|"+apath(st.Addr), st.Pos(), why,
				fmt.Sprintf("%s stores into the constructor field of a lint struct a value that is not a fresh-instance constructor (%s): the framework would run lints on a shared/cached instance", fname(f), why))
		})
	}
	r.Floor("stores into a lint struct's constructor field", 370, n)
}

var _ = constant.MakeBool
