package main

import (
	"fmt"
	"go/constant"
	"go/types"
	"regexp"
	"strings"

	"golang.org/x/tools/go/ssa"
)

func init() { register("C15", runC15) }

func isFatal(name string) bool {
	return strings.HasPrefix(name, "github.com/sirupsen/logrus.Fatal") || strings.HasPrefix(name, "(*github.com/sirupsen/logrus.Logger).Fatal") ||
		strings.HasPrefix(name, "(*github.com/sirupsen/logrus.Entry).Fatal") || name == "os.Exit" || strings.HasPrefix(name, "log.Fatal")
}

func isStdoutEvent(ev Event) bool {
	if ev.Kind != "call" {
		return false
	}
	switch {
	case strings.HasPrefix(ev.Name, "(*os.File).Write") && len(ev.Args) > 0 && ev.Args[0].String() == "os.Stdout":
		return true
	case strings.HasPrefix(ev.Name, "fmt.Print"):
		return true
	case strings.HasPrefix(ev.Name, "fmt.Fprint") && len(ev.Args) > 0 && ev.Args[0].String() == "os.Stdout":
		return true
	case ev.Name == "formattedoutput.OutputSummary":
		return true
	case ev.Name == "invoke:WriteJSON":
		return true
	}
	return false
}

func runC15(c *Ctx, tier string) {
	r := NewReport("C15", "other", tier, c)
	r.Explanation = "Control-flow shape of the command-line tool, decided from decision tables with logrus.Fatal*/os.Exit modelled as process exit: (1) doLint over read error × format ∈ {pem, der, base64, other} × PEM block ∈ {none, CERTIFICATE, X509 CRL, other type} × base64 error × parse error × JSON error × the three output flags: every failing case ends in a Fatal call with no write to standard output before it; every succeeding case parses exactly the decoded bytes of the chosen format (PEM block bytes / file bytes / base64-decoded bytes), lints with LintCertificateEx — or LintRevocationListEx iff the PEM type is X509 CRL — using the registry it was given, marshals that result's Results and writes it (or the indented form, or the summary tables of the same result set) followed by a newline; (2) setLints over all 64 combinations of the six selection flags and the error cases: the configuration file is loaded and set on the global registry first; without selectors the global registry is returned; otherwise each flag reaches exactly its own FilterOptions field (-nameFilter→NameFilter via regexp.Compile, -includeNames/-excludeNames→IncludeNames/ExcludeNames via trimmedList, -includeSources/-excludeSources→IncludeSources/ExcludeSources via SourceList.FromString, -profile→AddProfile(GetProfile)) and the result of GlobalRegistry().Filter is returned; configuration, pattern, source-list and profile errors end in an error return or Fatal; anyFilters is given all six selectors; (3) main passes setLints' registry to every doLint call and dies on its error before any output; (4) summary counts: newRT allocates fresh count maps per call and, per element of Results, increments resultCount[status] exactly when status > threshold; OutputSummary uses threshold Pass and a new table per call and prints resultCount per level. (5) unknown selectors: what the CLI hands to the library is rejected there — SourceList.FromString returns an error for every entry that is not a declared source (decision table over all declared constants and undeclared strings), lintNamesToMap returns an error for a name none of the three lookups knows, and Filter returns these errors (the rules of C13, evaluated here as well). Does not decide process exit codes, table rendering or byte equality of output across encodings."
	r.Rule("dolint-table; setlints-table; main-wiring; summary-counts; source-exhaustive; source-list; names-validated; filter-errors")
	r.Trusted = []string{"go/ssa", "logrus.Fatal* and os.Exit do not return", "encoding/pem, encoding/base64, encoding/json, zcrypto parsers"}

	c15DoLint(c, r)
	c15SetLints(c, r)
	c15Main(c, r)
	c15Args(c, r)
	c15Summary(c, r)
	// (5) unknown selectors: the CLI relies on the library to reject them
	sourceSwitches(c, r, "source-exhaustive", false)
	c13SourceList(c, r)
	namesToMap(c, r, "names-validated")
	c13FilterUses(c, r)
	c13NameList(c, r, BuildCensus(c))
	// "-config together with a selection flag": the registry Filter returns carries
	// the configuration set on the global registry before (Filter's tables, C08)
	filterChecks(c, r, true)
	c08Empty(c, r) // when Filter may hand back the registry it was given instead of a copy
	r.Finish()
}

func c15DoLint(c *Ctx, r *Report) {
	fn := c.Func("cmd/zlint", "doLint")
	outs, abort := Enumerate(fn, SymOpts{Inline: func(*ssa.Function) bool { return false }, NoReturn: isFatal, MaxPaths: 50000})
	if abort != "" {
		r.Unk("dolint-table", "doLint", fn.Pos(), abort)
		return
	}
	file, inform, reg := fn.Params[0].Name(), fn.Params[1].Name(), fn.Params[2].Name()
	readAll := "io.ReadAll(" + file + ")"
	fileBytes := "extract:0(" + readAll + ")"
	pemDec := "extract:0(encoding/pem.Decode(" + fileBytes + "))"
	for i, o := range outs {
		if i < 2 {
			r.Sample(map[string]interface{}{"table_of": "cmd/zlint.doLint", "path": o.Summary()})
		}
	}
	r.Extra["dolint_paths"] = len(outs)
	type cs struct {
		readErr               bool
		inform                string
		pemNil                bool
		pemType               string
		b64Err, parseErr      bool
		marshalErr, indentErr bool
		pretty, summary, long bool
	}
	var cases []cs
	for _, inf := range []string{"pem", "der", "base64", "xml"} {
		for _, flags := range []int{0, 1, 2, 4, 3, 5, 6, 7} {
			base := cs{inform: inf, pemType: "CERTIFICATE", pretty: flags&1 != 0, summary: flags&2 != 0, long: flags&4 != 0}
			cases = append(cases, base)
			if flags == 0 || flags == 1 {
				x := base
				x.readErr = true
				cases = append(cases, x)
				x = base
				x.parseErr = true
				cases = append(cases, x)
				x = base
				x.marshalErr = true
				cases = append(cases, x)
				x = base
				x.indentErr = true
				cases = append(cases, x)
				if inf == "pem" {
					for _, pt := range []string{"X509 CRL", "PRIVATE KEY"} {
						x = base
						x.pemType = pt
						cases = append(cases, x)
						x.parseErr = true
						cases = append(cases, x)
					}
					x = base
					x.pemNil = true
					cases = append(cases, x)
				}
				if inf == "base64" {
					x = base
					x.b64Err = true
					cases = append(cases, x)
				}
			}
		}
	}
	for _, k := range cases {
		key := fmt.Sprintf("format=%s,pem=%s/nil=%v,readerr=%v,b64err=%v,parseerr=%v,jsonerr=%v,indenterr=%v,pretty=%v,summary=%v,long=%v", k.inform, k.pemType, k.pemNil, k.readErr, k.b64Err, k.parseErr, k.marshalErr, k.indentErr, k.pretty, k.summary, k.long)
		errOf := func(name string) bool {
			switch {
			case name == "io.ReadAll":
				return k.readErr
			case strings.HasSuffix(name, "base64.Encoding).DecodeString"):
				return k.b64Err
			case strings.HasSuffix(name, "x509.ParseCertificate"), strings.HasSuffix(name, "x509.ParseRevocationList"):
				return k.parseErr
			case name == "encoding/json.Marshal":
				return k.marshalErr
			case name == "encoding/json.Indent":
				return k.indentErr
			}
			return false
		}
		oracle := func(t *T) (interface{}, bool) {
			s := t.String()
			switch {
			case s == inform:
				return k.inform, true
			case s == cliFlagPath(c, "pretty"):
				return k.pretty, true
			case s == cliFlagPath(c, "summary"):
				return k.summary, true
			case s == cliFlagPath(c, "longSummary"):
				return k.long, true
			case s == pemDec:
				if k.pemNil {
					return nil, true
				}
				return marker{"block"}, true
			case s == pemDec+".Type":
				return k.pemType, true
			case t.Op == "extract" && t.Name == "1" && len(t.Args) == 1 && t.Args[0].Op == "call":
				if errOf(t.Args[0].Name) {
					return errVal{}, true
				}
				return nil, true
			case t.Op == "call" && t.Name == "encoding/json.Indent":
				if k.indentErr {
					return errVal{}, true
				}
				return nil, true
			}
			return nil, false
		}
		sel, err := Select(outs, oracle)
		if err != nil {
			r.Unk("dolint-table", key, fn.Pos(), "doLint contains a condition the analysis does not model: "+err.Error())
			continue
		}
		if len(sel) != 1 {
			r.Unk("dolint-table", key, fn.Pos(), fmt.Sprintf("%d paths match", len(sel)))
			continue
		}
		o := sel[0]
		wantFail := k.readErr || (k.inform == "pem" && (k.pemNil || (k.pemType != "CERTIFICATE" && k.pemType != "X509 CRL"))) || (k.inform == "base64" && k.b64Err) ||
			(k.inform != "pem" && k.inform != "der" && k.inform != "base64") || k.parseErr || k.marshalErr || (k.pretty && k.indentErr)
		nStdout := 0
		for _, ev := range o.Trace {
			if isStdoutEvent(ev) {
				nStdout++
			}
		}
		if wantFail {
			bad := ""
			if o.Kind != "exit" {
				bad = "the tool carries on after the failure instead of dying (path ends with " + o.Kind + ")"
			} else if nStdout > 0 {
				bad = "something is written to standard output before the fatal error"
			}
			r.Check(bad == "", "dolint-table", key, fn.Pos(), "fails closed", bad)
			continue
		}
		if o.Kind != "return" {
			r.Bad("dolint-table", key, fn.Pos(), "valid input does not reach the output stage ("+o.Kind+" "+o.Why+")")
			continue
		}
		// expected data flow
		asn1 := map[string]string{"pem": pemDec + ".Bytes", "der": fileBytes, "base64": "extract:0((*encoding/base64.Encoding).DecodeString(encoding/base64.StdEncoding, conv:string(" + fileBytes + ")))"}[k.inform]
		isCRL := k.inform == "pem" && k.pemType == "X509 CRL"
		parseName, lintName := "github.com/zmap/zcrypto/x509.ParseCertificate", "zlint.LintCertificateEx"
		if isCRL {
			parseName, lintName = "github.com/zmap/zcrypto/x509.ParseRevocationList", "zlint.LintRevocationListEx"
		}
		parsed := "extract:0(" + parseName + "(" + asn1 + "))"
		lintRes := lintName + "(" + parsed + ", " + reg + ")"
		marshal := "encoding/json.Marshal(" + lintRes + ".Results)"
		var want []string
		want = append(want, "io.ReadAll")
		seen := map[string]bool{}
		bad := ""
		var stdout []string
		for _, ev := range o.Trace {
			if ev.Kind != "call" {
				if ev.Kind == "store" || ev.Kind == "mapupdate" {
					bad = "doLint writes " + ev.String()
				}
				continue
			}
			if ev.Result != nil {
				seen[ev.Result.String()] = true
			}
			if isStdoutEvent(ev) {
				stdout = append(stdout, ev.String())
			}
			if strings.HasPrefix(ev.Name, "zlint.Lint") && ev.Result.String() != lintRes {
				bad = "lints with " + ev.Result.String() + " instead of " + lintRes
			}
		}
		if bad == "" && !(seen[parseName+"("+asn1+")"] && seen[lintRes] && seen[marshal]) {
			bad = fmt.Sprintf("expected %s → %s → json.Marshal(result.Results); trace differs", parseName+"("+asn1+")", lintRes)
		}
		var wantOut []string
		jsonBytes := "extract:0(" + marshal + ")"
		if k.pretty {
			wantOut = append(wantOut, "Write(indented)", "Printf")
		}
		if k.summary {
			wantOut = append(wantOut, "OutputSummary(false)")
		}
		if k.long {
			wantOut = append(wantOut, "OutputSummary(true)")
		}
		if !k.pretty && !k.summary && !k.long {
			wantOut = append(wantOut, "Write(json)")
		}
		wantOut = append(wantOut, "Write(newline)")
		var gotOut []string
		for _, ev := range o.Trace {
			if !isStdoutEvent(ev) {
				continue
			}
			switch {
			case ev.Name == "formattedoutput.OutputSummary":
				if len(ev.Args) != 2 || ev.Args[0].String() != lintRes {
					bad = "the summary is computed from " + ev.Args[0].String() + " instead of the lint result"
				}
				gotOut = append(gotOut, "OutputSummary("+ev.Args[1].String()+")")
			case strings.HasPrefix(ev.Name, "(*os.File).Write"):
				a := ev.Args[1].String()
				switch {
				case a == jsonBytes:
					gotOut = append(gotOut, "Write(json)")
				case strings.HasPrefix(a, "(*bytes.Buffer).Bytes("):
					gotOut = append(gotOut, "Write(indented)")
				case strings.HasPrefix(a, "slice(&o"):
					gotOut = append(gotOut, "Write(newline)")
				default:
					gotOut = append(gotOut, "Write("+a+")")
				}
			case strings.HasPrefix(ev.Name, "fmt.Printf"):
				gotOut = append(gotOut, "Printf")
			default:
				gotOut = append(gotOut, ev.Name)
			}
		}
		if bad == "" && strings.Join(gotOut, ";") != strings.Join(wantOut, ";") {
			bad = fmt.Sprintf("output steps are %v, expected %v", gotOut, wantOut)
		}
		if bad == "" && k.pretty {
			okIndent := false
			for _, ev := range o.Trace {
				if ev.Name == "encoding/json.Indent" && len(ev.Args) >= 2 && ev.Args[1].String() == jsonBytes {
					okIndent = true
				}
			}
			if !okIndent {
				bad = "the pretty-printed output is not the indentation of the marshalled results"
			}
		}
		r.Check(bad == "", "dolint-table", key, fn.Pos(), strings.Join(wantOut, ";"), bad)
	}
}

// anyPredicate: the "was any selector given?" test of setLints — its closure, or
// a package-level function of the shape func(...string) bool it calls.
func anyPredicate(fn *ssa.Function) *ssa.Function {
	isAny := func(sig *types.Signature) bool {
		return sig.Params().Len() == 1 && sig.Results().Len() == 1 && sig.Results().At(0).Type().String() == "bool" && sig.Params().At(0).Type().String() == "[]string"
	}
	for _, a := range fn.AnonFuncs {
		if isAny(a.Signature) {
			return a
		}
	}
	var out *ssa.Function
	allInstrs(fn, func(in ssa.Instruction) {
		call, ok := in.(*ssa.Call)
		if !ok {
			return
		}
		callee := call.Call.StaticCallee()
		if callee == nil || callee.Pkg != fn.Pkg {
			return
		}
		sig := callee.Signature
		if sig.Variadic() && sig.Params().Len() == 1 && sig.Results().Len() == 1 && sig.Results().At(0).Type().String() == "bool" && sig.Params().At(0).Type().String() == "[]string" {
			out = callee
		}
	})
	return out
}

// resolvedSrcField: flag variable → FilterOptions field its parsed list is stored in.
var resolvedSrcField = map[string]string{}

func c15SetLints(c *Ctx, r *Report) {
	fn := c.Func("cmd/zlint", "setLints")
	anyPred := anyPredicate(fn)
	outs, abort := Enumerate(fn, SymOpts{Inline: func(*ssa.Function) bool { return false }, NoReturn: isFatal, MaxPaths: 50000, Opaque: func(f *ssa.Function) bool { return f == anyPred || isTransparentLib(f) }})
	if abort != "" {
		r.Unk("setlints-table", "setLints", fn.Pos(), abort)
		return
	}
	r.Extra["setlints_paths"] = len(outs)
	flags := []string{"nameFilter", "includeNames", "excludeNames", "includeSources", "excludeSources", "profile"}
	type cs struct {
		set                                       [6]bool
		cfgErr, reErr, exSrcErr, inSrcErr, noProf bool
	}
	var cases []cs
	for m := 0; m < 64; m++ {
		var k cs
		for i := range flags {
			k.set[i] = m&(1<<uint(i)) != 0
		}
		cases = append(cases, k)
	}
	all := cs{set: [6]bool{true, true, true, true, true, true}}
	for _, f := range []func(*cs){func(k *cs) { k.cfgErr = true }, func(k *cs) { k.reErr = true }, func(k *cs) { k.exSrcErr = true }, func(k *cs) { k.inSrcErr = true }, func(k *cs) { k.noProf = true }} {
		k := all
		f(&k)
		cases = append(cases, k)
	}
	none := cs{cfgErr: true}
	cases = append(cases, none)

	for _, k := range cases {
		key := fmt.Sprintf("flags=%v,cfgerr=%v,reerr=%v,exsrcerr=%v,insrcerr=%v,noprofile=%v", k.set, k.cfgErr, k.reErr, k.exSrcErr, k.inSrcErr, k.noProf)
		any := false
		for _, b := range k.set {
			any = any || b
		}
		anyArgs := ""
		oracle := func(t *T) (interface{}, bool) {
			s := t.String()
			for i, f := range flags {
				if s == cliFlagPath(c, f) {
					if k.set[i] {
						return "x", true
					}
					return "", true
				}
			}
			if t.Op == "extract" && len(t.Args) == 1 && t.Args[0].Op == "call" {
				cn := t.Args[0].Name
				switch {
				case cn == "lint.NewConfigFromFile" && t.Name == "1":
					if k.cfgErr {
						return errVal{}, true
					}
					return nil, true
				case cn == "regexp.Compile" && t.Name == "1":
					if k.reErr {
						return errVal{}, true
					}
					return nil, true
				case cn == "lint.GetProfile" && t.Name == "1":
					return !k.noProf, true
				}
			}
			if t.Op == "call" {
				switch {
				case t.Name == "(*lint.SourceList).FromString":
					isEx := len(t.Args) == 2 && (strings.HasSuffix(t.Args[0].String(), ".ExcludeSources") || (!strings.HasSuffix(t.Args[0].String(), ".IncludeSources") && strings.HasSuffix(t.Args[1].String(), ".excludeSources")))
					if (isEx && k.exSrcErr) || (!isEx && k.inSrcErr) {
						return errVal{}, true
					}
					return nil, true
				case strings.HasPrefix(t.Name, "slices.ContainsFunc") && len(t.Args) == 2 && t.Args[1].Fn != nil && nonEmptyStringPred(t.Args[1].Fn):
					// slices.ContainsFunc([]string{flags…}, func(s string) bool { return s != "" })
					anyArgs = t.String()
					return any, true
				case strings.HasPrefix(t.Name, "closure:") || strings.HasPrefix(t.Name, "dyn:") || strings.Contains(t.Name, "setLints$") || (anyPred != nil && t.Name == fname(anyPred)):
					// anyFilters(...)
					anyArgs = t.String()
					return any, true
				}
			}
			return nil, false
		}
		sel, err := Select(outs, oracle)
		if err != nil {
			r.Unk("setlints-table", key, fn.Pos(), "setLints contains a condition the analysis does not model: "+err.Error())
			continue
		}
		if len(sel) != 1 {
			r.Unk("setlints-table", key, fn.Pos(), fmt.Sprintf("%d paths match", len(sel)))
			continue
		}
		o := sel[0]
		bad := ""
		// configuration first
		cfgSet := false
		var filterEv *Event
		calls := map[string][]Event{}
		for i := range o.Trace {
			ev := o.Trace[i]
			calls[ev.Name] = append(calls[ev.Name], ev)
			if ev.Name == "invoke:SetConfiguration" && len(ev.Args) == 2 && strings.HasPrefix(ev.Args[0].String(), "lint.GlobalRegistry") && ev.Args[1].String() == "extract:0(lint.NewConfigFromFile("+cliFlagPath(c, "config")+"))" {
				cfgSet = true
			}
			if ev.Name == "invoke:Filter" {
				filterEv = &o.Trace[i]
				if !cfgSet {
					bad = "the registry is filtered before the -config file is applied: the filtered registry copies the configuration at filter time and would lint with defaults"
				}
			}
		}
		wantErr := k.cfgErr || (k.set[0] && k.reErr) || (k.set[5] && k.noProf)
		wantFatal := !k.cfgErr && !(k.set[0] && k.reErr) && ((k.set[4] && k.exSrcErr) || (k.set[3] && k.inSrcErr))
		switch {
		case wantFatal:
			if o.Kind != "exit" {
				bad = "an invalid source list does not stop the tool"
			}
		case wantErr:
			if o.Kind != "return" || len(o.Results) != 2 || o.Results[1].IsNil() || !o.Results[0].IsNil() {
				bad = "the error is not returned (with a nil registry)"
			}
			if filterEv != nil {
				bad = "Filter is called despite the error"
			}
		case !any:
			if o.Kind != "return" || filterEv != nil || !strings.HasPrefix(o.Results[0].String(), "lint.GlobalRegistry") || !o.Results[1].IsNil() || !cfgSet {
				bad = "without selectors the configured global registry must be returned unfiltered"
			}
		default:
			if o.Kind != "return" || filterEv == nil || !cfgSet {
				bad = "with selectors the result of GlobalRegistry().Filter must be returned after the configuration was set"
			} else {
				if !strings.HasPrefix(filterEv.Args[0].String(), "lint.GlobalRegistry") {
					bad = "Filter is not applied to the global registry"
				}
				if o.Results[0].String() != "extract:0("+filterEv.Result.String()+")" && o.Results[0].String() != filterEv.Result.String()+"#0" && !strings.Contains(o.Results[0].String(), "invoke:Filter") {
					bad = "the filtered registry is not what is returned: " + o.Results[0].String()
				}
				// flag → field wiring (final memory of the local FilterOptions)
				field := func(name string) string {
					for mk, v := range o.Mem {
						if strings.HasSuffix(mk, "<filterOpts>."+name) || strings.HasSuffix(mk, ">."+name) && strings.Contains(mk, "filterOpts") {
							return v.String()
						}
					}
					return ""
				}
				if !k.set[5] {
					wantF := map[string]string{"NameFilter": "", "IncludeNames": "", "ExcludeNames": ""}
					if k.set[0] {
						wantF["NameFilter"] = "extract:0(regexp.Compile(" + cliFlagPath(c, "nameFilter") + "))"
					}
					if k.set[1] {
						wantF["IncludeNames"] = "cmd/zlint.trimmedList(" + cliFlagPath(c, "includeNames") + ")"
					}
					if k.set[2] {
						wantF["ExcludeNames"] = "cmd/zlint.trimmedList(" + cliFlagPath(c, "excludeNames") + ")"
					}
					for f, w := range wantF {
						got := field(f)
						got = strings.ReplaceAll(got, "#1", "")
						if got != w {
							bad = fmt.Sprintf("FilterOptions.%s is %q, expected %q: a selection flag is wired to the wrong option", f, got, w)
						}
					}
				}
				srcCalls := calls["(*lint.SourceList).FromString"]
				wantSrc := map[string]string{}
				if k.set[3] {
					wantSrc["IncludeSources"] = cliFlagPath(c, "includeSources")
				}
				if k.set[4] {
					wantSrc["ExcludeSources"] = cliFlagPath(c, "excludeSources")
				}
				gotSrc := map[string]string{}
				for _, ev := range srcCalls {
					dst := lastField(ev.Args[0].String())
					if dst != "IncludeSources" && dst != "ExcludeSources" {
						// parsed into a local list (helper newer than the rules): the option
						// it ends up in is the FilterOptions field holding that list
						obj := strings.TrimPrefix(ev.Args[0].String(), "&")
						for mk, v := range o.Mem {
							if (strings.HasSuffix(mk, ".IncludeSources") || strings.HasSuffix(mk, ".ExcludeSources")) && strings.Contains(mk, "filterOpts") && strings.Contains(v.String(), obj) {
								dst = lastField(mk)
							}
						}
						for _, e2 := range o.Trace {
							if e2.Kind == "store" && len(e2.Args) == 1 && (strings.HasSuffix(e2.Name, ".IncludeSources") || strings.HasSuffix(e2.Name, ".ExcludeSources")) && strings.Contains(e2.Name, "filterOpts") && strings.Contains(e2.Args[0].String(), obj) {
								dst = lastField(e2.Name)
							}
						}
					}
					if dst == "IncludeSources" || dst == "ExcludeSources" {
						resolvedSrcField[ev.Args[1].String()] = dst
					} else if d2, ok := resolvedSrcField[ev.Args[1].String()]; ok {
						// AddProfile (an opaque call on the options) hides the local store on
						// this path; the same call site was resolved on the path without -profile
						dst = d2
					}
					gotSrc[dst] = ev.Args[1].String()
				}
				if fmt.Sprint(gotSrc) != fmt.Sprint(wantSrc) {
					bad = fmt.Sprintf("source flags reach %v, expected %v", gotSrc, wantSrc)
				}
				if k.set[5] {
					ap := calls["(*lint.FilterOptions).AddProfile"]
					if len(ap) != 1 || ap[0].Args[1].String() != "extract:0(lint.GetProfile("+cliFlagPath(c, "profile")+"))" {
						bad = "-profile is not added to the filter options via AddProfile(GetProfile(profile))"
					}
				} else if len(calls["(*lint.FilterOptions).AddProfile"]) != 0 {
					bad = "a profile is added although -profile is not given"
				}
			}
		}
		// anyFilters receives all six selectors
		if bad == "" && anyArgs != "" {
			for _, f := range flags {
				found := false
				for mk, v := range o.Mem {
					if (strings.Contains(mk, "<varargs>[") || strings.Contains(mk, "<slicelit>[")) && v.String() == cliFlagPath(c, f) {
						found = true
					}
				}
				if !found {
					bad = "-" + f + " is not among the arguments of the 'any selector given?' test: using only this flag would be ignored"
				}
			}
		}
		r.Check(bad == "", "setlints-table", key, fn.Pos(), "", bad)
	}
	// anyFilters body: true iff some argument is non-empty
	anyFn := anyPred
	if anyFn == nil {
		r.OK("setlints-table", "anyFilters", fn.Pos(), false, "no closure: selectors tested inline")
		return
	}
	ao, ab := Enumerate(anyFn, SymOpts{Inline: func(*ssa.Function) bool { return false }, LoopBound: 2})
	bad := ab
	if bad == "" {
		bad = onlyIndexCarried(anyFn, 0, nil)
	}
	p := anyFn.Params[0].Name()
	for _, l := range [][]bool{{}, {false}, {true}, {false, true}, {true, false}, {false, false}} {
		if bad != "" {
			break
		}
		oracle := func(t *T) (interface{}, bool) {
			if t.Op == "call" && t.Name == "builtin:len" && t.Args[0].String() == p {
				return int64(len(l)), true
			}
			var i int
			if _, err := fmt.Sscanf(t.String(), p+"[%d]", &i); err == nil && i < len(l) {
				if l[i] {
					return "x", true
				}
				return "", true
			}
			return nil, false
		}
		sel, err := Select(ao, oracle)
		if err != nil {
			bad = err.Error()
			break
		}
		var rets []*Outcome
		for _, o := range sel {
			if o.Kind == "return" {
				rets = append(rets, o)
			}
		}
		if len(rets) != 1 {
			bad = fmt.Sprintf("%d paths", len(rets))
			break
		}
		v, err := Eval(rets[0].Results[0], oracle)
		want := false
		for _, b := range l {
			want = want || b
		}
		if err != nil || v != want {
			bad = fmt.Sprintf("anyFilters(%v non-empty) = %v", l, v)
		}
	}
	r.Check(bad == "", "setlints-table", "anyFilters", anyFn.Pos(), "true iff some selector is non-empty", bad)
}

// c15Args: the files the CLI lints are the command-line arguments themselves:
// every os.Open in main (helpers newer than the rules included) takes an element
// of flag.Args() / flag.Arg(i) as it is — not a pattern expansion, a cleaned or
// otherwise rewritten path (a file named leaf[1].pem would be read as a glob).
func c15Args(c *Ctx, r *Report) {
	fn := c.Func("cmd/zlint", "main")
	argRe := regexp.MustCompile(`^flag\.Args\(\)\[[^\]]*\]$|^flag\.Arg\([^)]*\)$`)
	n := 0
	allInstrsDeep(fn, func(in ssa.Instruction) {
		call, ok := in.(ssa.CallInstruction)
		if !ok {
			return
		}
		name := staticCalleeName(call.Common())
		if name != "os.Open" && name != "os.OpenFile" && name != "os.ReadFile" {
			return
		}
		n++
		p := apath(call.Common().Args[0])
		r.Check(argRe.MatchString(p), "args-verbatim", name+"("+trimStr(p, 60)+")", in.Pos(), "opens a command-line argument as given",
			"main opens "+p+", which is not a command-line argument as given (flag.Args()[i]): the file that is linted is not the one named on the command line")
	})
	r.Floor("files opened by main", 1, n)
}

func c15Main(c *Ctx, r *Report) {
	fn := c.Func("cmd/zlint", "main")
	setl := "cmd/zlint.setLints()"
	n := 0
	var doLintCalls []ssa.CallInstruction
	allInstrsDeep(fn, func(in ssa.Instruction) {
		if ci, ok := in.(ssa.CallInstruction); ok && staticCalleeName(ci.Common()) == "cmd/zlint.doLint" {
			doLintCalls = append(doLintCalls, ci)
			c15DoLintCall(r, ci, len(doLintCalls), setl)
		}
	})
	n = len(doLintCalls)
	r.Floor("doLint call sites", 2, n)
	// setLints error ⇒ Fatal before anything else; open error ⇒ Fatal
	outs, abort := Enumerate(fn, SymOpts{Inline: func(*ssa.Function) bool { return false }, NoReturn: isFatal, LoopBound: 1, MaxPaths: 50000})
	if abort != "" {
		r.Unk("main-wiring", "main", fn.Pos(), abort)
		return
	}
	bad := ""
	sawErr := false
	for _, o := range outs {
		setErr := false
		openErr := false
		for _, cd := range o.Conds {
			s := cd.T.String()
			if s == "(extract:1("+setl+") == nil)" && !cd.Val {
				setErr = true
			}
			if strings.HasPrefix(s, "(extract:1(os.Open(") && !cd.Val {
				openErr = true
			}
		}
		if setErr || openErr {
			sawErr = true
			if o.Kind != "exit" {
				bad = "main carries on after a setLints / open error"
			}
			if setErr {
				for _, ev := range o.Trace {
					if isStdoutEvent(ev) || ev.Name == "cmd/zlint.doLint" {
						bad = "output is produced although the selectors could not be applied"
					}
				}
			}
		}
	}
	if !sawErr {
		bad = "main does not test setLints' error"
	}
	r.Check(bad == "", "main-wiring", "errors are fatal", fn.Pos(), "", bad)
}

// summaryCounter: the function of package formattedoutput that tallies a result
// set — the reference tree's (*resultsTable).newRT, or (after a rename / a move to
// a constructor function) the unique function there that takes a lint.LintStatus
// threshold and a *zlint.ResultSet.
func summaryCounter(c *Ctx) *ssa.Function {
	if f := c.MethodMaybe("formattedoutput", "resultsTable", "newRT"); f != nil {
		return f
	}
	var cands []*ssa.Function
	for _, f := range modFunctions(c) {
		if f.Parent() != nil || relPkg(fnPkgPath(f)) != "formattedoutput" {
			continue
		}
		hasThr, hasRes := false, false
		for _, p := range f.Params {
			switch {
			case strings.HasSuffix(p.Type().String(), "lint.LintStatus"):
				hasThr = true
			case strings.HasSuffix(p.Type().String(), "v3.ResultSet"):
				hasRes = true
			}
		}
		if hasThr && hasRes {
			cands = append(cands, f)
		}
	}
	if len(cands) == 1 {
		return cands[0]
	}
	return c.Method("formattedoutput", "resultsTable", "newRT") // reports the unresolved anchor
}

func c15Summary(c *Ctx, r *Report) {
	fn := summaryCounter(c)
	outs, abort := Enumerate(fn, SymOpts{Inline: func(*ssa.Function) bool { return false }, LoopBound: 1, MaxPaths: 50000})
	if abort != "" {
		r.Unk("summary-counts", "newRT", fn.Pos(), abort)
		return
	}
	recv, thr, res := "", "", ""
	for _, p := range fn.Params {
		switch {
		case strings.HasSuffix(p.Type().String(), "lint.LintStatus"):
			thr = p.Name()
		case strings.HasSuffix(p.Type().String(), "v3.ResultSet"):
			res = p.Name()
		case strings.HasSuffix(p.Type().String(), "resultsTable"):
			recv = p.Name()
		}
	}
	if thr == "" || res == "" {
		r.Unk("summary-counts", "newRT", fn.Pos(), "the tallying function has no threshold / result-set parameter")
		return
	}
	bad := ""
	iterSeen := false
	for _, o := range outs {
		if o.Kind == "abort" || o.Kind == "panic" {
			bad = "path not understood: " + o.Why
			continue
		}
		// the count map allocated in this call
		var countMap *T
		for _, ev := range o.Trace {
			if ev.Kind == "store" && (ev.Name == "&"+recv+".resultCount" || (recv == "" && strings.HasSuffix(ev.Name, ".resultCount"))) {
				if ev.Args[0].Op != "obj" {
					bad = "resultCount is not a fresh map per call: counts accumulate across summary tables"
				}
				if countMap != nil {
					bad = "resultCount replaced twice"
				}
				countMap = ev.Args[0]
			}
		}
		if countMap == nil && recv == "" {
			// constructor form: the table is a local value whose resultCount field the
			// function itself fills in
			for k, v := range o.Lit {
				if strings.HasSuffix(k, ".resultCount") {
					if v.Op != "obj" {
						bad = "resultCount is not a fresh map per call: counts accumulate across summary tables"
					}
					if countMap != nil && countMap != v {
						bad = "resultCount replaced twice"
					}
					countMap = v
				}
			}
		}
		if countMap == nil {
			bad = "resultCount is not allocated in newRT: counts accumulate across calls"
			continue
		}
		// every path walks results.Results (a shortcut that skips the walk when some
		// summary flag is clear leaves results of the other levels uncounted)
		entered := false
		var under []string
		for _, cd := range o.Conds {
			ts := cd.T.String()
			if strings.Contains(ts, "range("+res+".Results)") {
				entered = true
			} else if strings.Contains(ts, "len("+res+".Results)") && (cd.Val && (strings.HasSuffix(ts, "== 0)") || strings.HasSuffix(ts, "< 1)")) || !cd.Val && (strings.HasSuffix(ts, "!= 0)") || strings.HasSuffix(ts, "> 0)") || strings.HasPrefix(ts, "(0 <"))) {
				entered = true // nothing to walk on this path
			} else {
				under = append(under, fmt.Sprintf("%v=%v", cd.T, cd.Val))
			}
		}
		if !entered && o.Kind != "cut" {
			bad = "a path through newRT returns without walking Results (when " + trimStr(strings.Join(under, ", "), 200) + "): results are left uncounted"
			continue
		}
		// iterations over results.Results
		for _, cd := range o.Conds {
			t := cd.T
			if t.Op == "bin" && t.Name == "<" && t.Args[0].String() == thr && strings.HasSuffix(t.Args[1].String(), ".Status") && strings.Contains(t.Args[1].String(), "range("+res+".Results)") {
				iterSeen = true
				status := t.Args[1].String()
				incs := 0
				for _, ev := range o.Trace {
					if ev.Kind == "mapupdate" && ev.Name == countMap.String() && ev.Args[0].String() == status {
						incs++
						want := "(lookup(" + countMap.String() + ", " + status + ") + 1)"
						if ev.Args[1].String() != want {
							bad = "the count is updated to " + ev.Args[1].String() + " instead of being incremented by one"
						}
					}
				}
				if cd.Val && incs != 1 {
					bad = fmt.Sprintf("a result above the threshold is counted %d times", incs)
				}
				if !cd.Val && incs != 0 {
					bad = "a result at or below the threshold is counted"
				}
			}
		}
	}
	if bad == "" && !iterSeen {
		bad = "no comparison 'status > threshold' on the elements of Results found"
	}
	r.Check(bad == "", "summary-counts", "newRT", fn.Pos(), fmt.Sprintf("%d paths: fresh map; ++ exactly when status > threshold", len(outs)), bad)
	// OutputSummary: fresh table, threshold Pass, same result set
	os := c.Func("formattedoutput", "OutputSummary")
	ok := false
	allInstrsDeep(os, func(in ssa.Instruction) {
		call, isCall := in.(ssa.CallInstruction)
		if !isCall || call.Common().StaticCallee() != fn {
			return
		}
		fresh, thrOK, resOK := recv == "", false, false
		for i, a := range call.Common().Args {
			if i >= len(fn.Params) {
				break
			}
			switch fn.Params[i].Name() {
			case recv:
				_, fresh = a.(*ssa.Alloc)
			case thr:
				if k, isK := a.(*ssa.Const); isK && k.Value != nil && k.Value.ExactString() == "3" {
					thrOK = true
				}
			case res:
				resOK = a == ssa.Value(os.Params[0]) || apath(a) == os.Params[0].Name()
			}
		}
		if fresh && thrOK && resOK {
			ok = true
		}
	})
	r.Check(ok, "summary-counts", "OutputSummary", os.Pos(), "new table per call, threshold Pass, the given result set", "OutputSummary does not build a fresh table from the given result set with threshold Pass (counts would be shared between tables or computed from other results)")
	// printed count = resultCount[level]
	printed := 0
	allInstrsDeep(os, func(in ssa.Instruction) {
		call, ok := in.(*ssa.Call)
		if !ok || staticCalleeName(&call.Call) != "strconv.Itoa" {
			return
		}
		if lk, ok := call.Call.Args[0].(*ssa.Lookup); ok && strings.HasSuffix(apath(lk.X), ".resultCount") {
			printed++
		}
	})
	r.Check(printed >= 2, "summary-counts", "printed value", os.Pos(), fmt.Sprintf("%d cells print resultCount[level]", printed), "the summary tables no longer print resultCount[level]")
}

func phiName(p *ssa.Phi) string {
	if p.Comment != "" {
		return p.Comment
	}
	return p.Name()
}

// loopCarriedDep: v depends (through operands, phis and calls) on a φ at a loop
// header that really changes from one iteration to the next (other than a range
// index): returns that φ.
func loopCarriedDep(v ssa.Value, seen map[ssa.Value]bool) *ssa.Phi {
	if v == nil || seen[v] || len(seen) > 400 {
		return nil
	}
	seen[v] = true
	switch x := v.(type) {
	case *ssa.Parameter:
		if a, ok := apathSubst[x]; ok {
			return loopCarriedDep(a, seen)
		}
		return nil
	case *ssa.Const, *ssa.Global, *ssa.Function, *ssa.FreeVar, *ssa.Builtin:
		return nil
	case *ssa.Phi:
		b := x.Block()
		header := false
		for i, p := range b.Preds {
			if b.Dominates(p) && x.Edges[i] != ssa.Value(x) {
				header = true
			}
		}
		if header && x.Comment != "rangeindex" {
			return x
		}
	}
	in, ok := v.(ssa.Instruction)
	if !ok {
		return nil
	}
	for _, op := range in.Operands(nil) {
		if *op == nil {
			continue
		}
		if p := loopCarriedDep(*op, seen); p != nil {
			return p
		}
	}
	return nil
}

// c15DoLintCall checks one (possibly helper-wrapped) call of doLint; evaluated
// while allInstrsDeep's parameter substitution is in force.
func c15DoLintCall(r *Report, call ssa.CallInstruction, n int, setl string) {
	a := call.Common().Args
	regArg := apath(a[2])
	ok := regArg == setl+"#0"
	fileArg := apath(a[0])
	okFile := fileArg == "os.Stdin" || strings.HasPrefix(fileArg, "os.Open(")
	r.Check(ok && okFile, "main-wiring", fmt.Sprintf("doLint#%d", n), call.Pos(), "doLint(<stdin|opened file>, format, setLints' registry)", fmt.Sprintf("doLint is called with registry %s and input %s: the selection made by the flags is not what is linted with", regArg, fileArg))
	// the format a file is decoded with is a function of the -format flag and of that
	// file's own name: nothing carried over from the files handled before it
	if phi := loopCarriedDep(a[1], map[ssa.Value]bool{}); phi != nil {
		r.Bad("main-wiring", fmt.Sprintf("doLint#%d|format-carried", n), call.Pos(), fmt.Sprintf("the input format passed to doLint (%s) depends on %s, a variable carried over from the previous iteration of the loop over the input files: a later file is decoded with a format chosen for an earlier one", trimStr(apath(a[1]), 120), phiName(phi)))
	} else {
		r.OK("main-wiring", fmt.Sprintf("doLint#%d|format", n), call.Pos(), false, "format argument does not depend on earlier files")
	}
}

// nonEmptyStringPred: f is func(s string) bool { return s != "" } (in any form
// the engine normalises to that).
func nonEmptyStringPred(f *ssa.Function) bool {
	if len(f.Params) != 1 || len(f.FreeVars) != 0 {
		return false
	}
	outs, abort := Enumerate(f, SymOpts{Inline: func(*ssa.Function) bool { return false }})
	if abort != "" {
		return false
	}
	p := f.Params[0].Name()
	for _, v := range []string{"", "x"} {
		oracle := func(t *T) (interface{}, bool) {
			if t.String() == p {
				return v, true
			}
			if t.Op == "call" && t.Name == "builtin:len" && len(t.Args) == 1 && t.Args[0].String() == p {
				return int64(len(v)), true
			}
			return nil, false
		}
		sel, err := Select(outs, oracle)
		if err != nil || len(sel) != 1 || sel[0].Kind != "return" || len(sel[0].Results) != 1 {
			return false
		}
		got, err := Eval(sel[0].Results[0], oracle)
		if err != nil || got != (v != "") {
			return false
		}
	}
	return true
}

// cliFlagPaths: flag name → printed access path of the variable the flag is
// bound to (flag.StringVar(&x, "name", …) / BoolVar / IntVar in package
// cmd/zlint's init). The rules speak about flags by NAME; where the value lives
// (a package variable per flag, a field of one options struct) is free.
var cliFlagMemo map[string]string

func cliFlagPath(c *Ctx, name string) string {
	if cliFlagMemo == nil {
		cliFlagMemo = map[string]string{}
		if p := c.SSAPkg("cmd/zlint"); p != nil {
			for _, m := range p.Members {
				f, ok := m.(*ssa.Function)
				if !ok {
					continue
				}
				var fs []*ssa.Function
				fs = append(fs, f)
				fs = append(fs, f.AnonFuncs...)
				for _, g := range fs {
					allInstrsDeep(g, func(in ssa.Instruction) {
						call, ok := in.(ssa.CallInstruction)
						if !ok {
							return
						}
						n := staticCalleeName(call.Common())
						if !strings.HasPrefix(n, "flag.") || !strings.HasSuffix(n, "Var") || len(call.Common().Args) < 2 {
							return
						}
						if k, isK := call.Common().Args[1].(*ssa.Const); isK && k.Value != nil && k.Value.Kind() == constant.String {
							cliFlagMemo[constant.StringVal(k.Value)] = strings.TrimPrefix(apath(call.Common().Args[0]), "&")
						}
					})
				}
			}
		}
	}
	if p, ok := cliFlagMemo[name]; ok {
		return p
	}
	return "cmd/zlint." + name
}
