package main

// loops.go — natural loops of an SSA function, their iterated collections and
// their early exits (used by C17).

import (
	"sort"
	"strings"

	"golang.org/x/tools/go/ssa"
)

type natLoop struct {
	fn     *ssa.Function
	header *ssa.BasicBlock
	blocks map[*ssa.BasicBlock]bool
	done   *ssa.BasicBlock // the header's successor outside the loop (normal exit)
}

func naturalLoops(fn *ssa.Function) []*natLoop {
	byHeader := map[*ssa.BasicBlock]*natLoop{}
	for _, b := range fn.Blocks {
		for _, s := range b.Succs {
			if s.Dominates(b) { // back edge b→s
				l := byHeader[s]
				if l == nil {
					l = &natLoop{fn: fn, header: s, blocks: map[*ssa.BasicBlock]bool{s: true}}
					byHeader[s] = l
				}
				// blocks that reach b without passing s
				var stack []*ssa.BasicBlock
				if !l.blocks[b] {
					l.blocks[b] = true
					stack = append(stack, b)
				}
				for len(stack) > 0 {
					x := stack[len(stack)-1]
					stack = stack[:len(stack)-1]
					for _, p := range x.Preds {
						if !l.blocks[p] {
							l.blocks[p] = true
							stack = append(stack, p)
						}
					}
				}
			}
		}
	}
	var out []*natLoop
	for _, l := range byHeader {
		for _, s := range l.header.Succs {
			if !l.blocks[s] {
				l.done = s
			}
		}
		out = append(out, l)
	}
	sort.Slice(out, func(i, j int) bool { return out[i].header.Index < out[j].header.Index })
	return out
}

// iterated returns the access paths of the collections the loop walks:
// slices indexed by a value derived from a header phi, maps/strings ranged
// with Next, and slices shortened by the loop itself (for len(rest) > 0).
func (l *natLoop) iterated() []string {
	seen := map[string]bool{}
	headerPhis := map[ssa.Value]bool{}
	for _, in := range l.header.Instrs {
		if phi, ok := in.(*ssa.Phi); ok {
			headerPhis[phi] = true
		}
	}
	var fromPhi func(v ssa.Value, d int) bool
	fromPhi = func(v ssa.Value, d int) bool {
		if d > 4 {
			return false
		}
		if headerPhis[v] {
			return true
		}
		if bo, ok := v.(*ssa.BinOp); ok {
			return fromPhi(bo.X, d+1) || fromPhi(bo.Y, d+1)
		}
		return false
	}
	for b := range l.blocks {
		for _, in := range b.Instrs {
			switch x := in.(type) {
			case *ssa.IndexAddr:
				if fromPhi(x.Index, 0) {
					seen[apath(x.X)] = true
				}
			case *ssa.Index:
				if fromPhi(x.Index, 0) {
					seen[apath(x.X)] = true
				}
			case *ssa.Next:
				if rg, ok := x.Iter.(*ssa.Range); ok {
					seen["range "+apath(rg.X)] = true
				}
			case *ssa.Call:
				// a parser loop over a cryptobyte.String: names.ReadAnyASN1(...) / ReadASN1 / Skip
				if g := x.Call.StaticCallee(); g != nil && g.Signature.Recv() != nil && strings.HasSuffix(g.Signature.Recv().Type().String(), "cryptobyte.String") &&
					(strings.HasPrefix(g.Name(), "Read") || strings.HasPrefix(g.Name(), "Skip") || g.Name() == "CopyBytes") && len(x.Call.Args) > 0 {
					if _, isLocal := x.Call.Args[0].(*ssa.Alloc); isLocal {
						seen["consume cryptobyte "+apath(x.Call.Args[0])] = true
					}
				}
			}
		}
	}
	// while-loops consuming a slice: a header phi of slice type
	for v := range headerPhis {
		phi := v.(*ssa.Phi)
		if strings.HasPrefix(phi.Type().String(), "[]") {
			for i, e := range phi.Edges {
				if !l.blocks[l.header.Preds[i]] {
					seen["consume "+apath(e)] = true
				}
			}
		}
	}
	var out []string
	for k := range seen {
		out = append(out, k)
	}
	sort.Strings(out)
	return out
}

type loopExit struct {
	from, to *ssa.BasicBlock
	kind     string // return | break
	rets     []*ssa.Return
}

// earlyExits lists the exits of the loop other than the header's normal exit.
func (l *natLoop) earlyExits() []loopExit {
	var out []loopExit
	for b := range l.blocks {
		for _, s := range b.Succs {
			if l.blocks[s] {
				continue
			}
			if b == l.header && s == l.done {
				continue
			}
			ex := loopExit{from: b, to: s}
			// follow until returns or the done block
			seen := map[*ssa.BasicBlock]bool{}
			var walk func(x *ssa.BasicBlock)
			reachedDone := false
			walk = func(x *ssa.BasicBlock) {
				if seen[x] {
					return
				}
				seen[x] = true
				if x == l.done {
					reachedDone = true
					return
				}
				if l.blocks[x] {
					return
				}
				if ret, ok := x.Instrs[len(x.Instrs)-1].(*ssa.Return); ok {
					ex.rets = append(ex.rets, ret)
					return
				}
				for _, s2 := range x.Succs {
					walk(s2)
				}
			}
			walk(s)
			if reachedDone || len(ex.rets) == 0 {
				ex.kind = "break"
			} else {
				ex.kind = "return"
			}
			out = append(out, ex)
		}
	}
	sort.Slice(out, func(i, j int) bool { return out[i].from.Index < out[j].from.Index })
	return out
}
