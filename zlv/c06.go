package main

import (
	"fmt"
	"go/token"
	"sort"
	"strings"
)

func init() { register("C06", runC06) }

// forbidden statuses per prefix
var c06Forbidden = map[byte][]int{
	'e': {5, 4}, // Warn, Notice
	'w': {6, 4}, // Error, Notice
	'n': {5, 6}, // Warn, Error
}

func runC06(c *Ctx, tier string) {
	r := NewReport("C06", "other", tier, c)
	r.Explanation = "For every registration in the module (census of all Register* calls, resolved by callee object) the name is constant-folded and must start with exactly one of e_/w_/n_; the set of lint.LintStatus constants that can reach the Status field of any *lint.LintResult returned by the registered concrete type's Execute is computed by an interprocedural status-flow analysis on SSA (all return paths, static module callees, phi joins, status cells passed by pointer, package-level status tables) and intersected with the statuses the prefix forbids (e_: Warn/Notice, w_: Error/Notice, n_: Warn/Error). A status set the analysis cannot bound is 'undecided' and fails. Decides the property for every input because statuses are compile-time constants selected by control flow; does not decide which inputs trigger which path. Genuine violations present on the pinned tree are listed in known_findings.txt by lint+status+originating function."
	r.Rule("name-prefix: constant name matches ^[ewn]_")
	r.Rule("prefix-status: statuses reachable from Execute contain none forbidden by the prefix")
	r.Trusted = []string{"go/types", "go/ssa (x/tools v0.29.0)", "status constants are only produced by the forms the analysis models (anything else is reported undecided)"}
	r.Assumptions = []string{"Execute bodies create statuses only from constants, not by reflection or unsafe", "dynamic calls returning results are reported undecided rather than assumed"}
	r.Exhaustive = true

	cs := BuildCensus(c)
	sf := NewStatusFlow(c)
	r.Floor("registrations", 370, len(cs.Regs))
	multi := 0
	for _, reg := range cs.Regs {
		if reg.Err != "" {
			r.Unk("census", regLocation(c, reg), reg.Call.Pos(), "registration not understood: "+reg.Err)
			continue
		}
		if !reg.NameOK {
			r.Unk("name-prefix", regLocation(c, reg), reg.Call.Pos(), "lint name is not a constant string")
			continue
		}
		name := reg.Name
		if len(name) < 2 || name[1] != '_' || c06Forbidden[name[0]] == nil {
			r.Bad("name-prefix", name, reg.Call.Pos(), "lint name does not carry exactly one of the prefixes e_, w_, n_")
			continue
		}
		r.OK("name-prefix", name, reg.Call.Pos(), false, "")
		ss := sf.ResultOf(reg.Execute, 0)
		if len(ss.Names()) > 1 {
			multi++
		}
		bad := false
		for _, u := range ss.Unknown {
			r.Unk("prefix-status", name+"|unknown|"+u.Fn, u.Pos, "status set of Execute not bounded: "+u.Why)
			bad = true
		}
		for _, st := range c06Forbidden[name[0]] {
			if !ss.Has(st) {
				continue
			}
			bad = true
			fns := map[string]token.Pos{}
			for _, o := range ss.Org[st] {
				fnName := o.Fn
				// a helper newer than the rules answers for the functions it acts for
				// (the finding "lint L returns status S from its Execute" stays the same
				// finding when the returning statement moves into an extracted helper)
				if f := funcByName(c, fnName); f != nil && isNewFunc(f) {
					if owners, ok := ownerFuncs(c, f); ok && len(owners) > 0 {
						var ns []string
						for _, ow := range owners {
							ns = append(ns, fname(ow))
						}
						fnName = strings.Join(ns, "+")
					}
				}
				if _, ok := fns[fnName]; !ok {
					fns[fnName] = o.Pos
				}
			}
			var keys []string
			for k := range fns {
				keys = append(keys, k)
			}
			sort.Strings(keys)
			for _, fn := range keys {
				r.Bad("prefix-status", fmt.Sprintf("%s|%s|%s", name, statusNames[st], fn), fns[fn],
					fmt.Sprintf("lint %s can return %s (constant produced in %s); statuses reachable from Execute: %s", name, statusNames[st], fn, ss.String()))
			}
		}
		if !bad {
			r.OK("prefix-status", name, reg.Execute.Pos(), len(ss.Names()) > 1, ss.String())
		}
		if len(r.Samples) < 6 && len(ss.Names()) > 2 {
			r.Sample(map[string]interface{}{"lint": name, "execute": fname(reg.Execute), "pos": c.Pos(reg.Execute.Pos()), "statuses": ss.Names()})
		}
	}
	r.Extra["lints_with_more_than_one_status"] = multi
	r.Extra["functions_analysed"] = len(sf.memo)
	_ = strings.Join
	r.Finish()
}
