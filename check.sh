#!/bin/sh
# usage: ./check.sh <Cxx> [quick|thorough]
# Rebuilds the checker from /verif/zlv (cached, ~1 s) and decides property
# <Cxx> on /repo's current working tree. Nothing under /repo is written.
# thorough = the same rules on four build configurations plus the checker's
# two-sided self-test (tools/thorough.sh).
cd "$(dirname "$0")" || exit 2
export GOFLAGS=-mod=mod GOPROXY=off GOSUMDB=off GOTOOLCHAIN=local CGO_ENABLED=0
unset GOWORK
mkdir -p bin evidence
(cd zlv && go build -o ../bin/zlv .) || { echo "CHECKER-FAULT: zlv does not build"; exit 2; }
tier="${2:-${VERIF_TIER:-quick}}"
if [ "$tier" = thorough ]; then
  exec tools/thorough.sh "$1"
fi
exec ./bin/zlv -prop "$1" -tier quick
