#!/bin/sh
# usage: tools/runpatch.sh <patch> <Cxx> [<Cxx>...]
# Applies <patch> to a scratch copy of /repo/v3 (outside /repo and /verif),
# checks that the copy still builds, runs the named checks on it and removes
# the copy. Prints one line per check: KILLED (exit 1), SILENT (exit 0) or
# FAULT (exit 2).
patch="$1"; shift
export GOFLAGS=-mod=mod GOPROXY=off GOSUMDB=off GOTOOLCHAIN=local CGO_ENABLED=0
unset GOWORK
tmp=$(mktemp -d /tmp/zlvmut.XXXXXX) || exit 2
trap 'rm -rf "$tmp"' EXIT
rsync -a --exclude testdata --exclude .git --exclude '*_test.go' /repo/v3 "$tmp/" || exit 2
if ! patch -s -p1 -d "$tmp" < "$patch"; then echo "STALE $patch (does not apply)"; exit 3; fi
if ! (cd "$tmp/v3" && GOFLAGS=-mod=readonly go build ./... 2>"$tmp/build.err"); then echo "NOBUILD $patch"; head -5 "$tmp/build.err"; exit 4; fi
mkdir -p "$tmp/ev"
for p in "$@"; do
  ZLV_REPO="$tmp" ZLV_EVDIR="$tmp/ev" ZLV_BCECACHE="$tmp/bce" /verif/bin/zlv -prop "$p" > "$tmp/out.$p" 2>&1; rc=$?
  case $rc in
    0) echo "SILENT $p $(basename $patch)";;
    1) echo "KILLED $p $(basename $patch): $(grep -v '^VIOLATION\|^KNOWN-FINDING\|^note:' "$tmp/out.$p" | head -1 | cut -c1-260)";;
    *) echo "FAULT($rc) $p $(basename $patch): $(head -3 "$tmp/out.$p" | cut -c1-300)";;
  esac
done
