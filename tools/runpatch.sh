#!/bin/sh
# usage: tools/runpatch.sh <patch> <Cxx> [<Cxx>...]
# Applies <patch> to a scratch copy of /repo/v3 (outside /repo and /verif),
# checks that the copy still builds, runs the named checks on it and removes
# the copy. Prints one line per check: KILLED (exit 1), SILENT (exit 0) or
# FAULT (exit 2).
patch="$1"; shift
export GOFLAGS=-mod=mod GOPROXY=off GOSUMDB=off GOTOOLCHAIN=local CGO_ENABLED=0
unset GOWORK
tmp=$(mktemp -d /tmp/zlvmut.XXXXXX) || exit 2
trap 'rm -rf "$tmp"' EXIT
rsync -a --exclude testdata --exclude .git --exclude '*_test.go' /repo/v3 "$tmp/" || exit 2
if ! patch -s -p1 -d "$tmp" < "$patch"; then echo "STALE $patch (does not apply)"; exit 3; fi
if ! (cd "$tmp/v3" && GOFLAGS=-mod=readonly go build ./... 2>"$tmp/build.err"); then echo "NOBUILD $patch"; head -5 "$tmp/build.err"; exit 4; fi
mkdir -p "$tmp/ev"
# one process decides all the named properties on the patched copy (zlv -props):
# the program is loaded and the call graph built once
plist=$(echo "$@" | tr ' ' ',')
ZLV_REPO="$tmp" ZLV_EVDIR="$tmp/ev" ZLV_BCECACHE="$tmp/bce" /verif/bin/zlv -props "$plist" > "$tmp/out.all" 2>&1; brc=$?
if ! grep -q '^BATCH ' "$tmp/out.all"; then
  for p in "$@"; do echo "FAULT($brc) $p $(basename $patch): $(head -3 "$tmp/out.all" | cut -c1-300)"; done
  exit 0
fi
awk -v patch="$(basename $patch)" '
/^BATCH / { id=$2; rc=$3; sub("rc=","",rc);
  if (rc==0) print "SILENT " id " " patch;
  else if (rc==1) print "KILLED " id " " patch ": " substr(first,1,260);
  else print "FAULT(" rc ") " id " " patch ": " substr(firstany,1,300);
  first=""; firstany=""; next }
{ if (firstany=="") firstany=$0;
  if (first=="" && $0 !~ /^VIOLATION|^KNOWN-FINDING|^note:/) first=$0 }
' "$tmp/out.all"
