#!/bin/bash
# usage: tools/benrun2.sh [out-file] [parallel]
# Runs EVERY check on each of the 80 archived behaviour-preserving refactors
# under benign/round2_all/<Cxx>/R*.diff; any report is a false alarm.
cd /verif
out=${1:-/tmp/benrun2.out}; par=${2:-4}
all=$(ls zlv/c[0-9][0-9].go | sed 's|zlv/c|C|; s|\.go||' | tr '\n' ' ')
ls ${BENDIR:-benign/round2_all}/C*/R*.diff | xargs -P $par -I{} bash -c 'r=$(tools/runpatch.sh {} '"$all"' 2>&1 | grep -v "^SILENT" | cut -c1-600); echo "== {} :: ${r:-all silent}"' > "$out"
echo "silent: $(grep -c "all silent" "$out") of $(grep -c "^== " "$out")"
grep -v "all silent" "$out"
