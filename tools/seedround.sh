#!/bin/bash
# usage: tools/seedround.sh <Cxx> <variant>...   confirm a sub-agent's seeded changes and run every check on each
cd /verif
id=$1; shift
all=$(ls zlv/c[0-9][0-9].go | sed 's|zlv/c|C|; s|\.go||' | tr '\n' ' ')
for v in "$@"; do
  pkg=$(python3 -c "import json;print(json.load(open('/tmp/seed/$id/OUT/$v/meta.json')).get('demo_pkg_dir','v3'))")
  echo "== $id-$v (demo in $pkg)"
  tools/confirm_seed.sh $id $v $pkg 2>&1 | tail -3
  if [ -f seeded/$id-$v/patch.diff ]; then
    r=$(tools/runpatch.sh seeded/$id-$v/patch.diff $all 2>&1 | grep -o "^KILLED C[0-9]*\|^FAULT.*\|^STALE.*\|^NOBUILD.*" | sed 's/^KILLED //' | tr "\n" " ")
    echo "$id-$v :: ${r:-none}"
  fi
done
