#!/usr/bin/env python3
"""mkmut.py <kind> <Cxx> <name> <file-relative-to-repo> <<< JSON list of [old,new] pairs (or --new for a new file)
Creates /verif/<kind>/<Cxx>/<name>.patch (kind = mutants | benign) as a unified diff
against /repo's HEAD working tree, by string replacement (each 'old' must occur exactly once
unless a third element gives the expected count)."""
import sys, json, os, subprocess, tempfile
kind, prop, name, rel = sys.argv[1:5]
spec = json.load(sys.stdin)
src = os.path.join("/repo", rel)
old = open(src).read() if os.path.exists(src) else ""
new = old
if isinstance(spec, dict) and "content" in spec:
    new = spec["content"]
else:
    for e in spec:
        a, b = e[0], e[1]
        cnt = e[2] if len(e) > 2 else 1
        if new.count(a) != cnt:
            sys.exit(f"{name}: expected {cnt} occurrence(s) of {a!r} in {rel}, found {new.count(a)}")
        new = new.replace(a, b)
with tempfile.TemporaryDirectory() as d:
    a = os.path.join(d, "a"); b = os.path.join(d, "b")
    open(a, "w").write(old); open(b, "w").write(new)
    la = "a/" + rel if old or os.path.exists(src) else "/dev/null"
    out = subprocess.run(["diff", "-u", "--label", la, "--label", "b/" + rel, a if la != "/dev/null" else "/dev/null", b], capture_output=True, text=True).stdout
os.makedirs(f"/verif/{kind}/{prop}", exist_ok=True)
path = f"/verif/{kind}/{prop}/{name}.patch"
mode = "a" if os.environ.get("MKMUT_APPEND") else "w"
open(path, mode).write(out)
print("wrote", path, len(out.splitlines()), "lines")
