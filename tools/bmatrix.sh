#!/bin/bash
# usage: tools/bmatrix.sh <dir-with-*.diff> [out-file]
# Runs every behaviour-preserving refactoring <dir>/<Cxx>/<k>.diff against EVERY
# property's check; any report is a false alarm of that check.
cd /verif
src=$1; out=${2:-/tmp/bmatrix.out}
all=$(ls zlv/c[0-9][0-9].go | sed 's|zlv/c|C|; s|\.go||' | tr '\n' ' ')
ls $src/C*/[0-9].diff | xargs -P 6 -I{} bash -c 'r=$(tools/runpatch.sh {} '"$all"' 2>&1 | grep -v "^SILENT" | cut -c1-400); echo "== {} :: ${r:-all silent}"' > "$out"
grep -c "all silent" "$out"; grep -v "all silent" "$out"
