#!/usr/bin/env python3
"""Generates /verif/MANIFEST.json from the table below and validates it (and any
evidence files present) against the schemas in /root/.vp when available."""
import json, os, sys, glob

BASE_OFF = ("for m in ./v3 ./v3/cmd/genTestCerts ./v3/cmd/gen_test_crl; do "
            "(cd /repo/$m && GOFLAGS=-mod=mod go test -json -vet=off -count=1 -timeout 25m ./...); done")

TRUST = ("Trusted: go/types, go/ssa and go/packages (x/tools v0.29.0) on the default linux/amd64 build; "
         "documented semantics of the standard library and of zcrypto/x-crypto parsers. ")

# property id -> dict(level, text, note, technique, design_ref) for claimed checks
CLAIMED = {
 "C06": dict(level="other",
   text="Exhaustive over the program: for each of the 377 registrations the set of LintStatus constants reachable from the registered type's Execute (all return paths, helpers, pointer-passed status cells) is computed on SSA and intersected with what the name prefix forbids; any lint/status/function triple not in known_findings.txt fails, an unbounded set fails as undecided. Not 'proof' only because nine genuine violations exist on the pinned tree and are listed as known findings.",
   note=TRUST+"Statuses are assumed to be produced only by the SSA forms the analysis models; every other form is reported undecided, never assumed.",
   technique="interprocedural status-flow (dataflow over go/ssa) + registration census", ref="§3 C06"),
 "C12": dict(level="proof",
   text="Complete census on every run: every lint type in v3/lints implements a lint interface iff exactly one Register* call (resolved by callee object) constructs it, executed on every path of a func init of a package in zlint's import closure with no file excluded from the build; all metadata obligations (constant lower-case e_/w_/n_ name unique across the three kinds, description, declared source, constructor, dates folding to UTC instants with effective < ineffective) and the registry-coherence obligations (three register siblings: guards dominate updates, all five tables updated on the success path, names re-sorted; read API returns the matching table; Names/Sources merge all kinds; Register* panic on error) are discharged one by one; obligations == discharged or the check fails.",
   note=TRUST+"Go runs every init of every linked package once; sort.Strings sorts. Default build configuration only in the quick tier.",
   technique="program census over go/types + dominance rules on go/ssa (registration sites, registry siblings)", ref="§3 C12"),
 "C03": dict(level="proof",
   text="The effective window is enforced by three framework functions, so it is decided once for all 377 lints: the decision table of checkEffective and of each life-cycle function is extracted from SSA with time comparisons as uninterpreted atoms and compared with the half-open-window specification on every ordering of (effective, ineffective, target) incl. zero instants — exhaustive for all instants because the code touches them only through IsZero/Before/After/Equal; argument binding (NotBefore/ThisUpdate/NextUpdate), absence of any other interface call of a rule body, the deprecated wrapper and constant folding of every registered date are separate obligations. All obligations must discharge.",
   note=TRUST+"time.Time comparison methods are location-independent (documented). Lint bodies are not assumed anything about: they are simply not called outside the window.",
   technique="decision-table extraction by path enumeration over go/ssa with uninterpreted atoms, compared with the spec on a finite order-abstract domain; call-site census", ref="§3 C03"),
 "C04": dict(level="other",
   text="Life-cycle decision tables (scope gate, constructor, MaybeConfigure, CheckApplies, window, Execute) extracted from SSA and compared with the specification on source × scope × configuration outcome × applicability × window position for all three kinds; recover wrapper shape; census of framework stores into results; freshness of all 377 constructors. Decides ordering, gating, pass-through and instance identity for every input; the meaning of the scope predicates and of each lint's CheckApplies is treated as an oracle and not decided.",
   note=TRUST+"util.IsServerAuthCert/IsEmailProtectionCert/IsCodeSigning, Configuration.MaybeConfigure and the lint methods are uninterpreted oracles.",
   technique="decision-table extraction (path enumeration over go/ssa) vs. spec table; SSA freshness analysis of constructors; field-write census", ref="§3 C04"),
 "C01": dict(level="other",
   text="Decides, for every input, the construction of the result set: decision tables of the three execute* loops (unrolled twice, only the index loop-carried) show exactly one Execute/metadata/store/flag-update per registered lint with no skipping branch; a field-write census shows nobody else writes Results or the flags (flags only ever set to true); the status-flow analysis shows none of the 377 Execute methods nor the framework's can return nil or a status other than the seven named ones (zero value, literal without Status, conversion, arithmetic are violations or undecided); the flag switch is compared with the contract on statuses -1..8; the Lint*Ex entry points' nil guards, default registry and Version stamp (= module major version) and the recover net are decided from their decision tables. 'No hang' is decided as a termination census: each of the 346 natural loops and every static call cycle in zlint, lint, util and lints/* must be a range loop, a counter stepping by a constant towards a loop-invariant bound tested on every iteration, a slice/string strictly shrinking on every iteration, or one of five reviewed ledger lines whose witness is re-checked; any other loop is reported. Library callees are assumed to terminate; panic-freedom of CRL/OCSP lints is C02's ledger.",
   note=TRUST+"Induction over the range loop relies on the checked fact that only the index is carried between iterations. Termination: library functions are assumed to terminate; asn1.Unmarshal returns a strictly shorter remainder and utf8.DecodeRune a size ≥ 1 on non-empty input (documented).",
   technique="decision-table extraction over go/ssa (bounded loop unrolling + induction side condition), interprocedural status/nil-flow, field-write census, natural-loop termination census (induction-variable / shrinking-slice classification + witnessed ledger)", ref="§3 C01"),
 "C13": dict(level="proof",
   text="Decision tables of LintSource.FromString and UnmarshalJSON evaluated on the value of every declared LintSource constant and on undeclared strings (declared ⇒ accepted as itself, anything else ⇒ Unknown/error); decision tables of SourceList.FromString (Unknown ⇒ error, blanks skipped) and of lintNamesToMap (trimmed name, all three lookups, unknown ⇒ error); Filter and the CLI route both source and name lists through them and propagate the error; every registration uses a declared source; every lint name in every RegisterProfile call is registered. All obligations must discharge.",
   note=TRUST+"encoding/json and strings.TrimSpace/Split are trusted.",
   technique="decision-table extraction over go/ssa evaluated on the enumerated constant set; registration/profile census", ref="§3 C13"),
 "C14": dict(level="other",
   text="Structural conditions for reversibility decided from the code: label table of LintStatus.String on all declared constants and out-of-range values against the published labels (non-empty, distinct); StatusLabelToLintStatus has one String()→status entry per constant and is never modified; MarshalJSON/UnmarshalJSON decision tables (unknown label ⇒ error, no default); struct tags of ResultSet/LintResult/LintMetadata/Profile and the three lint structs (round-trip fields keyed uniquely, function fields excluded); WriteJSON's decision table encodes each element of all three listings exactly once; LintSource decodes only declared sources. encoding/json's own behaviour (U+FFFD, escaping) is trusted, not decided.",
   note=TRUST+"encoding/json honours MarshalJSON/UnmarshalJSON and struct tags as documented.",
   technique="decision-table extraction over go/ssa, struct-tag and constant-table census", ref="§3 C14"),
 "C18": dict(level="other",
   text="Table clause complete: every entry of the generated tldMap literal (≈1570) is checked by the checker's own arithmetic (key = GTLD, lower-case, delegation date parses, removal empty or parseable and not earlier) and the map is never written; the decision tables of GTLDPeriod.Valid (all orderings of when/delegation/removal), HasValidTLD, IsInTLDMap, DNSNamesExist, the TLD lint's Execute (loop unrolled twice + index-only side condition) and CheckApplies, and the generator's validateGTLDs are compared with the stated rule. Decides every domain string and instant because the code touches them only through the modelled atoms; strings.Split/ToLower and time.Parse are trusted.",
   note=TRUST+"time.Parse(2006-01-02), strings.ToLower/Split semantics are trusted, not modelled.",
   technique="constant-table census (go/ast + go/constant) with checker-side date arithmetic; decision-table extraction over go/ssa", ref="§3 C18"),
 "C16": dict(level="other",
   text="Threshold clauses decided for all keys: the prime table is compared with a sieve; PrimeNoSmallerThan752's decision table shows false iff some table entry divides the argument; for each of the 13 key-quality lints the decision table of Execute (big.Int BitLen/Mod/Cmp/NewInt as atoms) is evaluated with the checker's own big-integer arithmetic on both sides of every threshold (bit lengths 1023/1024/1025, 2047/2048/2049, 3071/3072/3073, non-multiples of 8, odd/even, small factors, exponents 1,2,3,4,65536,65537,…) and must agree in operator, constant, polarity and status with the stated predicate; the exponent upper bound 2^256 is checked structurally. Fermat clause, decided as a schema match: the paths of checkPrimeFactorsTooClose (round loop unrolled three times) are interpreted over the polynomial ring Z[n, ⌊√n⌋, √-atoms] (each big.Int object holds a normalised polynomial; Sqrt/Add/Sub/Mul/Set/Cmp modelled, any other big.Int mutation or any other branch is 'undecided') and must be Fermat's method: a starts at ⌊√n⌋+1 with b2 = a²−n, the only branch of a round is b2 == (⌊√b2⌋)², the step is a←a+1, b2←a²−n as a polynomial identity in the free indeterminate ⌊√n⌋ (hence for every round), a hit returns a non-nil error whose two reported numbers multiply to n under r² = b2, nil is returned only when i < rounds fails with i = 0,1,…; Execute passes the key's N and the configured Rounds and reports Error iff an error came back. What this does not decide: math/big's own arithmetic, and the number-theoretic fact (not code) that Fermat's method reaches (p+q)/2 within the stated rounds.",
   note=TRUST+"math/big is trusted (Sqrt = floor square root, results non-negative). The Fermat schema rule accepts any rearrangement whose polynomial normal forms agree (e.g. the incremental update b2 += 2a+1) and reports anything else as undecided — e.g. a pre-filter that skips rounds, correct or not.",
   technique="constant-table census with checker-side sieve; decision-table extraction over go/ssa evaluated at boundary points with big-integer arithmetic; abstract interpretation of the Fermat loop's paths in a polynomial term domain compared with the algorithm schema (syntactic equality of normal forms, no solver, nothing executed)", ref="§3 C16, §11.6"),
 "C19": dict(level="other",
   text="Shape of IsIANAReserved / IntersectsIANAReserved decided by decision tables (¬global-unicast shortcut, same table, both containment directions) on all abstract cases; the table's 84 CIDR literals are read from the syntax tree and, with the established model, the checker's own interval arithmetic (Go net library as trusted transcription) decides: every special-purpose block of the statement reserved at its first/last address in 4-byte and mapped form, public addresses not, every supernet of every listed / required / shortcut-only block intersects, single-address networks agree with the address test; decision tables of the three lints. Table and monotonicity clauses are complete for all addresses and prefix lengths because prefixes nest or are disjoint.",
   note=TRUST+"net.IP.IsGlobalUnicast / IPNet.Contains / ParseCIDR semantics are used as the model, not verified. The .arpa lint's string parsing is outside the claim.",
   technique="decision-table extraction over go/ssa + constant-table census with checker-side prefix arithmetic", ref="§3 C19"),
 "C05": dict(level="other",
   text="Necessary structural conditions, decided for all 377 lints, their helpers and the framework: interprocedural MOD summaries over SSA + VTA call graph (10.8k functions) show no lint method or entry point writes a module-level variable or memory reachable from the linted object (zcrypto's own unexported memo fields excepted); every constructor allocates a fresh instance; every range over a map reachable from a lint is order-insensitive by a recognised form, else reported (two genuine order-dependent loops of multiPurpose are listed as known findings); every use of an I/O / clock / randomness / goroutine API in lint, util and framework packages is in a seven-entry who-may-use table, and imports/modules outside the reviewed list are flagged. Value-level determinism of the trusted libraries and writes through reflect/unsafe are not decided.",
   note=TRUST+"Aliasing approximated by SSA address roots + callee MOD summaries (no pointer analysis available); assembly callees by a reviewed table (unknown ones are assumed to write their pointer arguments).",
   technique="interprocedural effect (MOD) analysis over go/ssa with VTA call graph; loop-form classification of map ranges; who-may-use API policy over types.Info.Uses", ref="§3 C05"),
 "C08": dict(level="other",
   text="The decision table of Registry.Filter for one loop iteration (closures inlined, induction over r.Names() with only the index carried) is compared with the documented selection predicate on lint kind × five filters × {absent, matching, not matching} × registration outcome (2 916 abstract cases): registered iff not excluded/included by source and name and matching the pattern, keyed by the lint's own Source and name, the very object returned by the kind's lookup registered with the kind's own method on the new registry, which always inherits the configuration; validation and registration errors are returned with a nil registry, pattern + name lists rejected, empty options return the receiver; tables of Empty (plus a field census so a new option cannot be forgotten), lintNamesToMap (trim, three lookups, unknown ⇒ error), sourceListToMap and AddProfile; MOD(Filter, receiver) = ∅ from the effect analysis. Regular-expression semantics and SourceList parsing are outside the claim.",
   note=TRUST+"Every registered name of every kind appears in r.Names() (C12's names-merge rule).",
   technique="decision-table extraction over go/ssa with bounded unrolling + induction side condition; effect (MOD) analysis", ref="§3 C08"),
 "C07": dict(level="other",
   text="Necessary structural conditions for independence of lints, all decided: MOD summaries show no lint method writes module-level state or the linted object (so co-selected lints cannot communicate) and every constructor allocates a fresh instance; the three execute* loops carry nothing but the index and store exactly one result per lint (nothing for unselected lints); the one-iteration decision table of Filter registers the very lint object returned by the lookup with its own kind and copies the configuration on every path. Value equality of results additionally rests on library determinism (C05 assumption).",
   note=TRUST+"Aliasing approximated by SSA address roots (no pointer analysis); reflect/unsafe writes not modelled.",
   technique="effect (MOD) analysis over go/ssa + VTA call graph; decision-table extraction for the result loops and Filter", ref="§3 C07"),
 "C10": dict(level="other",
   text="Interleavings are not explored; decided are the structural conditions under which they cannot matter: (1) MOD summaries: no lint method, Lint*Ex entry point or registry read API function (Names, Sources, ByName, BySource, Lints, WriteJSON, DefaultConfiguration, Filter, MaybeConfigure …) writes module-level state, the linted object, the registry/lookup it is called on or the shared configuration tree (sync-typed fields excepted; Filter writes only the registry it allocates); per-call lint instances; (2) every call site of the registration API, register* and SetConfiguration is in an init function, the registration API itself, NewRegistry/Filter on the not-yet-escaped registry, or the CLI's start-up; (3) every lock taken in lint/util/framework code is paired with an immediately deferred unlock and no lint method is invoked under a registry lock. The RLock-as-writer in register is reported as an observation: under (2) it cannot race with readers.",
   note=TRUST+"Distinct parsed objects per goroutine (the property's own premise). Library internals assumed race-free for read-only use.",
   technique="effect (MOD) analysis over go/ssa + VTA call graph; who-may-call census; lock-pairing rule on SSA", ref="§3 C10"),
 "C09": dict(level="other",
   text="Access policy decided over the SSA of all lint, util and framework functions: Certificate.Signature is loaded only where the sole use is len(); SelfSigned is read only by util.IsSelfSigned (returned unchanged) and, in zcrypto's source as loaded, is only ever set to true under bytes.Equal(RawSubject, RawIssuer); fingerprints, ValidationLevel, verification/JSON methods and the certificate as an interface value are not used; Raw flows only into len(), asn1.Unmarshal (target never read at its third component or RawContent, never escaping) or a cryptobyte.String from which only the outer SEQUENCE and at most its first two elements are read. Which members are signature-dependent is re-derived on every run by a forward taint (data + control dependence, callee read/write summaries) over zcrypto's x509.parseCertificate as loaded, sources in.SignatureValue and in.Raw; every derived member must be covered by the policy, and no zcrypto function that lint code hands the certificate to may read one. A structural necessary condition: it does not decide that decoding succeeds independently of the signature bits.",
   note=TRUST+"ASN.1 Certificate ::= SEQUENCE {tbs, algorithm, signature}; the taint pass over zcrypto does not follow interface dispatch or reflection.",
   technique="def-use / access-policy analysis over go/ssa (who may read which member, where the value may flow); forward taint analysis of the parser (zcrypto parseCertificate) to derive the signature-dependent members", ref="§3 C09"),
 "C11": dict(level="other",
   text="Decision tables decide the configuration path for every TOML document as far as the code distinguishes them: deserializeConfigInto over section ∈ {absent, table, other value} × Unmarshal outcome (absent ⇒ defaults untouched; non-table ⇒ error, never a panic; errors returned), Configure (error iff inner error), MaybeConfigure (no-op unless Configurable, configures the instance's own Configure() value under the lint's name); the three life-cycle tables (configuration before CheckApplies, error ⇒ Fatal with the error text and no lint call — also on the CRL/OCSP paths without a recovery net); no unchecked type assertion / panic in the configuration path; every Configure() returns its own receiver and every constructor is fresh (no leakage between runs or registries); Filter copies the configuration on every path; the example generator covers all three kinds. TOML validity of the example, go-toml's own behaviour and the effect of an option on a lint are not decided.",
   note=TRUST+"go-toml returns type errors rather than panicking (trusted); reflect-based resolution of higher-scoped configurations is not modelled.",
   technique="decision-table extraction over go/ssa; assertion/panic census in the configuration path; constructor freshness analysis", ref="§3 C11"),
 "C15": dict(level="other",
   text="Control-flow shape of cmd/zlint and formattedoutput decided from decision tables (logrus.Fatal*/os.Exit = process exit): doLint on read/decode/parse/JSON errors × four formats × PEM block types × output flags fails closed (Fatal, nothing written to stdout before) and otherwise parses the decoded bytes of the chosen format, lints with the registry it was handed (CRL iff PEM type X509 CRL), marshals that result's Results and prints it / its indentation / its summary; setLints on all 64 flag combinations and its error cases wires each flag to its own FilterOptions field, applies -config before filtering and returns the filtered (or global) registry; main hands setLints' registry to every doLint call and dies on its error; newRT counts one per result above the threshold into maps allocated per call. Process exit codes, table rendering and byte-level output are not decided.",
   note=TRUST+"logrus.Fatal* terminate the process; pem/base64/json and the zcrypto parsers are oracles.",
   technique="decision-table extraction over go/ssa with no-return modelling; def-use of flag variables", ref="§3 C15"),
 "C17": dict(level="other",
   text="Order dependence can only arise in loops over the SAN lists / Extensions or by positional indexing, and those are examined exhaustively: for each of the ~65 outermost loops reachable from a lint whose iterated collection derives from a SAN list, GetParsedDNSNames, the re-parsed SAN value or Extensions, the set of verdicts of its early exits (statuses by interprocedural status-flow, plus 'break') must have at most one element; loop-carried status/result variables may be assigned at most one status; the unique-selector idiom over Extensions is exempt; util.GetExtFromCert looks up by OID and nothing indexes these lists with a constant. Eight genuine violations (NA vs finding at the first unparseable DNS name) are known findings, one reviewed exception (dead NA branch in e_ext_san_empty_name). Order dependence through position arithmetic or non-status helper results is not examined.",
   note=TRUST+"The parser only hands over extensions whose GeneralNames are well-formed (basis of the single exception).",
   technique="natural-loop analysis over go/ssa: early-exit verdict sets via status-flow; loop-carried value classification; index census", ref="§3 C17"),
 "C20": dict(level="other",
   text="For each of the 23 duplicated-rule pairs named by the property the behaviour fingerprints of CheckApplies and Execute (resolved callees with constant arguments, comparisons and arithmetic against constants, certificate fields read, statuses, assertions, loops; same-package helpers folded in) are compared under the pair's declared relation — mirror after field/OID renaming, RFC copy contained in BR copy, equal up to severity, equal, companion (one threshold constant + status, warning limit ≤ error limit, same applicability/source, warning window ⊇ error window). An edit to one copy only is reported with the differing features; the one drift present on the pinned tree (IAN copy of the URI-host rule) is a known finding with a demonstrated disagreeing input. Fingerprint agreement is a strong necessary condition for the two copies to agree, not a proof of behavioural equality.",
   note=TRUST+"The pair table is taken from the property's anchors and confirmed by reading; shared helpers (util/fqdn.go, apple/time.go) count as one callee on both sides.",
   technique="sibling cross-check: normalised behaviour fingerprints over go/ssa compared under declared renamings", ref="§3 C20"),
 "C02": dict(level="other",
   text="A complete ledger of panic obligations for packages zlint, lint, util and lints/*: every index/slice whose bounds check the Go compiler's prove pass cannot eliminate (go build -gcflags=-d=ssa/check_bce/debug=1 on /repo's current tree), every type assertion without comma-ok, every explicit panic and every integer division by a non-constant reachable from a lint method, every dereference of util.GetExtFromCert's nil-able result, every pointer result dereferenced or used as a method receiver although the call's error was discarded (`v, _ := f()`). Each obligation must be discharged by (a) precondition pairing decided from the lint's own CheckApplies decision table (comma-ok assertion to the same type / IsExtInCert or nil test for the same OID on every applicable path), (b) a dominating guard in the same function, (c) an automatic rule whose invariant is re-checked from source (pkix.Name []string fields are nil or non-empty: every store in zcrypto's x509 packages is append(old, element…); sort.Interface contract), or (d) a reviewed line of ledger/C02.txt, 23 of 49 of which carry a machine re-checked witness (dominating branch in the function or all its callers, CheckApplies implication, validator-parses-its-parameter + same-argument for a re-parse). A new unproven site, a dropped `ok &&`, a dropped extension test or a removed guard is reported with its site. NOT decided: the truth of the reviewed parser post-conditions quoted in the ledger, panics inside library callees, resource exhaustion — so this is a structural necessary condition (no unreviewed panic site), not a proof of panic freedom.",
   note=TRUST+"Also trusted: the Go compiler's prove pass as the bounds oracle (it only ever removes checks it has proven), and the 49 one-line arguments of ledger/C02.txt that were written by reading zlint and the zcrypto / x-crypto parsers. Keys are independent of local variable and parameter names and fall back to package+shape matching, so renames and helper extraction do not alarm.",
   technique="panic-obligation ledger: compiler bounds-check-elimination report + go/ssa census of assertions/panics/divisions/nil-able dereferences, discharged by CheckApplies decision-table pairing, dominance guards and a reviewed, witness-carrying ledger", ref="§3 C02"),
}

NOT_YET = "check not built yet in this session (see DESIGN.md §3 for the planned static rule)"
NA = {}

def main():
    props = [json.loads(l)["id"] for l in open("/verif/properties.jsonl")]
    checks = []
    for pid in props:
        if pid not in CLAIMED:
            continue
        c = CLAIMED[pid]
        checks.append({
            "property_id": pid,
            "quick_cmd": f"./check.sh {pid} quick",
            "thorough_cmd": f"./check.sh {pid} thorough",
            "evidence_file": f"/verif/evidence/{pid}.json",
            "replay_cmd_template": "cat {path}",
            "engine": "zlv",
            "level_claimed": {"category": c["level"], "text": c["text"], "design_ref": c["ref"]},
            "level_note": c["note"],
            "technique": c["technique"],
        })
    na = []
    for pid in props:
        if pid in CLAIMED:
            continue
        na.append({"property_id": pid, "reason": NA.get(pid, NOT_YET)})
    m = {
        "version": 1,
        "setup_cmd": "cd /verif/zlv && GOFLAGS=-mod=mod GOPROXY=off GOSUMDB=off GOTOOLCHAIN=local CGO_ENABLED=0 go build -o ../bin/zlv .",
        "hooks": {
            "guard": "verif",
            "enable": "none needed: static analysis reads /repo's sources and instruments nothing (no file in /repo carries the tag)",
            "baseline_off_cmd": BASE_OFF,
            "source_commits": [],
            "add_only": True,
        },
        "engines": [{
            "name": "zlv", "path": "/verif/zlv",
            "serves_properties": sorted(CLAIMED),
            "kind_free_text": "repository-specific static analyser (go/packages + go/types + go/ssa + dominators/CFG); one sub-command per property; loads /repo/v3's working tree on every run",
        }],
        "checks": checks,
        "not_applicable": na,
        "notes": "All checks are static analyses of /repo's current working tree (no test, fuzzer or solver is run). Exit 0 = held (KNOWN-FINDING lines allowed), 1 = VIOLATION (also for constructs the analysis cannot decide), 2 = CHECKER-FAULT (tree does not load / anchor unresolved). fix: commits in /repo: b9be638 59f97dc d4f8d0c 13c6919 2dacd01 8968cce a97c8e6 (see known_findings.txt).",
    }
    json.dump(m, open("/verif/MANIFEST.json", "w"), indent=1)
    try:
        import jsonschema
        jsonschema.validate(m, json.load(open("/root/.vp/MANIFEST.schema.json")))
        es = json.load(open("/root/.vp/EVIDENCE.schema.json"))
        for f in sorted(glob.glob("/verif/evidence/C*.json")):
            jsonschema.validate(json.load(open(f)), es)
        print("MANIFEST.json and", len(glob.glob('/verif/evidence/C*.json')), "evidence files validate;", len(checks), "claimed,", len(na), "not applicable")
    except ImportError:
        print("jsonschema not available; wrote MANIFEST.json unvalidated")

if __name__ == "__main__":
    main()
