#!/bin/bash
# usage: tools/matrix.sh [out-file]
# Runs every seeded change against EVERY property's check (one scratch copy per
# seed) and prints, per seed, which checks report it. Used for the table
# "which checks catch which changes" in DESIGN.md.
cd /verif
out=${1:-/tmp/matrix.out}
pat=${2:-C*}   # optional glob over seed directory names, e.g. "*-[GH]"
all=$(ls zlv/c[0-9][0-9].go | sed 's|zlv/c|C|; s|\.go||' | tr '\n' ' ')
ls -d seeded/$pat | xargs -P 6 -I{} bash -c 'r=$(tools/runpatch.sh {}/patch.diff '"$all"' 2>&1 | grep -o "^KILLED C[0-9]*" | cut -d" " -f2 | tr "\n" " "); echo "$(basename {}) :: ${r:-none}"' | sort > "$out"
cat "$out"
