#!/usr/bin/env python3
"""merge_thorough.py <Cxx> <configs.tsv> <sweep.tsv> <wall_s>
Adds what the thorough tier did beyond the default-build run to evidence/<Cxx>.json
(written a moment ago by zlv): the other build configurations analysed and the
outcome of the checker's two-sided self-test. Prints one summary line."""
import json, sys, os
pid, cfgs, sweep, wall = sys.argv[1:5]
path = os.path.join(os.environ.get("ZLV_EVDIR", "/verif/evidence"), pid + ".json")
ev = json.load(open(path))
cov = ev["coverage"]
bc = [{"config": cov.get("build_config", "linux/amd64"), "exit": 1 if ev.get("violations") else 0,
       "obligations": cov.get("obligations"), "discharged": cov.get("discharged")}]
for line in open(cfgs):
    c, rc, summary = line.rstrip("\n").split("\t")
    e = {"config": c, "exit": int(rc), "summary": summary}
    try:
        alt = json.load(open("/verif/evidence/.cfg/%s/%s.json" % (c.replace("/", "_"), pid)))
        e["obligations"] = alt["coverage"]["obligations"]; e["discharged"] = alt["coverage"]["discharged"]
        e["files_outside_build"] = alt["coverage"].get("files_outside_build") or []
    except Exception as ex:
        e["error"] = str(ex)
    bc.append(e)
cov["build_configs"] = bc
res = {"mutant": {}, "benign": {}, "seeded": {}, "archive": {}}
for line in open(sweep):
    kind, f, verdict = line.rstrip("\n").split("\t")
    name = f.replace("/patch.diff", "").split("/", 1)[1]
    if kind == "archive":
        name = f.split("/", 1)[1]
    res[kind].setdefault(verdict or "?", []).append(name)
def summ(kind, good):
    d = res[kind]
    out = {"total": sum(len(v) for v in d.values()), good[1]: len(d.get(good[0], []))}
    for k, v in d.items():
        if k != good[0]:
            out[k.lower()] = sorted(v)
    return out
cov["self_test"] = {
    "what": "each patch applied to a scratch copy of /repo/v3 (removed afterwards) and this property's check re-run on it; evidence about the checker, never part of the verdict",
    "mutants": summ("mutant", ("KILLED", "reported")),
    "benign_edits": summ("benign", ("SILENT", "silent")),
    "seeded_changes": summ("seeded", ("KILLED", "reported")),
    "refactor_archive": summ("archive", ("SILENT", "silent")),
}
ev["wall_s"] = float(wall) if float(wall) > ev.get("wall_s", 0) else ev["wall_s"]
json.dump(ev, open(path, "w"), indent=1)
m, b, s = cov["self_test"]["mutants"], cov["self_test"]["benign_edits"], cov["self_test"]["seeded_changes"]
a = cov["self_test"]["refactor_archive"]
print("%s thorough: %d build configurations; self-test: %d/%d mutants reported, %d/%d benign edits silent, %d/%d seeded changes reported, %d/%d archived refactors silent" % (
    pid, len(bc), m["reported"], m["total"], b["silent"], b["total"], s["reported"], s["total"], a["silent"], a["total"]))
