#!/bin/bash
# usage: tools/confirm_seed.sh <Cxx> <variant> [pkgdir-relative-to-worktree, default v3]
# Confirms a seeded change produced by a sub-agent in its scratch worktree
# /tmp/seed/<Cxx>: build, existing suite green with the change, demo fails with
# the change and passes without. On success copies it to /verif/seeded/<Cxx>-<variant>/.
id=$1; var=$2; pkg=${3:-v3}
wt=/tmp/seed/$id; out=$wt/OUT/$var
export GOFLAGS=-mod=mod GOPROXY=off GOSUMDB=off GOTOOLCHAIN=local
cd $wt || exit 2
git checkout -q -- . ; git clean -fdq -e OUT
[ -f $out/patch.diff ] || { echo "no patch"; exit 2; }
demo=$(ls $out/*_test.go 2>/dev/null | head -1)
log=$out/confirm.log; : > $log
git apply $out/patch.diff || { echo "patch does not apply"; exit 3; }
(cd v3 && go build ./... ) >>$log 2>&1 || { echo "BUILD FAILS"; git checkout -q -- .; exit 4; }
(cd v3 && go test -vet=off -count=1 ./... 2>&1 | grep -v "no test files" ) > $out/suite_with_change.confirm.txt
if grep -q "^FAIL\|^--- FAIL\|panic:" $out/suite_with_change.confirm.txt; then echo "SUITE NOT GREEN"; grep "^FAIL\|^--- FAIL" $out/suite_with_change.confirm.txt | head; git checkout -q -- .; git clean -fdq -e OUT; exit 5; fi
echo "suite green with change" >> $log
if [ -n "$demo" ]; then
  cp $demo $pkg/
  tests=$(grep -oh 'func Test[A-Za-z0-9_]*' $demo | sed 's/func //' | paste -sd'|')
  (cd $pkg && go test -vet=off -count=1 -run "^($tests)\$" . ) > $out/demo_with_change.txt 2>&1; rc1=$?
  git apply -R $out/patch.diff
  (cd $pkg && go test -vet=off -count=1 -run "^($tests)\$" . ) > $out/demo_without_change.txt 2>&1; rc2=$?
  rm -f $pkg/$(basename $demo)
else
  echo "no test demo; check demo.txt manually"; rc1=99; rc2=99
  git apply -R $out/patch.diff
fi
git checkout -q -- . ; git clean -fdq -e OUT
echo "demo with change rc=$rc1 ; without change rc=$rc2" | tee -a $log
if [ $rc1 -ne 0 ] && [ $rc2 -eq 0 ]; then
  d=/verif/seeded/$id-$var; mkdir -p $d
  cp $out/patch.diff $d/patch.diff; cp $demo $d/; cp $out/demo.txt $d/ 2>/dev/null
  python3 - "$out/meta.json" "$d/meta.json" "$pkg" "$tests" <<'PY'
import json,sys
m=json.load(open(sys.argv[1]))
m["confirmed_by_main"]={"worktree":"scratch git worktree of /repo under /tmp/seed","ran":["git apply patch.diff","go build ./...","go test -vet=off -count=1 ./... (v3 module): no FAIL","go test -run '^(%s)$' in %s with the change: FAILS"%(sys.argv[4],sys.argv[3]),"same without the change: passes"]}
json.dump(m,open(sys.argv[2],"w"),indent=1)
PY
  echo "CONFIRMED -> $d"
else
  echo "NOT CONFIRMED"
fi
