#!/bin/bash
# usage: tools/benrun.sh <dir> [out-file] [parallel]
# <dir>/<Cxx>/OUT/R*.diff are behaviour-preserving maintenance changes written by
# independent sub-agents. Each is applied to a scratch copy of /repo/v3 and EVERY
# property's check is run on it; any report is a false alarm of that check.
cd /verif
src=$1; out=${2:-/tmp/benrun.out}; par=${3:-4}
all=$(ls zlv/c[0-9][0-9].go | sed 's|zlv/c|C|; s|\.go||' | tr '\n' ' ')
ls $src/C*/OUT/R*.diff | xargs -P $par -I{} bash -c 'r=$(tools/runpatch.sh {} '"$all"' 2>&1 | grep -v "^SILENT" | cut -c1-600); echo "== {} :: ${r:-all silent}"' > "$out"
echo "silent: $(grep -c "all silent" "$out") of $(grep -c "^== " "$out")"
grep -v "all silent" "$out"
