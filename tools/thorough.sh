#!/bin/bash
# usage: tools/thorough.sh <Cxx>      (called by check.sh for the thorough tier)
# 1. the property's rules on the default build (decides, writes evidence/<Cxx>.json)
# 2. the same rules on three more build configurations (decide as well: a
#    violation that exists only on windows / darwin / 32-bit is a violation)
# 3. the checker's own two-sided test: every mutant (must be reported), benign
#    edit (must stay silent) and seeded change of the property, each on a scratch
#    copy of /repo/v3 under /tmp that is removed afterwards. Step 3 is evidence
#    about the checker and never changes the exit status.
p="$1"
cd /verif || exit 2
t0=$(date +%s)
tmp=$(mktemp -d /tmp/zlvthor.XXXXXX) || exit 2
trap 'rm -rf "$tmp"' EXIT
./bin/zlv -prop "$p" -tier thorough; rc=$?
: > "$tmp/configs.tsv"
for cfg in windows/amd64 darwin/arm64 linux/386; do
  d="evidence/.cfg/${cfg%/*}_${cfg#*/}"; mkdir -p "$d"
  ZLV_GOOS=${cfg%/*} ZLV_GOARCH=${cfg#*/} ZLV_EVDIR="/verif/$d" ZLV_BCECACHE="$tmp/bce" ./bin/zlv -prop "$p" -tier thorough > "$tmp/cfg.out" 2>&1; r=$?
  # the default run already printed the known findings and notes; repeat only what is new
  grep -v '^KNOWN-FINDING\|^note:' "$tmp/cfg.out" | sed "s|^$p thorough:|$p thorough [$cfg]:|"
  printf '%s\t%s\t%s\n' "$cfg" "$r" "$(tail -1 "$tmp/cfg.out")" >> "$tmp/configs.tsv"
  [ "$r" -gt "$rc" ] && rc=$r
done
: > "$tmp/sweep.tsv"
{
  for f in mutants/$p/*.patch; do [ -f "$f" ] && echo "mutant $f"; done
  for f in benign/$p/*.patch; do [ -f "$f" ] && echo "benign $f"; done
  for d in seeded/$p-*; do [ -f "$d/patch.diff" ] && echo "seeded $d/patch.diff"; done
  # the archives of behaviour-preserving refactors written by independent sub-agents for
  # ALL properties (false-alarm rounds 2-4): this property's check must stay silent on each
  for f in benign/round*_all/C*/R[0-9].diff; do [ -f "$f" ] && echo "archive $f"; done
} | xargs -P 8 -L 1 bash -c 'v=$(tools/runpatch.sh "$1" '"$p"' 2>&1 | tail -1 | cut -d" " -f1); printf "%s\t%s\t%s\n" "$0" "$1" "$v"' >> "$tmp/sweep.tsv"
python3 tools/merge_thorough.py "$p" "$tmp/configs.tsv" "$tmp/sweep.tsv" $(( $(date +%s) - t0 )) || rc=2
exit $rc
