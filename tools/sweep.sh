#!/bin/bash
# usage: tools/sweep.sh [Cxx ...]   (default: every property with patches)
# Runs every mutant (must be KILLED), benign edit (must stay SILENT) and seeded
# change (reported) of the named properties against their checks, 8 at a time.
cd /verif
props="$@"
[ -z "$props" ] && props=$(ls mutants benign 2>/dev/null | grep '^C' | sort -u)
jobs=()
for p in $props; do
  for f in mutants/$p/*.patch; do [ -f "$f" ] && echo "M $p $f"; done
  for f in benign/$p/*.patch; do [ -f "$f" ] && echo "B $p $f"; done
  for d in seeded/$p-*; do [ -f "$d/patch.diff" ] && echo "S $p $d/patch.diff"; done
done | xargs -P 8 -L 1 bash -c 'out=$(tools/runpatch.sh $2 $1 2>&1 | tail -1); echo "$0 $2 :: $out"' | sort > /tmp/sweep.out
bad=0
while read -r kind file sep verdict rest; do
  case "$kind:$verdict" in
    M:KILLED|B:SILENT|S:KILLED) ;;
    S:SILENT) echo "seed not caught: $file"; ;;
    *) echo "UNEXPECTED $kind $file: $verdict $rest"; bad=1;;
  esac
done < /tmp/sweep.out
echo "sweep: $(grep -c '^M .*KILLED' /tmp/sweep.out) mutants killed, $(grep -c '^B .*SILENT' /tmp/sweep.out) benign silent, $(grep -c '^S .*KILLED' /tmp/sweep.out) seeds caught, $(grep -c '^S .*SILENT' /tmp/sweep.out) seeds missed"
exit $bad
